import numpy as np
def empty_aligned(shape, dtype='float32'):
    return np.empty(shape, dtype=dtype)
class FFTW:
    def __init__(self, a, b, axes=(1,), direction='FFTW_FORWARD', threads=1):
        self.a, self.b, self.axes, self.direction = a, b, axes, direction
    def __call__(self, x):
        if self.direction == 'FFTW_FORWARD':
            return np.fft.rfft(x, axis=self.axes[0]).astype(self.b.dtype)
        return np.fft.irfft(x, n=self.b.shape[self.axes[0]], axis=self.axes[0]).astype(self.b.dtype)
