"""F13 (C06): decompress_destripe_cbin with nbatch <= 2 * SAMPLES_TAPER (2048) never advances first_s: the batch loop runs forever and appends
to the output until the disk is full.  Run with a 32 MB file-size limit so that the runaway ends in OSError(EFBIG); a 4000-sample recording is 3 MB.
usage (from /repo/src):  PYTHONPATH=/verif/notes/repro/stub:. /venv/bin/python /verif/notes/repro/repro_F13.py   (stub/pyfftw.py = pyfftw_standin.py)"""
import numpy as np, shutil, tempfile, logging, sys, resource, signal
from pathlib import Path
import warnings; warnings.filterwarnings("ignore")
logging.disable(logging.CRITICAL)
import spikeglx
from ibldsp import voltage
signal.signal(signal.SIGXFSZ, signal.SIG_IGN)
resource.setrlimit(resource.RLIMIT_FSIZE, (32 << 20, 32 << 20))
fx = Path('/repo/src/tests/fixtures')
t = Path(tempfile.mkdtemp())
ns, nc = 4000, 385
b = t/'x_g0_t0.imec1.ap.bin'
d = spikeglx._mock_spikeglx_file(b, fx/'sample3B_g0_t0.imec1.ap.meta', ns=ns, nc=nc, sync_depth=16, random=True)
rc = 0
for nbatch in (2560, 2048):
    out = t/f'out{nbatch}.bin'
    try:
        voltage.decompress_destripe_cbin(b, output_file=out, nprocesses=1, nbatch=nbatch, reject_channels=False, compute_rms=True)
        n = out.stat().st_size // (2 * nc)
        print(f'nbatch={nbatch}: returned, {n} samples written (input {ns})')
        rc |= n != ns
    except OSError as e:
        print(f'nbatch={nbatch}: did not terminate - output grew to {out.stat().st_size >> 20} MB for a {ns * nc * 2 >> 20} MB input until the file-size limit stopped it ({e.__class__.__name__}: {e})')
        rc = 1
    except ValueError as e:
        print(f'nbatch={nbatch}: rejected: {e}')
shutil.rmtree(t)
sys.exit(rc)
