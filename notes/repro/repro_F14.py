"""F14 (C06): decompress_destripe_cbin(compute_rms=False) - the worker loads the saturation memmap that is only created under compute_rms:
NameError (cannot access free variable 'file_saturation') before the first batch.  Run like repro_F13.py."""
import numpy as np, shutil, tempfile, logging, sys
from pathlib import Path
import warnings; warnings.filterwarnings("ignore")
logging.disable(logging.CRITICAL)
import spikeglx
from ibldsp import voltage
fx = Path('/repo/src/tests/fixtures')
t = Path(tempfile.mkdtemp())
ns, nc = 4000, 385
b = t/'x_g0_t0.imec1.ap.bin'
spikeglx._mock_spikeglx_file(b, fx/'sample3B_g0_t0.imec1.ap.meta', ns=ns, nc=nc, sync_depth=16, random=True)
rc = 0
out = {}
for rms in (True, False):
    out[rms] = t/f'rms{rms}'/'out.bin'
    out[rms].parent.mkdir()
    try:
        voltage.decompress_destripe_cbin(b, output_file=out[rms], nprocesses=1, nbatch=2560, reject_channels=False, compute_rms=rms)
        print(f'compute_rms={rms}: {out[rms].stat().st_size // (2 * nc)} samples written; files: {sorted(p.name for p in out[rms].parent.iterdir())}')
    except NameError as e:
        print(f'compute_rms={rms}: {e.__class__.__name__}: {e}')
        rc = 1
if rc == 0:
    same = np.array_equal(np.fromfile(out[True], dtype=np.int16), np.fromfile(out[False], dtype=np.int16))
    print('output identical with and without the quality files:', same)
    rc = 0 if same else 1
shutil.rmtree(t)
sys.exit(rc)
