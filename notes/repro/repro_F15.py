"""F15 (C06): with short recordings / many workers a worker starts on a grid point inside the last 2*SAMPLES_TAPER samples: an extra batch (RMS row, tail rewritten).
Run like repro_F13.py; exits 1 when the RMS row count or the output depends on the worker count."""
import numpy as np, shutil, tempfile, logging, sys
from pathlib import Path
import warnings; warnings.filterwarnings("ignore")
logging.disable(logging.CRITICAL)
import spikeglx
from ibldsp import voltage
fx = Path('/repo/src/tests/fixtures')
t = Path(tempfile.mkdtemp())
nc = 385
rc = 0
for ns, nb, nw in ((19700, 8192, 6), (60000, 8192, 8)):
    b = t/f'x{ns}_g0_t0.imec1.ap.bin'
    d = spikeglx._mock_spikeglx_file(b, fx/'sample3B_g0_t0.imec1.ap.meta', ns=ns, nc=nc, sync_depth=16, random=True)
    D = (np.random.default_rng(1).integers(-12, 13, size=(ns, nc))).astype(np.int16); D[:, -1] = np.arange(ns) % 64
    D.tofile(b)
    outs = {}
    for n in (1, nw):
        o = t/f'o{ns}_{n}'; o.mkdir()
        try:
            voltage.decompress_destripe_cbin(b, output_file=o/'out.bin', nprocesses=n, nbatch=nb, reject_channels=False, compute_rms=True)
            outs[n] = (np.fromfile(o/'out.bin', dtype=np.int16), np.load(o/'_iblqc_ephysTimeRmsAP.rms.npy').shape)
        except Exception as e:
            outs[n] = (repr(e)[:120], None)
    a, c = outs[1], outs[nw]
    same_rows = a[1] == c[1]
    same = same_rows and isinstance(a[0], np.ndarray) and isinstance(c[0], np.ndarray) and a[0].shape == c[0].shape and np.array_equal(a[0], c[0])
    print(f"ns={ns} nbatch={nb}: 1 worker -> {a[0].shape if isinstance(a[0], np.ndarray) else a[0]}, rms rows {a[1]}; {nw} workers -> {c[0].shape if isinstance(c[0], np.ndarray) else c[0]}, rms rows {c[1]}; identical={same}")
    if not same and isinstance(c[0], np.ndarray) and isinstance(a[0], np.ndarray) and a[0].shape == c[0].shape:
        bad = np.where(a[0].reshape(-1, nc) != c[0].reshape(-1, nc))[0]
        print("   differing samples:", bad.min(), "..", bad.max(), "count", np.unique(bad).size)
    rc |= (not same)
shutil.rmtree(t)
sys.exit(rc)
