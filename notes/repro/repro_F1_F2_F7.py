import numpy as np, shutil, tempfile
from pathlib import Path
import spikeglx, neuropixel
from ibldsp import utils, fourier, voltage, waveforms
import warnings; warnings.filterwarnings("ignore")
fx = Path('/repo/src/tests/fixtures')

def mk(tmp, meta='sample3B_g0_t0.imec1.ap.meta', ns=100, nc=385, random=True):
    b = Path(tmp)/'f_g0_t0.imec1.ap.bin'
    return spikeglx._mock_spikeglx_file(b, fx/meta, ns=ns, nc=nc, sync_depth=16, random=random)

# D1: meta path with only cbin
with tempfile.TemporaryDirectory() as t:
    d = mk(t, ns=40000)
    sr = spikeglx.Reader(d['bin_file']); sr.compress_file(keep_original=False); sr.close()
    print(sorted(p.name for p in Path(t).iterdir()))
    try:
        sr2 = spikeglx.Reader(d['bin_file'].with_suffix('.meta'))
        print('D1 file_bin', sr2.file_bin, 'open', sr2.is_open if hasattr(sr2,'_raw') else None)
    except Exception as e:
        print('D1 EXC', type(e), e)

# D2: partial trailing frame
with tempfile.TemporaryDirectory() as t:
    d = mk(t, ns=100)
    raw = d['bin_file'].read_bytes()
    for extra in (0, 100, 384, 386, 700, 769):
        d['bin_file'].write_bytes(raw[:50*385*2 + extra])
        try:
            sr = spikeglx.Reader(d['bin_file'], ignore_warnings=True)
            print('D2 extra', extra, 'ns', sr.ns, 'shape', sr[:, :].shape); sr.close()
        except Exception as e:
            print('D2 extra', extra, 'EXC', type(e).__name__, str(e)[:80])

# D11
with tempfile.TemporaryDirectory() as t:
    d = mk(t, ns=100)
    sr = spikeglx.Reader(d['bin_file'])
    print('D11 list3', sr[[1,2,3]], 'tuple3', sr[(1,2,3)] if True else None)
    try: print('D11 npint', sr[np.int64(3)].shape)
    except Exception as e: print('D11 npint EXC', type(e).__name__, e)
    print('D11 list2', np.shape(sr[[5,9]]))
    sr.close()
