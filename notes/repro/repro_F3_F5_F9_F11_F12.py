import numpy as np, tempfile
from pathlib import Path
import warnings; warnings.filterwarnings("ignore")
import spikeglx, neuropixel
from ibldsp import utils, fourier, voltage, waveforms, smooth

# D3: float32 scale/unscale truncation
x = np.arange(-32768, 32768).astype(np.int16)
for fs_, mi, g in [(0.5,8192,80),(0.62,2048,80),(0.6,512,80),(0.62,8192,80),(0.6,512,500)]:
    s2v = np.float32(fs_/mi/g) if False else (fs_/mi/g*np.ones(1).astype(np.float32))  # as in code: int2volt/80*ones float32
    s2v = (fs_/mi)/80*np.ones(1).astype(np.float32)
    v = x.astype(np.float32) * s2v      # read(): float32 * float32-array
    back = (v / s2v).astype(np.int16)
    backr = np.round(v / s2v).astype(np.int16)
    print('D3', fs_, mi, 'trunc mismatches', int(np.sum(back != x)), 'round mismatches', int(np.sum(backr != x)), s2v.dtype)

# D5: car operator
rng = np.random.default_rng(0)
xx = rng.normal(size=(40, 700)); coll = np.r_[np.zeros(20), np.ones(20)]
o = voltage.car(xx.copy(), collection=coll, operator='average')
print('D5 car mean per group (should be 0):', np.abs(o[:20].mean(0)).max(), 'median:', np.abs(np.median(o[:20],0)).max())
a = voltage.kfilt(xx.copy(), collection=coll, lagc=0)
b = np.r_[voltage.kfilt(xx[:20].copy(), lagc=0), voltage.kfilt(xx[20:].copy(), lagc=0)]
print('D5 kfilt lagc forwarded?', np.allclose(a, b))

# D8 recovery point
T=30
w = np.zeros((1, T, 3)); w[0, 10, 1] = -5; w[0, T-5, 1] = 2.0; w[0,5,1]=0.5
try:
    df = waveforms.compute_spike_features(w.copy()); print('D8 ok', df.trough_time_idx[0], df.recovery_time_idx[0])
except Exception as e: print('D8 EXC', type(e).__name__, e)
w = np.zeros((1, T, 3)); w[0, 10, 1] = -5; w[0, T-4, 1] = 2.0; w[0,5,1]=0.5
df = waveforms.compute_spike_features(w.copy()); print('D8 past-end ok', df.trough_time_idx[0], df.recovery_time_idx[0])

# D9 interpolate convexity
h = neuropixel.trace_header(1)
data = np.ones((384, 10))*10.0
labels = np.zeros(384); labels[100] = 1
out = voltage.interpolate_bad_channels(data.copy(), labels, h['x'], h['y'])
print('D9 interpolated value (neighbours all 10):', out[100,0])

# D10
for ns, nswin, ov in [(10,64,60),(10,64,0),(100,64,0),(100,64,32),(130,64,16)]:
    wg = utils.WindowGenerator(ns, nswin, ov)
    fl = list(wg.firstlast)
    msg = f'D10 ns={ns} nswin={nswin} ov={ov} nwin={wg.nwin} produced={len(fl)}'
    try:
        amp = np.zeros(ns)
        for f,l,a in wg.firstlast_splicing: amp[f:l]+=a
        msg += f' splice sum min/max {amp.min():.3f}/{amp.max():.3f}'
    except Exception as e: msg += f' splice EXC {type(e).__name__}: {str(e)[:60]}'
    print(msg)

# D13 convolve odd padded size
for nx, nw in [(40,37),(50,31),(500,25),(20,7)]:
    x_ = rng.normal(size=nx); w_ = rng.normal(size=nw)
    r = fourier.convolve(x_, w_, mode='full'); e = np.convolve(x_, w_, 'full')
    print('D13', nx, nw, 'optim', fourier.ns_optim_fft(nx+nw), 'len', r.shape[-1], 'expected', e.size, 'maxerr', np.abs(r[:e.size][:r.size]-e[:r.size]).max())
# smooth.lp pad 0
print('lp pad=0 len', smooth.lp(np.ones(100), [0.1,0.2], pad=0).shape)
