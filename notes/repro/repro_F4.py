import numpy as np, shutil, tempfile, logging
from pathlib import Path
import warnings; warnings.filterwarnings("ignore")
logging.disable(logging.CRITICAL)
from neuropixel import NP2Converter
import spikeglx
fx = Path('/repo/src/tests/fixtures/np2split')
t = Path(tempfile.mkdtemp(dir=None))
p = t/'probe00'; p.mkdir()
rng = np.random.default_rng(1)
dat = rng.integers(-3000, 3000, size=(30000, 385)).astype(np.int16)
dat.tofile(p/'_spikeglx_ephysData_g0_t0.imec0.ap.bin')
shutil.copy(fx/'NP24_meta'/'_spikeglx_ephysData_g0_t0.imec0.ap.meta', p)
md = spikeglx.read_meta_data(p/'_spikeglx_ephysData_g0_t0.imec0.ap.meta')
print('gain fields', md['imAiRangeMax'], md['imMaxInt'])
# D4: overwrite on fresh directory
c = NP2Converter(p/'_spikeglx_ephysData_g0_t0.imec0.ap.bin', post_check=True, compress=True)
try:
    print('D4 status', c.process(overwrite=True))
except Exception as e:
    print('D4 EXC', type(e).__name__, e)
print(sorted(str(q.relative_to(t)) for q in t.rglob('*') if q.is_file()))
shutil.rmtree(t)
