import numpy as np, shutil, tempfile, logging, sys
from pathlib import Path
import warnings; warnings.filterwarnings("ignore")
logging.disable(logging.CRITICAL)
import spikeglx
from ibldsp import voltage
fx = Path('/repo/src/tests/fixtures')
t = Path(tempfile.mkdtemp(dir=None))
ns, nc = 9000, 385
b = t/'x_g0_t0.imec1.ap.bin'
d = spikeglx._mock_spikeglx_file(b, fx/'sample3B_g0_t0.imec1.ap.meta', ns=ns, nc=nc, sync_depth=16, random=True)
D = d['D'].copy()
D[:, :-1] = (D[:, :-1] // 2048)           # small signal
D[:, -1] = (np.arange(ns) % 7 == 0).astype(np.int16) * 64  # sync pattern
D[4000:4050, :-1] = 511                 # saturated stretch (maxint 512)
D.tofile(b)
out = t/'out.bin'
voltage.decompress_destripe_cbin(b, output_file=out, nprocesses=1, nbatch=4096, reject_channels=False, compute_rms=True)
O = np.fromfile(out, dtype=np.int16).reshape(-1, nc)
print('out shape', O.shape, 'sync equal everywhere?', np.array_equal(O[:, -1], D[:, -1]))
bad = np.where(O[:, -1] != D[:, -1])[0]
print('sync mismatches', bad.size, 'range', (bad.min(), bad.max()) if bad.size else None)
sat = np.load(t/'_iblqc_ephysSaturation.samples.npy'); print('saturated samples', sat.sum(), np.where(sat)[0][[0,-1]] if sat.sum() else None)
shutil.rmtree(t)
