import numpy as np, tempfile, shutil
from pathlib import Path
import warnings; warnings.filterwarnings("ignore")
import spikeglx, neuropixel
from ibldsp import utils, fourier, voltage, waveforms, waveform_extraction as we
import pandas as pd
rng = np.random.default_rng(0)
# D9 sweep
worst = 0
for ver, nsh in [(1,1),(2,1),(2,4),('NPultra',1)]:
    h = neuropixel.trace_header(ver, nsh) if ver != 'NPultra' else neuropixel.trace_header('NPultra')
    data = np.ones((384, 3))*10.0
    for trial in range(200):
        labels = np.zeros(384)
        k = rng.integers(1, 6)
        labels[rng.choice(384, k, replace=False)] = rng.choice([1,2], k)
        out = voltage.interpolate_bad_channels(data.copy(), labels, h['x'], h['y'])
        bad = np.where(labels>0)[0]
        dev = np.abs(out[bad,0]-10).max()
        if dev > worst: worst = dev; wcase=(ver,nsh,bad.tolist(), out[bad,0].tolist())
print('D9 worst deviation', worst, wcase if worst>0 else None)

# D14 first spike valid dropped
class SR: ns=100000
ss = np.array([100, 200, 300, 400, 5000]); sc = np.array([0,0,1,1,1]); ch = np.array([5,5,6,6,6])
wf, u = we._make_wfs_table(SR, ss, sc, ch, max_wf=4, seed=0)
print('D14 table samples', wf['sample'].tolist(), 'clusters', wf['cluster'].tolist())

# D7 trough_offset not forwarded
arr = np.arange(20*300, dtype=float).reshape(20,300)
df = pd.DataFrame({'sample':[100], 'peak_channel':[3]})
cn = utils.make_channel_index(np.c_[np.zeros(20), np.arange(20)*20.], radius=45)
w,_,_ = we.extract_wfs_array(arr, df, cn, add_nan_trace=True)
print('extract default window starts at', w[0,0,0] - arr[cn[3,0],0], 'len', w.shape[-1])
import inspect
src = inspect.getsource(we.write_wfs_chunk)
print('D7 call:', [l.strip() for l in src.splitlines() if 'extract_wfs_array' in l])

# C08 376 channels
fx = Path('/repo/src/tests/fixtures')
md = spikeglx.read_meta_data(fx/'sample3A_376_channels.ap.meta')
print('376: nSavedChans', md['nSavedChans'], 'subset', md.get('snsSaveChanSubset'), 'snsApLfSy', md['snsApLfSy'])
cm = spikeglx._map_channels_from_meta(md); print('376 map entries', cm['shank'].size)
th = spikeglx.geometry_from_meta(md); print('376 geometry size', th['x'].size, 'adc[:8]', th['adc'][:8], 'ind[:5]', th['ind'][:5])
