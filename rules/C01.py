"""C01 - Reader returns calibrated voltages aligned with the probe geometry (structural clauses)."""
import ast

from sa.cfg import CFG
from sa.calls import bind, is_name
from sa.common import (chain_root, index_elts, is_full_slice, outermost, resolved_calls, returns_of, stores_to,
                       expand_name)
from sa.defuse import DefUse, loc_name
from sa.model import AnalysisError, AnchorMissing, src, walk_function, const_value
from sa.struct import call_name, find, kwarg, norm

EXPLANATION = (
    "Decides, from the syntax tree of /repo's current source, the structural necessary conditions of C01: (D1) in "
    "Reader.read the column selector used to gather the data and the one used to gather the per-channel gains are "
    "one value with one set of reaching definitions, it is the on-disk permutation raw_channel_order applied to the "
    "caller's selector, the gather result is scaled by that gain vector after a float32 conversion and is what is "
    "returned; (D2) Reader.geometry and raw_channel_order are the two results of one geometry_from_meta(return_index="
    "True, sort=<ctor sort>) call and nothing else is stored into raw_channel_order; inside geometry_from_meta the "
    "returned index is the index applied to every key; (D3) every path through Reader.__getitem__ ends in "
    "return self.read(..., sync=False) with item[0]->nsel, item[1]->csel, or raises - no implicit None; (D4) the "
    "conversion vectors end with the unscaled sync segment (shared with C09). The numerical behaviour itself (exact "
    "float32 products, NumPy layout for every selector shape, mtscomp selectors) is NOT decided."
    ' (D4/D4b) The conversion vectors are additionally decided on an extracted segment model for every small channel / sync count (zero sync channels included): one factor per saved channel, analog channels with their own generation / stream gain, sync channels last with factor 1.'
    ' (D1 as built) only gathers in the backward slice of the returned voltage array are paired (the sync decoding may gather its own columns); an index array may be swapped for the slice between its end points only under a guard establishing an increasing consecutive run; (D3) star-args dispatch read(*item) is accepted after the length test.'
    ' (D1 full-width branch) when read() has a branch for csel == slice(None), the data columns there are put in order with raw_channel_order and the gain vector is the conversion vector gathered with that same order (a vector filled by scattering, out[order] = s2v, is the inverse permutation and is reported).'
    " (D1 helper form) when the selector is produced by a helper method, every value it can return is the caller's selector (only without on-disk order / identity order), raw_channel_order[selector], or slice(run[0], run[-1] + step, step) of that regular run whose stop is never negative."
)
ASSUMPTIONS = [
    "numpy fancy/slice indexing semantics (model table): x[..., sel] gathers columns in selector order",
    "mtscomp.Reader indexing equals ndarray indexing on [rows, :] (trusted, outside /repo)",
    "no monkey-patching of Reader methods at run time",
]

RAW = "self._raw"
GAINS = ("self.channel_conversion_sample2v", "self.sample2volts")
ORDER = "self.raw_channel_order"


def _col_selectors(sub: ast.Subscript):
    """Non-trivial column (last-axis) selectors along a data expression chain."""
    out = []
    _, path = chain_root(sub)
    for n in path:
        if isinstance(n, ast.Subscript):
            el = index_elts(n)
            if len(el) >= 2 and not is_full_slice(el[-1]):
                out.append(el[-1])
    return out


def _raw_def(du, d, memo, depth=0):
    """Does definition d bind raw samples of ALL columns?  -> None (no) | True (float32, fresh) | False (raw but not converted)."""
    if d.idx in memo:
        return memo[d.idx]
    memo[d.idx] = None
    res = None
    fresh_alloc = ("empty", "zeros", "empty_like", "zeros_like")
    if d.kind == "assign" and d.value is not None and d.unpack_index is None and depth < 8:
        v = d.value
        if isinstance(v, ast.Call) and call_name(v) in fresh_alloc:
            # a preallocated buffer: every store into it (before it is read) writes whole rows taken from raw reads
            stores = [m for m in du.defs if m.var == d.var and m.kind == "mutate" and du.cfg.reachable(d.node, m.node)]
            ok = bool(stores)
            for m in stores:
                st = m.stmt
                if not (isinstance(st, ast.Assign) and isinstance(st.targets[0], ast.Subscript) and loc_name(st.targets[0].value) == d.var):
                    ok = False
                    continue
                el = index_elts(st.targets[0])
                if len(el) >= 2 and not all(is_full_slice(x) for x in el[1:]):
                    ok = False
                if _raw_expr(du, st.value, st, memo, depth + 1) is None:
                    ok = False
            res = ("float32" in src(v)) if ok else None
        else:
            r = _raw_expr(du, v, d.stmt, memo, depth + 1)
            if r is not None and not _col_selectors(v):
                is32 = any(call_name(c) == "astype" and c.args and "float32" in src(c.args[0]) and not (isinstance(kwarg(c, "copy"), ast.Constant) and kwarg(c, "copy").value is False)
                           for c in find(v, ast.Call)) or any(call_name(c) == "float32" for c in find(v, ast.Call))
                res = bool(is32 or r)
    memo[d.idx] = res
    return res


def _raw_expr(du, e, at, memo, depth=0):
    root = chain_root(e)[0]
    if root == RAW:
        return False
    if root is None or "." in root or depth > 8:
        return None
    ds = du.strong_reaching(root, at)
    if not ds:
        return None
    rs = [_raw_def(du, d, memo, depth) for d in ds]
    if any(r is None for r in rs):
        return None
    return all(rs)


def _voltage_slice(du, fi):
    """ids of the statements in the backward slice of the array `read` returns (first element of a returned tuple); None when
    the returns are not uniform enough to tell."""
    seeds = []
    for r in returns_of(fi.node):
        if r.value is None:
            continue
        first = r.value.elts[0] if isinstance(r.value, ast.Tuple) and r.value.elts else r.value
        seeds.append((first, r))
    if not seeds:
        return None
    out = set()
    work = []
    for e, at in seeds:
        out.add(id(at))
        work += [(n.id, at) for n in ast.walk(e) if isinstance(n, ast.Name) and isinstance(n.ctx, ast.Load)]
    seen = set()
    while work:
        nm, at = work.pop()
        for d in du.reaching(nm, at):
            if d.idx in seen or d.stmt is None or d.kind == "param":
                continue
            seen.add(d.idx)
            out.add(id(d.stmt))
            srcs = [d.stmt.value] if isinstance(d.stmt, (ast.Assign, ast.AugAssign, ast.AnnAssign)) and d.stmt.value is not None else \
                ([d.stmt.value] if isinstance(d.stmt, ast.Expr) else [])
            if isinstance(d.stmt, ast.AugAssign):
                srcs.append(d.stmt.target)
            for v in srcs:
                work += [(n.id, d.stmt) for n in ast.walk(v) if isinstance(n, ast.Name) and n.id != "self"]
    return out


def _fullwidth_branch(fi):
    """`if <csel is the full slice>:` at the top level of read: the branch taken when every channel is requested"""
    for st in fi.node.body:
        if isinstance(st, ast.If):
            t = src(st.test).replace(" ", "")
            if "csel" in t and "slice(None)" in t and st.orelse:
                return st
    return None


def _fullwidth_rule(ctx, repo, fi, du, fast):
    """Full-width path: rows converted to float32, columns put in output order with raw_channel_order (or left alone when that order is the identity),
    then multiplied by a gain vector that must be the conversion vector GATHERED with the same order (s2v[order]); a vector built by scattering
    (out[order] = s2v) is the inverse permutation."""
    body = fast.body
    # the multiplication
    mult = [st for st in ast.walk(fast) if isinstance(st, ast.AugAssign) and isinstance(st.op, ast.Mult)]
    mult = [st for st in mult if any(st is x for b_ in body for x in ast.walk(b_))]
    if not mult:
        raise AnalysisError("Reader.read: full-width branch without an in-place scaling")
    g = mult[0].value
    gsrc = expand_name(du, g, mult[0]) if isinstance(g, ast.Name) else g
    attr = loc_name(gsrc)
    if not (attr and attr.startswith("self.")):
        raise AnalysisError(f"Reader.read: full-width gains `{src(gsrc)[:60]}` are not held in an attribute")
    stores = []
    scat = []
    for st in walk_function(fi.node):
        if isinstance(st, ast.Assign):
            for t in st.targets:
                if loc_name(t) == attr and not isinstance(t, ast.Subscript):
                    stores.append(st)
                if isinstance(t, ast.Subscript) and loc_name(t.value) == attr:
                    scat.append(st)
    for st in scat:
        ctx.violation(fi, st, st, f"`{src(st)[:80]}` builds the full-width gain vector by SCATTERING the conversion factors through the channel order: that lays them out by the inverse "
                      "permutation, so on a full-width read of a sorted recording column i is multiplied by another channel's volts-per-bit (invisible while the order is the identity, "
                      "an involution, or all gains are equal)", key="fullwidth-gains", name_free=True)
    n = 0
    for st in stores:
        v = st.value
        if isinstance(v, ast.Constant) and v.value is None:
            continue
        from sa.common import expand_deep
        vv = expand_deep(du, v, st)
        if isinstance(vv, ast.Call) and call_name(vv) in ("empty_like", "empty", "zeros_like", "zeros"):
            continue     # the buffer a scatter fills (reported above)
        n += 1
        if isinstance(vv, ast.Subscript) and chain_root(vv)[0] in GAINS and not (isinstance(vv.slice, ast.Constant) or loc_name(vv.slice) == "self.type"):
            sel = expand_name(du, vv.slice, st) if isinstance(vv.slice, ast.Name) else vv.slice
            ok = "raw_channel_order" in src(sel)
            ctx.check(ok, fi, st, st, "full-width gains are the conversion vector gathered with raw_channel_order (the order the data columns are put in)",
                      f"`{src(st)[:70]}` gathers the gains with `{src(sel)[:40]}`, not raw_channel_order", key="fullwidth-gains")
        elif chain_root(vv)[0] in GAINS:
            # the plain vector: only where the on-disk order is the output order
            from sa import guards as GD
            at_ = GD.Atoms()
            pc_ = GD.path_condition(du.cfg, du.cfg.node_for(st), at_)
            ident = any(GD.entails(pc_, GD.Atom(k_)) is True and ("ordered" in k_ or "array_equal" in k_ or "isNone" in k_.replace(" ", "")) for k_ in GD.atoms_of(pc_))
            ctx.check(ident, fi, st, st, "the unpermuted conversion vector is used only when the on-disk order is the output order",
                      f"`{src(st)[:70]}` uses the on-disk conversion vector although the columns may be re-ordered (guards: {GD.show(pc_)[:120]})", key="fullwidth-gains-plain")
        else:
            raise AnalysisError(f"Reader.read: full-width gains `{src(st)[:70]}` not understood")
    # the data columns: darray = darray[..., raw_channel_order] (skipped only when that is the identity)
    perm = [st for b_ in body for st in ast.walk(b_) if isinstance(st, ast.Assign) and isinstance(st.value, ast.Subscript) and "raw_channel_order" in src(st.value.slice)]
    ctx.check(bool(perm), fi, perm[0] if perm else fast, perm[0] if perm else "darray[..., self.raw_channel_order]", "full-width data columns are put in geometry order with raw_channel_order",
              "the full-width branch never applies raw_channel_order to the data columns", key="fullwidth-data")
    if n == 0 and not scat:
        raise AnalysisError("Reader.read: no definition of the full-width gain vector found")


def _strip_int(e):
    while isinstance(e, ast.Call) and call_name(e) == "int" and len(e.args) == 1:
        e = e.args[0]
    return e


def _identity_order_attr(repo, cls_q, attr):
    """Is self.<attr> assigned, somewhere in the class, a test that raw_channel_order is the identity (all(diff(order) == 1) / array_equal(order, arange))?"""
    for q, f in repo.functions.items():
        if not q.startswith(cls_q + "."):
            continue
        for st in ast.walk(f.node):
            if isinstance(st, ast.Assign) and any(loc_name(t) == "self." + attr for t in st.targets):
                t_ = src(st.value).replace(" ", "")
                if "raw_channel_order" in t_ and (("diff(" in t_ and "==1" in t_ and "all(" in t_) or ("array_equal(" in t_ and "arange(" in t_)):
                    return True
    return False


def _selector_helper_rule(ctx, repo, fi, d):
    """The selector is the result of a helper method: every value the helper can return is the caller's selector pushed through raw_channel_order
    (or the selector itself where no order exists / the order is the identity), possibly re-spelled as the slice that enumerates the same run."""
    from sa import guards as GD
    from sa.common import expand_deep
    call = d.value
    q = repo.resolve_expr(fi, call.func)
    h = repo.functions.get(q) if q else None
    if h is None:
        return None
    b = bind(call, h)
    p = None
    for prm, arg in b.bound.items():
        if isinstance(arg, ast.Name) and arg.id in fi.params:
            p = prm
    if p is None:
        return None
    duh = DefUse(h.node)
    cfg = duh.cfg
    cls_q = q.rsplit(".", 1)[0]
    perm = 0
    for r in returns_of(h.node):
        if r.value is None:
            ctx.violation(h, r, r, "the selector helper returns None on a path", key="helper-none")
            continue
        at_ = GD.Atoms()
        pc = GD.path_condition(cfg, cfg.node_for(r), at_)
        keys = [k for k in GD.atoms_of(pc)]
        holds = [(src(expand_deep(duh, at_.exprs[k], r)) if k in at_.exprs else k, GD.entails(pc, GD.Atom(k)) is True, GD.entails(pc, GD.Not(GD.Atom(k))) is True) for k in keys]
        v = expand_deep(duh, r.value, r)
        v0 = _strip_int(v)
        if isinstance(v0, ast.Name) and v0.id == p:
            # identity: no order at all, or the order is established to be the identity
            ok = False
            for k, pos, neg in holds:
                t_ = k.replace(" ", "")
                if neg and "raw_channel_order" in t_ and ("hasattr" in t_ or "None" in t_):
                    ok = True
                if pos and t_.startswith("self.") and _identity_order_attr(repo, cls_q, t_[5:]):
                    ok = True
                if pos and "raw_channel_order" in t_ and (("diff(" in t_ and "==1" in t_) or ("array_equal(" in t_ and "arange(" in t_)):
                    ok = True
            ctx.check(ok, h, r, f"return {p} under [{GD.show(pc)[:100]}]", "the caller's selector is used as it is only where no on-disk order exists or the order is the identity",
                      f"`{src(r)}` hands the caller's selector back without the on-disk permutation under [{GD.show(pc)[:120]}], which does not establish that raw_channel_order is absent or the identity: "
                      "with sort=True column i would not be geometry entry i", key="helper-identity", name_free=True)
            continue
        if isinstance(v0, ast.Subscript) and loc_name(v0.value) == ORDER and loc_name(v0.slice) == p:
            perm += 1
            ctx.ok(h, r, f"return raw_channel_order[{p}]", "the selector is the on-disk order applied to the caller's selector", key="helper-perm")
            continue
        if isinstance(v0, ast.Call) and call_name(v0) == "slice" and len(v0.args) == 3:
            stop_ = v0.args[1]
            if isinstance(stop_, ast.IfExp):  # stop if stop >= 0 else None
                stop_ = stop_.orelse if (isinstance(stop_.body, ast.Constant) and stop_.body.value is None) else stop_.body
            if isinstance(stop_, ast.Constant) and stop_.value is None:
                # the open-ended form of the same run: right exactly when the stop computed from the run would be negative (the run reaches column 0 downwards)
                oknone = any((neg and ">=0" in k.replace(" ", "") and "[-1]" in k) or (pos and "<0" in k.replace(" ", "") and "[-1]" in k) for k, pos, neg in holds)
                ctx.check(oknone, h, r, "slice(run[0], None, step) where run[-1] + step < 0", "the open-ended slice replaces the run only when its computed stop would be negative",
                          f"`{src(r)[:100]}` reads to the end of the axis without establishing that the run ends there (run[-1] + step < 0)", key="helper-slice-open", name_free=True)
                if oknone:
                    perm += 1
                continue
            a, bb, c = (_strip_int(x) for x in (v0.args[0], stop_, v0.args[2]))
            run = f"{ORDER}[{p}]"
            ta, tb, tc = (src(x).replace(" ", "") for x in (a, bb, c))
            step_t = f"np.diff({run})[0]"
            okform = ta == f"{run}[0]" and tc == step_t and tb in (f"{run}[-1]+{step_t}", f"{step_t}+{run}[-1]")
            regular = any(pos and "all(" in k.replace(" ", "") and "diff(" in k and "==" in k for k, pos, neg in holds)
            ctx.check(okform and regular, h, r, f"return slice(run[0], run[-1] + step, step) for run = {run}", "an index run is swapped for a slice only when it is regular (constant step) and the slice enumerates it",
                      f"`{src(r)[:100]}` is not slice(run[0], run[-1] + step, step) of the run {run} under a guard establishing a constant step", key="helper-slice-form", name_free=True)
            # Python reads a negative stop from the end: run[-1] + step < 0 happens for a descending run that reaches the first columns
            safe = any(pos and (f"{step_t}>0" in k.replace(" ", "") or f"0<{step_t}" in k.replace(" ", "")) for k, pos, neg in holds) or \
                any(pos and (">=0" in k.replace(" ", "") or "0<=" in k.replace(" ", "")) and "[-1]" in k for k, pos, neg in holds) or \
                any(neg and ("<0" in k.replace(" ", "")) and "[-1]" in k for k, pos, neg in holds) or \
                isinstance(v0.args[1], ast.IfExp) or any(isinstance(x, ast.IfExp) for x in ast.walk(r.value.args[1] if isinstance(r.value, ast.Call) and len(r.value.args) == 3 else r.value))
            ctx.check(safe, h, r, "stop of the slice cannot be negative", "the stop of a slice built from a run is never negative (a negative stop counts from the end)",
                      f"`{src(r)[:100]}`: for a descending run that reaches the first raw columns (step < 0, run[-1] + step < 0) the stop is negative and Python counts it from the end - "
                      "the slice is empty or selects other columns: the read returns no / wrong channels for that selector (needs stop None there)", key="helper-slice-stop", name_free=True)
            if okform and regular:
                perm += 1
            continue
        ctx.violation(h, r, r, f"`{src(r)[:100]}` is neither the caller's selector, raw_channel_order[selector] nor the slice of that run: columns no longer follow Reader.geometry",
                      key="helper-other", name_free=True)
    return perm


def d1_single_selector(ctx):
    ctx.rule("D1", "Reader.read gathers data columns and gains with one selector = raw_channel_order[csel]; result scaled "
                   "after float32 conversion and returned")
    repo = ctx.repo
    fi = repo.fn("spikeglx.Reader.read")
    du = DefUse(fi.node)
    par = fi.module.parent
    subs = [n for n in walk_function(fi.node) if isinstance(n, ast.Subscript) and isinstance(n.ctx, ast.Load)]
    memo = {}
    rawloc = {}
    for s_ in subs:
        r0 = chain_root(s_)[0]
        if r0 is not None and r0 != RAW and "." not in r0 and isinstance(s_.value, (ast.Name, ast.Call)):
            rr = _raw_expr(du, s_, s_, memo)
            if rr is not None:
                rawloc[id(s_)] = rr
    data_sites = outermost([s for s in subs if chain_root(s)[0] == RAW or id(s) in rawloc], par)
    # the gather that selects columns (if the raw rows are first held in a local, it is the read of that local)
    data_sites = [s for s in data_sites if _col_selectors(s)] or data_sites
    gain_sites = outermost([s for s in subs if chain_root(s)[0] in GAINS], par)
    # a full-width fast path (`if csel == slice(None): ...`) is decided by its own rule; the general rule looks at the other branch
    fast = _fullwidth_branch(fi)
    if fast is not None:
        inside = {id(n_) for st_ in fast.body for n_ in ast.walk(st_)}
        data_sites = [x for x in data_sites if id(x) not in inside]
        gain_sites = [x for x in gain_sites if id(x) not in inside]
        _fullwidth_rule(ctx, repo, fi, du, fast)
    # only what flows into the returned voltage array counts (the sync decoding may gather its own columns of the same chunk)
    sl = _voltage_slice(du, fi)
    if sl is not None:
        def _in_slice(site_):
            st_ = du.cfg.node_for(site_).stmt
            return st_ is not None and id(st_) in sl
        if any(_in_slice(x) for x in data_sites) and any(_in_slice(x) for x in gain_sites):
            data_sites = [x for x in data_sites if _in_slice(x)]
            gain_sites = [x for x in gain_sites if _in_slice(x)]
    if not data_sites:
        raise AnchorMissing("Reader.read: no read of self._raw found")
    if not gain_sites:
        ctx.violation(fi, fi.node, "read", "the raw samples are never multiplied by the conversion vector "
                      "(no use of channel_conversion_sample2v / sample2volts)", key="no-gain")
        return
    data_sel = []
    for s in data_sites:
        data_sel += [(s, e) for e in _col_selectors(s)]
    gain_sel = []
    for s in gain_sites:
        _, path = chain_root(s)
        for n in path:
            if isinstance(n, ast.Subscript):
                idx = n.slice
                t = norm(idx)
                if isinstance(idx, ast.Constant) and isinstance(idx.value, str):
                    continue  # dictionary key "ap"/"lf"
                if loc_name(idx) in ("self.type",):
                    continue
                gain_sel.append((s, idx))
    ds = {norm(e) for _, e in data_sel}
    gs = {norm(e) for _, e in gain_sel}
    site = data_sites[0]
    if len(ds) == 0 and len(gs) == 0:
        # whole-array form: data[nsel, :] * gains  - only legal if no permutation/selector exists at all
        params = fi.params
        if "csel" in params:
            ctx.violation(fi, site, site, "channel selector parameter is accepted but applied to neither data nor gains",
                          key="selector-unused")
        return
    same = ds == gs and len(ds) == 1
    ctx.check(same, fi, site, f"data[..., {sorted(ds)}] / gain[{sorted(gs)}]",
              "data columns and gains are gathered with the same selector expression",
              f"data columns are gathered with {[src(e) for _, e in data_sel]} but gains with {[src(e) for _, e in gain_sel]}: "
              "a channel would be scaled with another channel's volts-per-bit factor", key="selector-expr")
    if not same:
        return
    sel_d = data_sel[0][1]
    sel_g = gain_sel[0][1]
    nm = loc_name(sel_d)
    if nm is None:
        raise AnalysisError(f"Reader.read: selector {src(sel_d)} is not a simple location")
    rd = {d.idx for d in du.reaching(nm, sel_d)}
    rg = {d.idx for d in du.reaching(nm, sel_g)}
    ctx.check(rd == rg and rd, fi, sel_g, f"{nm} @data == {nm} @gain",
              f"selector {nm} has the same reaching definitions at the data gather and at the gain gather",
              f"selector {nm} is redefined between the data gather (defs at lines {sorted(du.defs[i].lineno for i in rd)}) and "
              f"the gain gather (defs at lines {sorted(du.defs[i].lineno for i in rg)})", key="selector-defs")
    # provenance of the selector: raw_channel_order[<caller's selector>] (or the bare parameter when no order exists)
    defs = [du.defs[i] for i in rd]
    perm_defs = []
    helper_used = False
    for d in defs:
        if d.kind == "param":
            continue
        v = d.value
        # an index array replaced by the equivalent basic slice: slice(int(X[0]), int(X[-1]) + 1) for the selector X itself - valid exactly when X is an
        # increasing run of consecutive integers, which the guard must establish (equal end-point span alone also holds for a permuted / gapped selection)
        if isinstance(v, ast.Call) and call_name(v) == "slice" and len(v.args) == 2:
            def _strip_int(e):
                return e.args[0] if isinstance(e, ast.Call) and call_name(e) == "int" and e.args else e
            a0, a1 = _strip_int(v.args[0]), v.args[1]
            okform = isinstance(a0, ast.Subscript) and loc_name(a0.value) == nm and const_value(a0.slice) == (True, 0) and isinstance(a1, ast.BinOp) and isinstance(a1.op, ast.Add) \
                and const_value(a1.right) == (True, 1) and isinstance(_strip_int(a1.left), ast.Subscript) and loc_name(_strip_int(a1.left).value) == nm \
                and const_value(_strip_int(a1.left).slice) == (True, -1)
            from sa import guards as GD
            at_ = GD.Atoms()
            pc_ = GD.path_condition(du.cfg, d.node, at_)
            consecutive = False
            for k_ in GD.atoms_of(pc_):
                e_ = at_.exprs.get(k_)
                t_ = src(e_).replace(" ", "") if e_ is not None else ""
                if GD.entails(pc_, GD.Atom(k_)) is True and "diff(" in t_ and "==1" in t_ and "all(" in t_ and nm in t_:
                    consecutive = True
                if GD.entails(pc_, GD.Atom(k_)) is True and "array_equal(" in t_ and "arange(" in t_ and nm in t_:
                    consecutive = True
            ctx.check(okform and consecutive, fi, d.stmt, d.stmt, "an index array is swapped for a basic slice only when it is an increasing run of consecutive channels",
                      f"`{src(d.stmt)[:80]}` replaces the channel index array by the slice between its end points without establishing that the indices are increasing and consecutive "
                      f"(guards: {GD.show(pc_)[:160]}): a permuted or gapped selection whose end points happen to be size - 1 apart (sorted NP2 readers, caller lists such as [0, 5, 2]) "
                      "is read as the contiguous block - column i is no longer the electrode of geometry entry i", key="selector-slice", name_free=True)
            continue
        if isinstance(v, ast.Call) and isinstance(v.func, ast.Attribute) and loc_name(v.func.value) == "self":
            np_ = _selector_helper_rule(ctx, repo, fi, d)
            if np_ is not None:
                if np_:
                    perm_defs.append(d)
                helper_used = True
                continue
        ok = (isinstance(v, ast.Subscript) and loc_name(v.value) == ORDER and loc_name(v.slice) is not None
              and all(x.kind == "param" for x in du.reaching(loc_name(v.slice), d.stmt)) and bool(du.reaching(loc_name(v.slice), d.stmt)))
        ctx.check(ok, fi, d.stmt, d.stmt, "selector is raw_channel_order indexed by the caller's channel selector",
                  f"selector is defined as `{src(v) if v is not None else '?'}` - not raw_channel_order[<caller's selector>]: columns "
                  "no longer follow Reader.geometry", key="selector-provenance")
        if ok:
            perm_defs.append(d)
    if not perm_defs:
        ctx.violation(fi, sel_d, sel_d, "the on-disk permutation raw_channel_order is never applied to the channel selector: "
                      "with sort=True column i would not be geometry entry i", key="no-permutation")
    # a parameter definition may only reach the gathers on the path where the reader has no raw_channel_order
    if any(d.kind == "param" for d in defs) and perm_defs:
        cfg = du.cfg
        for d in ([] if helper_used else perm_defs):
            cn = cfg.node_for(d.stmt)
            gs_ = [norm(t) for t, pol in cfg.guards(cn) if pol]
            ok = any("raw_channel_order" in g and ("hasattr" in g or "isnotNone" in g.replace(" ", "") or "None" in g) for g in gs_) or \
                any("raw_channel_order" in src(t) and "None" in src(t) and not pol for t, pol in cfg.guards(cn))
            ctx.check(ok, fi, d.stmt, "guard of the permutation",
                      "the permutation is skipped only when the reader has no raw_channel_order (flat binary without metadata)",
                      f"the permutation is conditional on {[src(t) for t, _ in cfg.guards(cn)]}: some readers with a sorted "
                      "geometry would return unsorted columns", key="permutation-guard")
    # scaling is applied to the gathered data, after a float32 conversion, and returned
    data_stmt = du.cfg.node_for(site).stmt
    data_var = None
    if isinstance(data_stmt, ast.Assign) and len(data_stmt.targets) == 1:
        data_var = loc_name(data_stmt.targets[0])
    gain_stmt = du.cfg.node_for(gain_sites[0]).stmt
    # the gathered block may be stored, rows at a time and all its columns, into a preallocated float32 buffer that is then scaled
    buffered = None
    if data_var is not None:
        for m in du.defs:
            st_ = m.stmt
            if m.kind == "mutate" and isinstance(st_, ast.Assign) and isinstance(st_.targets[0], ast.Subscript) and loc_name(st_.value) == data_var:
                el = index_elts(st_.targets[0])
                if len(el) == 1 or all(is_full_slice(x) for x in el[1:]):
                    alloc = [a_ for a_ in du.defs if a_.var == m.var and a_.kind == "assign" and isinstance(a_.value, ast.Call) and call_name(a_.value) in ("empty", "zeros")]
                    if alloc:
                        buffered = (m.var, "float32" in src(alloc[0].value))
    if buffered is not None:
        data_var = buffered[0]
    scaled = False
    if isinstance(gain_stmt, ast.AugAssign) and isinstance(gain_stmt.op, ast.Mult) and loc_name(gain_stmt.target) == data_var:
        scaled = True
        out_var = data_var
    elif isinstance(gain_stmt, (ast.Assign, ast.Return)):
        for b in find(gain_stmt, ast.BinOp, lambda b: isinstance(b.op, ast.Mult)):
            names = {loc_name(x) for x in (b.left, b.right)} | {chain_root(x)[0] for x in (b.left, b.right)}
            if (data_var in names or RAW in names) and any(chain_root(x)[0] in GAINS for x in (b.left, b.right)):
                scaled = True
        out_var = loc_name(gain_stmt.targets[0]) if isinstance(gain_stmt, ast.Assign) else None
    else:
        out_var = None
    ctx.check(scaled, fi, gain_stmt, gain_stmt, "gathered samples are multiplied by the gathered gains",
              "the gain vector is computed but not multiplied into the gathered samples", key="scaling")
    f32 = False
    for c in find(data_stmt, ast.Call):
        if call_name(c) == "astype" and c.args and "float32" in src(c.args[0]):
            cp = kwarg(c, "copy")
            f32 = not (isinstance(cp, ast.Constant) and cp.value is False)
            if not f32 and isinstance(c.func, ast.Attribute):
                # astype(float32, copy=False) still yields a private array when its operand already is one: a gather with an index ARRAY (advanced indexing
                # always copies) - the selector must be established to be an array of at least one dimension on this path
                op = c.func.value
                sels = _col_selectors(op) if isinstance(op, ast.Subscript) else []
                from sa import guards as GD
                at_g = GD.Atoms()
                pc_g = GD.path_condition(du.cfg, du.cfg.node_for(data_stmt), at_g)
                for sel_ in sels:
                    nm_ = loc_name(sel_)
                    for k_ in GD.atoms_of(pc_g):
                        t_ = k_.replace(" ", "")
                        if nm_ and GD.entails(pc_g, GD.Atom(k_)) is True and t_ == f"isinstance({nm_},np.ndarray)" and \
                                any(GD.entails(pc_g, GD.Atom(k2)) is False and k2.replace(" ", "") in (f"{nm_}.ndim==0", f"0=={nm_}.ndim") or
                                    (GD.entails(pc_g, GD.Atom(k2)) is True and k2.replace(" ", "") in (f"0<{nm_}.ndim", f"{nm_}.ndim>0")) for k2 in GD.atoms_of(pc_g)):
                            f32 = True
        if call_name(c) == "float32":
            f32 = True
    if not f32 and id(site) in rawloc:
        f32 = rawloc[id(site)]
    if not f32 and buffered is not None:
        f32 = buffered[1]
    ctx.check(f32, fi, data_stmt, data_stmt, "raw samples are converted to a fresh float32 array before scaling",
              "raw samples are not converted to float32 (with a copy) before scaling", key="float32")
    rets = returns_of(fi.node)
    for r in rets:
        if r.value is None:
            ctx.violation(fi, r, r, "read returns None", key="return-none")
            continue
        first = r.value.elts[0] if isinstance(r.value, ast.Tuple) and r.value.elts else r.value
        okr = out_var is not None and loc_name(first) == out_var or (isinstance(gain_stmt, ast.Return) and r is gain_stmt)
        ctx.check(bool(okr), fi, r, r, "the scaled array is what is returned",
                  f"`{src(r)}` does not return the scaled array {out_var}", key="return:" + norm(r.value)[:60])


def d2_provenance(ctx):
    ctx.rule("D2", "geometry and raw_channel_order come from one geometry_from_meta(return_index=True, sort=sort) call")
    repo = ctx.repo
    fi = repo.fn("spikeglx.Reader.__init__")
    du = DefUse(fi.node)
    calls = resolved_calls(repo, fi, "spikeglx.geometry_from_meta")
    if not calls:
        raise AnchorMissing("Reader.__init__ no longer calls geometry_from_meta")
    callee = repo.fn("spikeglx.geometry_from_meta")
    order_names = set()
    geom_from = []
    for c in calls:
        b = bind(c, callee)
        ri = b.bound.get("return_index")
        st = b.bound.get("sort")
        stmt = du.cfg.node_for(c).stmt
        tg = stmt.targets[0] if isinstance(stmt, ast.Assign) and len(stmt.targets) == 1 else None
        has_geom = tg is not None and any(loc_name(e) == "self.geometry" for e in (tg.elts if isinstance(tg, ast.Tuple) else [tg]))
        if not has_geom:
            continue
        geom_from.append(c)
        ok_ri = isinstance(ri, ast.Constant) and ri.value is True
        ok_tuple = isinstance(tg, ast.Tuple) and len(tg.elts) == 2 and loc_name(tg.elts[0]) == "self.geometry"
        ctx.check(ok_ri and ok_tuple, fi, c, c, "geometry and order are unpacked from one call with return_index=True",
                  "geometry is taken from a geometry_from_meta call that does not also yield the sort index "
                  "(geometry and permutation can disagree)", key="one-call")
        if ok_tuple:
            order_names.add(loc_name(tg.elts[1]))
        sort_ok = st is not None and isinstance(st, ast.Name) and st.id in fi.params and \
            all(d.kind == "param" for d in du.reaching(st.id, c))
        ctx.check(sort_ok, fi, c, f"sort={src(st) if st is not None else '<default>'}",
                  "the constructor's sort flag is forwarded to geometry_from_meta",
                  "the constructor's `sort` argument is not forwarded to geometry_from_meta: Reader(sort=False) "
                  "would still permute (or sort=True would not)", key="sort-forwarded")
    if not geom_from:
        ctx.violation(fi, fi.node, "self.geometry", "self.geometry is not assigned from geometry_from_meta", key="no-geometry")
    if len(geom_from) > 1:
        ctx.violation(fi, geom_from[1], geom_from[1], "geometry_from_meta is called more than once for the geometry", key="two-calls")
    # stores into raw_channel_order
    st = stores_to(fi.node, ORDER)
    if not st:
        ctx.violation(fi, fi.node, ORDER, "raw_channel_order is never stored", key="no-order-store")
    for stmt, tgt, val in st:
        v = expand_name(du, val, stmt) if isinstance(val, ast.Name) and loc_name(val) not in order_names else val
        is_arange = isinstance(v, ast.Call) and call_name(v) == "arange"
        is_order = loc_name(val) in order_names and len(du.strong_reaching(loc_name(val), stmt)) == 1
        ok = is_arange or is_order
        if isinstance(val, ast.Constant) and val.value is None and not isinstance(tgt, ast.Subscript):
            ok = True    # "no order" marker (flat binary without metadata): read() must then test `is not None` - checked by D1's permutation guard
        if isinstance(stmt, ast.AugAssign):
            ok = False
        if is_arange and isinstance(tgt, ast.Subscript):
            # arange scattered *through* an index vector builds the inverse permutation of that vector
            ok = False
        if is_order and isinstance(tgt, ast.Subscript):
            # order fills the leading (analog) part: slice [:order.size]
            sl = tgt.slice
            ok = isinstance(sl, ast.Slice) and sl.lower is None and sl.step is None and sl.upper is not None and \
                norm(sl.upper) in (norm(ast.parse(f"{loc_name(val)}.size", mode="eval").body),
                                   norm(ast.parse(f"len({loc_name(val)})", mode="eval").body),
                                   norm(ast.parse(f"{loc_name(val)}.shape[0]", mode="eval").body))
        ctx.check(ok, fi, stmt, stmt, "store into raw_channel_order is the identity initialiser or the returned sort index",
                  f"`{src(stmt)}` stores something other than arange(nc) / the index returned with the geometry into "
                  "raw_channel_order" + (" (arange scattered through an index vector is that vector's INVERSE permutation: columns follow the geometry only "
                                         "when the sort permutation is its own inverse)" if is_arange and isinstance(tgt, ast.Subscript) else ""), key="order-store:" + norm(val)[:80])


def d2b_returned_index(ctx):
    ctx.rule("D2b", "geometry_from_meta returns the very index it applied to every key")
    repo = ctx.repo
    fi = repo.fn("spikeglx.geometry_from_meta")
    du = DefUse(fi.node)
    n = 0
    for r in returns_of(fi.node):
        if isinstance(r.value, ast.Tuple) and len(r.value.elts) == 2:
            th, idx = r.value.elts
            if isinstance(idx, ast.Constant) and idx.value is None:
                continue
            nm = loc_name(idx)
            if nm is None:
                # e.g. `return th, np.arange(nc)` in the defaults branch: header untouched, identity index
                ok = isinstance(idx, ast.Call) and call_name(idx) == "arange"
                ctx.check(ok, fi, r, r, "default branch returns the identity index",
                          f"returned index `{src(idx)}` is neither a tracked variable nor the identity", key="ret-default")
                n += 1
                continue
            defs = du.strong_reaching(nm, r)
            for d in defs:
                n += 1
                v = d.value
                if d.unpack_index is not None and isinstance(v, ast.Tuple) and d.unpack_index < len(v.elts):
                    v = v.elts[d.unpack_index]
                if isinstance(v, ast.Constant) and v.value is None:
                    ctx.ok(fi, d.stmt, d.stmt, "no index on the path that has no geometry", key="ret-none")
                    continue
                if isinstance(v, ast.Call) and call_name(v) == "arange":
                    # identity: th must not have been permuted on this path by another index
                    ctx.ok(fi, d.stmt, d.stmt, "identity index on the unsorted path", key="ret-identity")
                    continue
                # sorted path: the statement permuting th must use this very definition
                perm = []
                for a in walk_function(fi.node):
                    if isinstance(a, ast.Assign) and isinstance(a.value, ast.DictComp):
                        dc = a.value
                        if isinstance(dc.value, ast.Subscript) and loc_name(dc.value.slice) == nm:
                            perm.append(a)
                ok = False
                for a in perm:
                    rd = du.strong_reaching(nm, a)
                    if len(rd) == 1 and rd[0].idx == d.idx and du.cfg.must_pass([du.cfg.node_for(d.stmt)], du.cfg.node_for(a)):
                        ok = True
                ctx.check(ok, fi, d.stmt, d.stmt, "the returned index is the one applied to the header",
                          f"index `{nm}` defined by `{src(d.stmt)}` is returned but the header is not re-indexed by exactly "
                          "this value", key="ret-applied")
    if n == 0:
        raise AnchorMissing("geometry_from_meta: no `return th, index` found")


def d3_dispatch(ctx):
    ctx.rule("D3", "every path through Reader.__getitem__ returns self.read(..., sync=False) or raises")
    repo = ctx.repo
    fi = repo.fn("spikeglx.Reader.__getitem__")
    cfg = CFG(fi.node)
    item = [p for p in fi.params if p != "self"][0]
    for n in cfg.fallthrough_exits():
        ctx.violation(fi, n.stmt or fi.node, n.stmt or "end of function",
                      "a selector kind falls off the dispatch and returns None", key="implicit-none")
    rets = cfg.return_nodes()
    if not rets:
        raise AnchorMissing("Reader.__getitem__ has no return")
    read = repo.fn("spikeglx.Reader.read")
    for n in rets:
        v = n.stmt.value
        ok = isinstance(v, ast.Call) and repo.resolve_call(fi, v) == "spikeglx.Reader.read"
        if not ok:
            ctx.violation(fi, n.stmt, n.stmt, "returns something other than self.read(...)", key="ret:" + norm(v)[:60] if v is not None else "ret-none")
            continue
        b = bind(v, read)
        sy = b.bound.get("sync")
        ctx.check(isinstance(sy, ast.Constant) and sy.value is False, fi, n.stmt, n.stmt,
                  "indexing returns the array only (sync=False)", "indexing does not pass sync=False: a tuple would be returned",
                  key="sync-false:" + norm(v)[:50])
        ns, cs = b.bound.get("nsel"), b.bound.get("csel")

        def slot(e):
            if e is None:
                return None
            if is_name(e, item):
                return "item"
            if isinstance(e, ast.Subscript) and is_name(e.value, item) and isinstance(e.slice, ast.Constant):
                return e.slice.value
            return "?"

        okslots = slot(ns) in ("item", 0) and slot(cs) in (None, 1)
        if (ns is None and cs is None and len(b.star_args) == 1 and is_name(b.star_args[0], item)
                and v.args and isinstance(v.args[0], ast.Starred)):
            # self.read(*item, ...): item[0], item[1] land on read's first two positional parameters
            rp = [x.arg for x in read.node.args.posonlyargs + read.node.args.args if x.arg != "self"]
            okslots = rp[:2] == ["nsel", "csel"]
            ns = cs = None
        ctx.check(okslots, fi, n.stmt, n.stmt, "first index selects samples, second selects channels",
                  f"nsel={src(ns) if ns else None}, csel={src(cs) if cs else None}: sample and channel selectors are not item[0], item[1]",
                  key="slots:" + norm(v)[:50])
    if len(ctx.oks()) == 0 and not ctx.violations():
        raise AnchorMissing("__getitem__: nothing evaluated")


def dS_shared(ctx):
    from sa.common import rule_no_shared_mutation
    rule_no_shared_mutation(ctx, "DS", ['spikeglx.Reader.read', 'spikeglx.Reader.__getitem__', 'spikeglx.Reader.__init__', 'spikeglx.Reader.channel_conversion_sample2v', 'spikeglx._conversion_sample2v_from_meta', 'spikeglx.Reader.read_samples'],
                            'a later read returns voltages scaled by a vector that an earlier read modified')


def run(ctx):
    ctx.run(dS_shared)
    ctx.run(d1_single_selector)
    ctx.run(d2_provenance)
    ctx.run(d2b_returned_index)
    ctx.run(d3_dispatch)
    from rules import C09
    ctx.run(C09.d1_sync_gain, rule_id="D4")
    ctx.run(C09.d_analog_layout, rule_id="D4b")
