"""C02 - compression is transparent, lossless and atomically published (structural clauses)."""
import ast

from sa.cfg import CFG
from sa.calls import bind
from sa.common import chain_root, expand_name, resolved_calls, returns_of
from sa.defuse import DefUse, loc_name
from sa.model import AnalysisError, AnchorMissing, const_value, src, walk_function
from sa.struct import call_name, find, kwarg, norm, receiver

EXPLANATION = (
    "Decides structural necessary conditions of C02: (D1) in Reader.compress_file and Reader.decompress_to_scratch the "
    "path handed to the producer (mtscomp.compress out= / decompress_file out=) carries a suffix different from the "
    "final one, the final name is only ever created by rename/move/replace whose source is that temporary path, the "
    "publish call is dominated by the producer call, and the function returns the final name; (D2) every unlink of the "
    "source (file_bin / its .ch) in compress_file/decompress_file is under `not keep_original` and dominated by the "
    "producer (and the publish / the close of the decompressed reader); (D3) in the metadata-path branch of Reader.__init__ "
    "no store to file_bin is dead and both .bin and .cbin are candidates; (D4, thorough) the repo-wide set of destructive "
    "filesystem call sites equals the frozen owner table. Value transparency, the byte round trip inside mtscomp and the "
    "behaviour under a failure injected at each chunk are NOT decided (they need execution)."
    " (D6) One indexing surface: every sample selector handed to self._raw in Reader.read / read_sync_digital is the caller's own selector, or a piece [a:b:step] of the caller's slice whose start is congruent to the slice start modulo step (decided on normal forms with mod(x, step) == x)."
    " (D1 as built) when the producer is a repo function handed the final name (decompress_file(out=final)), the callee itself must stage: every value its writer's out= can take is provably a different name (with_suffix(suffix + 'x') ...) and the final name is created by rename/replace of that file after the writer returned."
    ' (D6 as built) the sample selector is followed into helper methods and into decompressed chunks read with read_chunk(i): the absolute start chunk_bounds[i] + lo of a piece is compared with the slice start modulo the step.'
)
ASSUMPTIONS = [
    "mtscomp.compress(path, out=, outmeta=) writes `out` completely, then `outmeta`, then returns; raises on failure (read in /venv/.../mtscomp.py)",
    "Path.rename / shutil.move / os.replace within one directory are atomic publications",
    "Path.with_suffix(s) replaces the last suffix by s",
]

PUBLISH = ("rename", "replace", "move")
DESTRUCTIVE = ("unlink", "rename", "replace", "move", "rmtree", "remove", "rmdir")


def _suffix_of(du, e, at):
    """Suffix literal of a path expression `<base>.with_suffix("<s>")` (after expanding local names).
    A name with several reaching definitions has a suffix only if all of them agree."""
    v = expand_name(du, e, at)
    if isinstance(v, ast.Call) and call_name(v) == "with_suffix" and v.args:
        ok, s = const_value(v.args[0])
        if ok:
            return s, v
    if isinstance(v, ast.Name):
        ds = du.strong_reaching(v.id, at)
        sufs = set()
        for d in ds:
            if d.kind != "assign" or d.value is None:
                return None, v
            s, _ = _suffix_of(du, d.value, d.stmt)
            sufs.add(s)
        if len(sufs) == 1 and None not in sufs:
            return sufs.pop(), v
    return None, v


def _publish_calls(fn_node):
    out = []
    for c in find(fn_node, ast.Call, nested=False):
        nm = call_name(c)
        if nm in PUBLISH:
            if isinstance(c.func, ast.Attribute) and isinstance(c.func.value, ast.Name) and c.func.value.id in ("shutil", "os"):
                if len(c.args) >= 2:
                    out.append((c, c.args[0], c.args[1]))
            elif isinstance(c.func, ast.Attribute) and c.args:
                out.append((c, c.func.value, c.args[0]))
    return out


def _alts(du, e, at, depth=5, stop=()):
    """All expressions a path expression can stand for: names expanded through every reaching definition,
    conditional expressions through both arms (a constant test selects its arm)."""
    if depth == 0:
        return [(e, at)]
    if isinstance(e, ast.IfExp):
        ok, tv = const_value(e.test)
        arms = [e.body if tv else e.orelse] if ok else [e.body, e.orelse]
        out = []
        for a in arms:
            out += _alts(du, a, at, depth - 1, stop)
        return out
    if isinstance(e, ast.Name) and e.id not in stop:
        ds = du.strong_reaching(e.id, at)
        if ds and all(d.kind == "assign" and d.value is not None and d.unpack_index is None for d in ds):
            out = []
            for d in ds:
                out += _alts(du, d.value, d.stmt, depth - 1, stop)
            return out
    return [(e, at)]


def _nonempty_const(e):
    ok, v = const_value(e)
    return ok and isinstance(v, str) and len(v) > 0


def _extends(e, base_norm, attr):
    """`<base>.<attr> + "<non-empty literal>"`"""
    return (isinstance(e, ast.BinOp) and isinstance(e.op, ast.Add) and _nonempty_const(e.right)
            and isinstance(e.left, ast.Attribute) and e.left.attr == attr and src(e.left.value) == base_norm)


def _distinct_from(tmp, final_name):
    """Is the path expression `tmp` provably a different name than the local `final_name`?
    Accepted forms: F.with_suffix(F.suffix + "x"), F.with_name(F.name + "x"), F.parent / (F.name + "x"),
    Path(str(F) + "x")."""
    if isinstance(tmp, ast.Call) and call_name(tmp) == "with_suffix" and tmp.args and src(receiver(tmp)) == final_name:
        return _extends(tmp.args[0], final_name, "suffix")
    if isinstance(tmp, ast.Call) and call_name(tmp) == "with_name" and tmp.args and src(receiver(tmp)) == final_name:
        return _extends(tmp.args[0], final_name, "name")
    if isinstance(tmp, ast.BinOp) and isinstance(tmp.op, ast.Div) and src(tmp.left) == final_name + ".parent":
        return _extends(tmp.right, final_name, "name")
    if isinstance(tmp, ast.Call) and call_name(tmp) == "Path" and len(tmp.args) == 1:
        a = tmp.args[0]
        return (isinstance(a, ast.BinOp) and isinstance(a.op, ast.Add) and _nonempty_const(a.right)
                and src(a.left) == f"str({final_name})")
    return False


def _callee_publishes(ctx, callee, param):
    """Summary of a repo function that is handed the final name as `param`: does it write under a different name
    and create the final name only by rename/replace/move of that file, after the writer returned?
    -> (ok, [(node, reason)])"""
    repo = ctx.repo
    du = DefUse(callee.node)
    cfg = du.cfg
    prods = [c for c in find(callee.node, ast.Call, nested=False)
             if repo.resolve_call(callee, c) in ("mtscomp.decompress", "mtscomp.compress")]
    if not prods:
        return False, [(callee.node, f"{callee.qualname} has no mtscomp producer call")]
    pubs = _publish_calls(callee.node)
    problems = []
    if not pubs:
        return False, [(prods[0], f"{callee.qualname} writes `{src(kwarg(prods[0], 'out') or prods[0])}` and never renames: the name it is given is written directly")]
    for p in prods:
        out = kwarg(p, "out")
        if out is None:
            problems.append((p, "the writer is not given an explicit out="))
            continue
        for (pc, psrc, pdst) in pubs:
            fin = loc_name(pdst)
            if fin is None:
                problems.append((pc, f"publish destination {src(pdst)} is not a local name"))
                continue
            # the destination derives from the parameter
            derives = any(isinstance(n, ast.Name) and n.id == param
                          for a, _ in _alts(du, pdst, pc) for n in ast.walk(a))
            if not derives:
                problems.append((pc, f"publish destination {src(pdst)} does not derive from parameter `{param}`"))
            if loc_name(psrc) is None or loc_name(psrc) != loc_name(out):
                problems.append((pc, f"`{src(pc)}` publishes {src(psrc)} but the writer wrote {src(out)}"))
            for a, at in _alts(du, out, p, stop=(fin,)):
                if isinstance(a, ast.Name) and a.id == fin or not _distinct_from(a, fin):
                    why = "the final name itself" if isinstance(a, ast.Name) and a.id == fin else f"`{src(a)}`, not provably different from the final name"
                    problems.append((at if hasattr(at, "lineno") else p,
                                     f"the writer's out= ({src(out)}) can be {why} ({fin}): a partially written file carries the final name"))
            if not cfg.must_pass([cfg.node_for(p)], cfg.node_for(pc)):
                problems.append((pc, "the rename can execute before the writer has completed"))
    return not problems, problems


def _atomic(ctx, q, producer_pred, label):
    repo = ctx.repo
    fi = repo.fn(q)
    du = DefUse(fi.node)
    cfg = du.cfg
    prods = [c for c in find(fi.node, ast.Call, nested=False) if producer_pred(repo, fi, c)]
    if not prods:
        raise AnchorMissing(f"{q}: producer call ({label}) not found")
    pubs = _publish_calls(fi.node)
    for p in prods:
        out = kwarg(p, "out")
        if out is None:
            ctx.violation(fi, p, p, "producer is not given an explicit temporary output path (out=)", key="out-missing")
            continue
        s_tmp, tmp_expr = _suffix_of(du, out, p)
        # final name: what the function returns
        finals = []
        for r in returns_of(fi.node):
            if r.value is not None:
                finals.append(r.value)
        callee_q = repo.resolve_call(fi, p)
        if not pubs and callee_q in repo.functions and repo.fn(callee_q).qualname.startswith("spikeglx."):
            # the producer is a repo function handed the final name: decide on its own staging discipline
            callee = repo.fn(callee_q)
            okc, problems = _callee_publishes(ctx, callee, "out")
            if okc:
                ctx.ok(fi, p, p, f"{callee_q} stages its output next to `out` and publishes it by rename after the writer returned")
                for r in returns_of(fi.node):
                    if r.value is not None and loc_name(r.value) is not None:
                        ctx.check(loc_name(r.value) == loc_name(out), fi, r, r, "the function returns the published (final) path",
                                  f"`{src(r)}` does not return the path handed to the producer ({src(out)})", key="return-final")
            else:
                seen = set()
                for node, why in problems:
                    if why in seen:
                        continue
                    seen.add(why)
                    ctx.violation(callee, node, node, f"{fi.qualname} hands the final name to {callee.qualname} (out={src(out)}) and {why}",
                                  key="callee-direct:" + why[:40], name_free=True)
            continue
        if not pubs:
            ctx.violation(fi, p, p, f"output is produced directly (out={src(out)}) and never published by rename/move: a partial file "
                          "can carry the final name", key="no-publish")
            continue
        for (pc, psrc, pdst) in pubs:
            same_tmp = norm(expand_name(du, psrc, pc)) == norm(tmp_expr) and \
                (loc_name(psrc) is None or loc_name(out) is None or loc_name(psrc) != loc_name(out)
                 or {d.idx for d in du.reaching(loc_name(psrc), pc)} == {d.idx for d in du.reaching(loc_name(out), p)})
            ctx.check(same_tmp, fi, pc, pc, "the published source is the producer's temporary output",
                      f"`{src(pc)}` publishes {src(psrc)} but the producer wrote {src(out)}", key="publish-source")
            s_fin, fin_expr = _suffix_of(du, pdst, pc)
            if s_fin is None:
                # destination is a variable holding the final path: its own definition carries the suffix
                s_fin, fin_expr = _suffix_of(du, fin_expr, pc)
            ctx.check(s_tmp is not None and s_fin is not None and s_tmp != s_fin, fi, p, f"producer out suffix {s_tmp!r} / final suffix {s_fin!r}",
                      "producer writes under a temporary suffix that differs from the final one",
                      f"producer writes to suffix {s_tmp!r} and the final name has suffix {s_fin!r}: a partially written file carries the final name",
                      key="tmp-suffix")
            ctx.check(cfg.must_pass([cfg.node_for(p)], cfg.node_for(pc)), fi, pc, pc, "publish happens only after the producer returned",
                      "the rename/move can execute before the producer call has completed", key="publish-order")
            # nothing else may be given the final name as an output
            for r in returns_of(fi.node):
                if r.value is not None and loc_name(r.value) is not None:
                    okr = norm(expand_name(du, r.value, r)) == norm(expand_name(du, pdst, pc)) or loc_name(r.value) == loc_name(pdst)
                    ctx.check(okr, fi, r, r, "the function returns the published (final) path",
                              f"`{src(r)}` does not return the published path {src(pdst)}", key="return-final")


def _is_mtscomp_compress(repo, fi, c):
    return repo.resolve_call(fi, c) == "mtscomp.compress"


def _is_self_decompress(repo, fi, c):
    return repo.resolve_call(fi, c) == "spikeglx.Reader.decompress_file"


def d1_atomic(ctx):
    ctx.rule("D1", "producer writes under a temporary suffix; final name created only by rename/move of that temp, after the producer")
    _atomic(ctx, "spikeglx.Reader.compress_file", _is_mtscomp_compress, "mtscomp.compress")
    _atomic(ctx, "spikeglx.Reader.decompress_to_scratch", _is_self_decompress, "self.decompress_file")
    # decompress_to_scratch: the existence test that skips the work is on the final name
    repo = ctx.repo
    fi = repo.fn("spikeglx.Reader.decompress_to_scratch")
    cfg = CFG(fi.node)
    for c in find(fi.node, ast.Call, nested=False):
        if _is_self_decompress(repo, fi, c):
            gs = [(src(t), pol) for t, pol in _atomic_guards(cfg, cfg.node_for(c))]
            ok = any(".exists()" in t and not pol for t, pol in gs)
            ctx.check(ok, fi, c, c, "decompression to scratch is skipped only when the final file exists",
                      f"decompression is guarded by {gs}", key="scratch-guard")


def d2_source_last(ctx):
    ctx.rule("D2", "the source (file_bin / .ch) is unlinked only under `not keep_original`, after producer (+publish / reader close)")
    repo = ctx.repo
    n = 0
    for q, prod_pred, after in (
        ("spikeglx.Reader.compress_file", _is_mtscomp_compress, "publish"),
        ("spikeglx.Reader.decompress_file", lambda r, f, c: r.resolve_call(f, c) == "mtscomp.decompress", "close"),
    ):
        fi = repo.fn(q)
        du = DefUse(fi.node)
        cfg = du.cfg
        prods = [c for c in find(fi.node, ast.Call, nested=False) if prod_pred(repo, fi, c)]
        if not prods:
            raise AnchorMissing(f"{q}: producer not found")
        pnodes = [cfg.node_for(p) for p in prods]
        extra = []
        if after == "publish":
            extra = [cfg.node_for(pc) for pc, _, _ in _publish_calls(fi.node)]
        else:
            # r.close() on the reader returned by mtscomp.decompress
            for c in find(fi.node, ast.Call, nested=False):
                if call_name(c) == "close" and receiver(c) is not None and isinstance(receiver(c), ast.Name):
                    d = du.single_def_value(receiver(c).id, c)
                    if d is not None and d.value is not None and any(d.value is p for p in prods):
                        extra.append(cfg.node_for(c))
        for c in find(fi.node, ast.Call, nested=False):
            if call_name(c) not in ("unlink", "remove", "rmtree"):
                continue
            root, _ = chain_root(receiver(c)) if receiver(c) is not None else (None, None)
            if root != "self.file_bin":
                continue
            n += 1
            cn = cfg.node_for(c)
            gs = [(norm(t), pol) for t, pol in _atomic_guards(cfg, cn)]
            guarded = any("keep_original" in t and not pol for t, pol in gs)
            ctx.check(guarded, fi, c, c, "source removal is conditional on `not keep_original`",
                      "the source is removed even when keep_original is True (the default)", key="keep-guard:" + norm(c)[:60])
            ctx.check(cfg.must_pass(pnodes, cn), fi, c, c, "source removal is dominated by the producer call",
                      "the source can be removed before compression/decompression has completed", key="after-producer:" + norm(c)[:60])
            if extra:
                ctx.check(all(cfg.must_pass([e], cn) for e in extra), fi, c, c,
                          f"source removal follows the {after}", f"the source can be removed before the {after} of the replacement",
                          key=f"after-{after}:" + norm(c)[:60])
            elif after == "publish":
                ctx.violation(fi, c, c, "source removed although the replacement is never published", key="no-publish")
            # the unlink must not be able to run twice / before the rebinding of file_bin is irrelevant here
    if n == 0:
        ctx.note("no unlink of the source found in compress_file/decompress_file (keep_original=False no longer removes anything): D2 vacuous")


def _atomic_guards(cfg, cn):
    from sa.cfg import conjuncts
    out = []
    for t, pol in cfg.guards(cn):
        out += conjuncts(t, pol)
    return out


def d3_companion(ctx):
    ctx.rule("D3", "metadata-path branch of Reader.__init__: no dead store to file_bin; candidates include .bin and .cbin")
    repo = ctx.repo
    fi = repo.fn("spikeglx.Reader.__init__")
    du = DefUse(fi.node)
    stores = [d for d in du.defs if d.var == "self.file_bin" and d.kind in ("assign", "aug")]
    if not stores:
        raise AnchorMissing("Reader.__init__: no store to self.file_bin")
    dead = du.dead_stores("self.file_bin")
    for d in stores:
        ctx.check(all(x.idx != d.idx for x in dead), fi, d.stmt, d.stmt, "store to file_bin reaches a use",
                  f"`{src(d.stmt)[:100]}` is overwritten before anything reads it: that companion candidate can never be selected",
                  key="dead-store:" + norm(d.value)[:80])
    # candidate suffixes on the meta branch
    cfg = du.cfg
    meta_branch = []
    for d in stores:
        gs = [(src(t), pol) for t, pol in cfg.guards(d.node)]
        if any("meta_file" in t and "sglx_file" in t and pol for t, pol in gs):
            meta_branch.append(d)
    branch_values = {}
    if not meta_branch:
        # the branch written as a conditional expression: file_bin = <lookup> if meta_file == sglx_file else sglx_file
        for d in stores:
            if isinstance(d.value, ast.IfExp) and "meta_file" in src(d.value.test) and "sglx_file" in src(d.value.test):
                eq = isinstance(d.value.test, ast.Compare) and isinstance(d.value.test.ops[0], (ast.Eq, ast.Is))
                meta_branch.append(d)
                branch_values[d.idx] = d.value.body if eq else d.value.orelse
    if not meta_branch:
        raise AnchorMissing("Reader.__init__: `meta_file == sglx_file` branch not found")
    sufs = set()
    live = [d for d in meta_branch if all(x.idx != d.idx for x in dead)]
    for d in live:
        val = branch_values.get(d.idx, d.value)
        exprs = [val]
        if isinstance(val, ast.Name):
            # the candidate is chosen in a local first (file_bin = ...; self.file_bin = file_bin): every definition of the local that can reach the store is a candidate
            exprs += [x.value for x in du.reaching(val.id, d.stmt) if x.kind == "assign" and x.value is not None]
        # a lookup helper: its returned expressions carry the candidate suffixes
        for c in find(val, ast.Call):
            q_ = repo.resolve_call(fi, c)
            if q_ and repo.has_fn(q_) and q_.startswith("spikeglx."):
                exprs += [n_ for n_ in ast.walk(repo.fn(q_).node) if isinstance(n_, ast.expr)]
        for ex_ in exprs:
            for c in find(ex_, ast.Call):
                if call_name(c) == "with_suffix" and c.args and isinstance(c.args[0], ast.Constant):
                    sufs.add(c.args[0].value)
            for c in find(ex_, ast.Constant):
                if isinstance(c.value, str) and c.value.startswith(".") and len(c.value) <= 6:
                    sufs.add(c.value)
    for d in []:
        for c in find(d.value, ast.Call):
            if call_name(c) == "with_suffix" and c.args and isinstance(c.args[0], ast.Constant):
                sufs.add(c.args[0].value)
        for c in find(d.value, ast.Constant):
            if isinstance(c.value, str) and c.value.startswith("."):
                sufs.add(c.value)
    ctx.check({".bin", ".cbin"} <= sufs, fi, meta_branch[0].stmt, f"live candidate suffixes {sorted(sufs)}",
              "both the flat and the compressed binary are candidates when a .meta path is given",
              f"only {sorted(sufs)} can be selected when the reader is opened through the metadata file", key="candidates")


def d5_cached_size(ctx, rule_id="D5", unconditional=False):
    ctx.rule(rule_id, "the size that determines the exposed sample count is measured on the current file_bin"
             + (" at open time, not the size cached by the constructor" if unconditional else " (no stale cached size after an in-place (de)compression)"))
    repo = ctx.repo
    fo = repo.fn("spikeglx.Reader.open")
    du = DefUse(fo.node)
    # methods (other than the constructor) that rebind file_bin and whether they refresh the cached size with it
    rebinding, refreshing = [], []
    for q, fi in sorted(repo.functions.items()):
        if not q.startswith("spikeglx.Reader.") or q.endswith(".__init__"):
            continue
        st_bin = [n for n in walk_function(fi.node) if isinstance(n, ast.Assign) and any(loc_name(t) == "self.file_bin" for t in n.targets)]
        st_nb = [n for n in walk_function(fi.node) if isinstance(n, ast.Assign) and any(loc_name(t) == "self.nbytes" for t in n.targets)]
        if st_bin:
            rebinding.append(fi)
            if st_nb:
                refreshing.append(fi)
    stale_possible = [fi for fi in rebinding if fi not in refreshing]
    uses = []
    for st in walk_function(fo.node):
        if isinstance(st, ast.Assign) and isinstance(st.targets[0], ast.Subscript) and const_value(st.targets[0].slice) == (True, "fileTimeSecs"):
            v = expand_name(du, st.value, st)
            deps = set()
            work = [v]
            seen = 0
            while work and seen < 50:
                e = work.pop()
                seen += 1
                for n in ast.walk(e):
                    if isinstance(n, ast.Attribute) and loc_name(n) == "self.nbytes":
                        deps.add("self.nbytes")
                    if isinstance(n, ast.Name):
                        w = expand_name(du, n, st)
                        if w is not n:
                            work.append(w)
            # the cached size re-measured inside open() itself, before the use, is a fresh measurement of the file being mapped
            fresh = [n for n in walk_function(fo.node) if isinstance(n, ast.Assign) and any(loc_name(t) == "self.nbytes" for t in n.targets)
                     and "self.file_bin" in src(n.value) and "stat()" in src(n.value) and "st_size" in src(n.value)]
            if "self.nbytes" in deps and fresh and any(du.cfg.must_pass([du.cfg.node_for(n)], du.cfg.node_for(st)) for n in fresh):
                deps.discard("self.nbytes")
            uses.append((st, deps))
    if not uses:
        raise AnchorMissing("Reader.open: duration rewrite not found")
    for st, deps in uses:
        if unconditional:
            ctx.check("self.nbytes" not in deps, fo, st, st, "the repaired duration comes from a fresh stat of the file at open time",
                      "the repaired duration is derived from self.nbytes, which the constructor cached: a reader created with open=False (or re-opened) on a recording that "
                      "is still growing / was truncated in between exposes the old size - too few frames, or more than exist (mmap error)", key="cached-size")
            continue
        ok = not ("self.nbytes" in deps and stale_possible)
        ctx.check(ok, fo, st, st, "the repaired duration is computed from a fresh measurement of the current file (or the cached size is refreshed wherever file_bin is rebound)",
                  f"the repaired duration is derived from the cached self.nbytes, but {', '.join(f.qualname.split('.')[-1] for f in stale_possible)} rebind self.file_bin without refreshing it: "
                  "a reader re-opened after an in-place (de)compression exposes a sample count computed from the other file's byte size", key="cached-size")


# ------------------------------------------------------------------------------------------------ thorough
OWNER_TABLE = {
    # (function, method, receiver root) -> reason
    ("spikeglx.Reader.compress_file", "rename", "file_tmp"): "publish .cbin_tmp -> .cbin",
    ("spikeglx.Reader.compress_file", "unlink", "self.file_bin"): "in-place compression removes the source last",
    ("spikeglx.Reader.decompress_file", "unlink", "self.file_bin"): "in-place decompression removes .cbin and .ch last (2 sites)",
    ("spikeglx.Reader.decompress_to_scratch", "move", "shutil"): "publish .bin_temp -> .bin",
    ("neuropixel.NP2Converter.compress_NP24", "unlink", "cbin_file"): "stale compressed output when overwriting (missing_ok)",
    ("neuropixel.NP2Converter.compress_NP24", "unlink", "bin_file"): "shank .bin after its compression",
    ("neuropixel.NP2Converter.compress_NP21", "unlink", "self.ap_file"): "original after lossless in-place compression",
    ("neuropixel.NP2Converter.compress_NP21", "unlink", "cbin_file"): "stale lf.cbin when overwriting (missing_ok)",
    ("neuropixel.NP2Converter.compress_NP21", "unlink", "bin_file"): "lf.bin after its compression",
    ("neuropixel.NP2Converter.delete_NP24", "unlink", "self.ap_file"): "original after verified split",
    ("neuropixel.NP2Reconstructor.compress_file", "unlink", "self.save_file"): "reconstructed .bin after its compression",
    ("ibldsp.waveform_extraction.extract_wfs_cbin", "unlink", "file_to_unlink"): "scratch copy created by this call (and its .meta)",
}


def destructive_sites(repo):
    out = []
    for q, fi in sorted(repo.functions.items()):
        for c in find(fi.node, ast.Call, nested=False):
            nm = call_name(c)
            if nm not in DESTRUCTIVE or not isinstance(c.func, ast.Attribute):
                continue
            rcv = c.func.value
            root = chain_root(rcv)[0] if not (isinstance(rcv, ast.Name) and rcv.id in ("shutil", "os")) else rcv.id
            # str.replace on strings is not a filesystem call
            if nm == "replace" and len(c.args) == 2 and all(isinstance(a, ast.Constant) and isinstance(a.value, str) for a in c.args):
                continue
            if nm == "replace" and isinstance(rcv, ast.Attribute) and rcv.attr in ("name", "stem"):
                continue
            if nm == "remove" and root not in ("os",):
                continue  # list.remove
            if nm == "rename" and (kwarg(c, "inplace") is not None or kwarg(c, "columns") is not None
                                   or (c.args and isinstance(c.args[0], (ast.List, ast.Dict)))):
                continue  # pandas axis/index rename, not a filesystem call
            out.append((q, nm, root or "?", c, fi))
    return out


def d4_who_may_delete(ctx):
    ctx.rule("D4", "repo-wide destructive filesystem call sites equal the frozen owner table")
    repo = ctx.repo
    sites = destructive_sites(repo)
    seen = set()
    for q, nm, root, c, fi in sites:
        key = (q, nm, root)
        seen.add(key)
        ctx.check(key in OWNER_TABLE, fi, c, f"{q}: {src(c)}", OWNER_TABLE.get(key, ""),
                  f"new destructive filesystem call `{src(c)}` in {q} is not in the owner table (who may delete / rename what, and why)",
                  key=f"site:{q}:{nm}:{root}")
    ctx.note(f"destructive call sites found: {len(sites)}; table rows matched: {len(seen & set(OWNER_TABLE))}/{len(OWNER_TABLE)}")


def d6_one_indexing_surface(ctx):
    ctx.rule("D6", "compressed and flat files are read through one indexing surface: every sample selector handed to self._raw is the caller's own selector, or a piece "
                   "[a:b:step] of the caller's slice whose start lies on the slice's own stride grid (a == start modulo step)")
    from sa.algebra import Evaluator, Poly, SymExec, Undecided
    repo = ctx.repo
    n = 0
    work = []
    for q in ("spikeglx.Reader.read", "spikeglx.Reader.read_sync_digital"):
        fi = repo.fn(q)
        params = [p_ for p_ in fi.params if p_ != "self"]
        if params:
            work.append((q, params[0]))
    done = set()
    while work:
        q, sel = work.pop(0)
        if (q, sel) in done:
            continue
        done.add((q, sel))
        fi = repo.fn(q)
        # helper methods of the reader that receive the caller's sample selector are part of the same surface
        for c_ in find(fi.node, ast.Call):
            if isinstance(c_.func, ast.Attribute) and loc_name(c_.func.value) == "self" and any(loc_name(a_) == sel for a_ in c_.args):
                hq = repo.resolve_expr(fi, c_.func)
                if hq in repo.functions and hq != q:
                    hb = bind(c_, repo.functions[hq])
                    for prm, arg in hb.bound.items():
                        if loc_name(arg) == sel:
                            work.append((hq, prm))
        subs = [x for x in walk_function(fi.node) if isinstance(x, ast.Subscript) and isinstance(x.ctx, ast.Load) and loc_name(x.value) == "self._raw"]
        # a decompressed chunk held in a local: <local> = self._raw.read_chunk(i, ...) holds rows chunk_bounds[i] : chunk_bounds[i + 1] (mtscomp API, model table)
        origin = {}
        for st in walk_function(fi.node):
            if isinstance(st, ast.Assign) and len(st.targets) == 1 and isinstance(st.targets[0], ast.Name) and isinstance(st.value, ast.Call) and call_name(st.value) == "read_chunk" \
                    and isinstance(st.value.func, ast.Attribute) and loc_name(st.value.func.value) == "self._raw" and st.value.args:
                origin[st.targets[0].id] = st.value.args[0]
        subs += [x for x in walk_function(fi.node) if isinstance(x, ast.Subscript) and isinstance(x.ctx, ast.Load) and isinstance(x.value, ast.Name) and x.value.id in origin]
        direct = {}
        for x in walk_function(fi.node):
            if isinstance(x, ast.Subscript) and isinstance(x.ctx, ast.Load) and isinstance(x.value, ast.Call) and call_name(x.value) == "read_chunk" \
                    and isinstance(x.value.func, ast.Attribute) and loc_name(x.value.func.value) == "self._raw" and x.value.args:
                direct[id(x)] = x.value.args[0]
                subs.append(x)
        parents = {}
        for p_ in ast.walk(fi.node):
            for c_ in ast.iter_child_nodes(p_):
                parents[id(c_)] = p_
        # the decomposition of the caller's slice, if any:  start, stop, step = nsel.indices(n)
        dec = None
        for st in walk_function(fi.node):
            if isinstance(st, ast.Assign) and isinstance(st.targets[0], ast.Tuple) and len(st.targets[0].elts) == 3 and isinstance(st.value, ast.Call) \
                    and call_name(st.value) == "indices" and isinstance(st.value.func, ast.Attribute) and loc_name(st.value.func.value) == sel:
                dec = [loc_name(e) for e in st.targets[0].elts]
        for sub in subs:
            row = sub.slice.elts[0] if isinstance(sub.slice, ast.Tuple) and sub.slice.elts else sub.slice
            n += 1
            if loc_name(row) == sel:
                ctx.ok(fi, sub, sub, "the caller's selector is handed to the raw store unchanged", key=f"surface:{q.rsplit('.', 1)[-1]}:{norm(sub)[:40]}")
                continue
            if not isinstance(row, ast.Slice):
                raise AnalysisError(f"{q}: sample selector `{src(row)}` of `{src(sub)[:60]}` is neither the caller's selector nor a slice")
            if dec is None or any(d is None for d in dec):
                raise AnalysisError(f"{q}: `{src(sub)[:60]}` builds its own sample slice but the caller's slice is not decomposed with .indices()")
            start, stop, step = dec
            # evaluate the statements of the enclosing block(s) that precede the read, from the outermost loop body inwards
            chain = []
            cur = sub
            while id(cur) in parents:
                par = parents[id(cur)]
                for fld in ("body", "orelse"):
                    lst = getattr(par, fld, None)
                    if isinstance(lst, list) and any(cur is x for x in lst):
                        chain.append((lst, cur))
                cur = par

            recorded = {}

            class Ev(Evaluator):
                def atom(self, name, *args):
                    p = super().atom(name, *args)
                    recorded[p.canon()] = (name, args)
                    return p
            ev = Ev(resolve=lambda e: repo.resolve_expr(fi, e))
            ev.facts.int_syms |= {start, stop, step}
            sx = SymExec(ev, on_undecided="havoc")
            for lst, upto in reversed(chain):
                for st in lst:
                    if st is upto:
                        break
                    if isinstance(st, ast.Assign) and isinstance(st.value, ast.Call) and call_name(st.value) == "indices":
                        continue   # start / stop / step stay the symbols of the caller's slice
                    if isinstance(st, (ast.Assign, ast.AugAssign)):
                        sx.step(st)
            try:
                lo = ev.ev(row.lower) if row.lower is not None else Poly.const(0)
                sp = ev.ev(row.step) if row.step is not None else Poly.const(1)
                if (isinstance(sub.value, ast.Name) and sub.value.id in origin) or id(sub) in direct:
                    # rows of a decompressed chunk are counted from the chunk's first sample: chunk_bounds[i]
                    bnd = [st_.targets[0].id for st_ in walk_function(fi.node) if isinstance(st_, ast.Assign) and len(st_.targets) == 1 and isinstance(st_.targets[0], ast.Name)
                           and loc_name(st_.value) == "self._raw.chunk_bounds"]
                    org = ast.Subscript(value=(ast.Name(id=bnd[0], ctx=ast.Load()) if bnd else ast.parse("self._raw.chunk_bounds", mode="eval").body), slice=(direct[id(sub)] if id(sub) in direct else origin[sub.value.id]), ctx=ast.Load())
                    lo = lo + ev.ev(org)
            except Undecided as ex:
                raise AnalysisError(f"{q}: bounds of `{src(sub)[:60]}` not evaluable: {ex}")
            S, ST = Poly.sym(start), Poly.sym(step)
            ctx.check(sp == ST, fi, sub, sub, "the piece is read with the caller's step", f"`{src(sub)[:70]}` reads with step {sp}, the caller asked for {ST}", key=f"piece-step:{norm(sub)[:30]}",
                      name_free=True)
            # residue of (lo - start) modulo step:  mod(x, step) == x  (mod step)
            r = lo - S
            for _ in range(4):
                changed = False
                for sym in list(r.symbols()):
                    rec = recorded.get(sym)
                    if rec and rec[0] == "mod" and len(rec[1]) == 2 and rec[1][1] == ST:
                        r = r.subs({sym: rec[1][0]})
                        changed = True
                if not changed:
                    break
            qd = r.div(ST)
            onsame = r.is_zero() or (qd is not None and ev.facts.is_integer(qd))
            ctx.check(onsame, fi, sub, f"{src(sub)[:70]} : start offset == {r} (mod {step})", "each piece starts on the stride grid of the requested slice",
                      f"`{src(sub)[:70]}`: the piece starts at {lo}; relative to the slice start that is {r} modulo {step}, not 0: from the second piece on the stride restarts with the wrong "
                      f"phase whenever {r} is not a multiple of {step} - the compressed reader returns other samples than the flat file for the same selector (only for step >= 3 across a chunk boundary)",
                      key=f"piece-phase:{norm(sub)[:30]}", name_free=True)
    if n == 0:
        raise AnchorMissing("no read of self._raw found in Reader.read / read_sync_digital")


def run(ctx):
    ctx.run(d6_one_indexing_surface)
    ctx.run(d1_atomic)
    ctx.run(d2_source_last)
    ctx.run(d3_companion)
    ctx.run(d5_cached_size)


def run_thorough(ctx):
    d4_who_may_delete(ctx)
