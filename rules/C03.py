"""C03 - NP2.4 shank splitting is lossless and reconstruction is its exact inverse (structural clauses)."""
import ast

from sa.algebra import Evaluator, Facts, Poly, Undecided
from sa.cfg import CFG, conjuncts
from sa.common import chain_root, expand_name, resolved_calls, returns_of
from sa.defuse import DefUse, loc_name
from sa.model import AnalysisError, AnchorMissing, const_value, src, walk_function
from sa.struct import call_name, find, kwarg, norm, string_value
from rules import np2
from rules import C17

EXPLANATION = (
    "Decides structural necessary conditions of C03: (D1) on the path from the reader's volts to tofile in "
    "NP2Converter._ind2save a float quotient reaches an integer cast only through round/rint/around (truncation loses "
    "1 LSB for some sample values and gains); both data and sync are divided by the same conversion vector that the "
    "reader multiplied with; (D2) the tiling identity of the overlapped-window writer - evaluated from init_params' own "
    "constants and asserts, the WindowGenerator's own stride and _ind2save's kept range in the cases first / interior / "
    "last / single window: stride + a_interior == b_interior, a_first == 0, b_last == window - so every sample is written "
    "exactly once for every window size and length, and data and sync are cut by the same range; (D3) per-shank columns "
    "are r_[where(shank == sh)[0], sync indices] (ascending original order, sync last) and _split2shanks writes exactly "
    "those columns for every shank; (D4) the verification loop and the reconstructor scatter with the same (target, source) "
    "column pairs keyed on the first shank, and the reconstructor's data path has no float operation; (D5) metadata keys "
    "changed by the AP writer minus keys restored/popped by the reconstructor == {original_meta}. Byte equality of "
    "files is NOT decided; (D6) the original-channel list string: the writer emits maximal runs of consecutive channels as inclusive `first:last` joined by ',' and the parser expands `a:b` to arange(a, b + 1) in the written order, with the same separators; snsSaveChanSubset is `0:<nSavedChans - 1>`."
    " (D8) per-shank output files: a file the writer appends to (handle opened once, or re-opened with 'ab' for every chunk) is emptied by the prepare step (open 'w' / write_bytes / unlink); touch() or append-mode opens keep what an earlier run left."
    ' (D3 / D4 / D4b as built) np.take(.., axis=1) is a gather; a frame gathered with concatenate(chns) and cut at the cumulative channel counts is the per-shank split; reconstruction as take(stack of shank files, argsort(destination channels)) is the scatter.'
)
ASSUMPTIONS = [
    "numpy astype(<int>) truncates toward zero; round/rint/around round to nearest (model table)",
    "WindowGenerator behaves as decided by C17 (last window is iw == nwin - 1)",
    "window size is a multiple of 12 (asserted in init_params)",
]

CLS = np2.CLS
INT_TYPES = ("int16", "int32", "int64", "int8", "int", "uint16")
ROUNDERS = ("round", "rint", "around", "round_")


def _has_unrounded_division(e: ast.AST) -> bool:
    """True if a true division occurs in `e` outside any rounding call."""
    if isinstance(e, ast.Call) and call_name(e) in ROUNDERS:
        return False
    if isinstance(e, ast.BinOp) and isinstance(e.op, ast.Div):
        return True
    if isinstance(e, ast.BinOp) and isinstance(e.op, ast.Mult):
        # multiplication by a reciprocal / float factor is equally inexact
        for side in (e.left, e.right):
            if isinstance(side, ast.BinOp) and isinstance(side.op, ast.Div):
                return True
    return any(_has_unrounded_division(c) for c in ast.iter_child_nodes(e))


def int_casts(fn_node):
    out = []
    for c in find(fn_node, ast.Call, nested=False):
        nm = call_name(c)
        if nm == "astype" and c.args and any(t in src(c.args[0]) for t in INT_TYPES) and "float" not in src(c.args[0]):
            out.append((c, c.func.value))
        elif nm in INT_TYPES and nm != "int" and c.args and isinstance(c.func, ast.Attribute):
            out.append((c, c.args[0]))
    return out


def d1_rounding(ctx):
    ctx.rule("D1", "_ind2save: float quotient reaches the int16 cast only through a rounding call; divides by the reader's conversion vector")
    repo = ctx.repo
    fi = repo.fn(CLS + "._ind2save")
    du = DefUse(fi.node)
    casts = int_casts(fi.node)
    # implicit narrowing: float expressions stored into an array allocated with an integer dtype
    int_arrays = {}
    for d in du.defs:
        if d.kind == "assign" and isinstance(d.value, ast.Call) and call_name(d.value) in ("empty", "zeros", "ones", "full", "empty_like", "zeros_like"):
            dt = kwarg(d.value, "dtype") or (d.value.args[1] if len(d.value.args) > 1 and call_name(d.value) != "full" else None)
            if dt is not None and any(t in src(dt) for t in INT_TYPES) and "float" not in src(dt):
                int_arrays[d.var] = d
    for st in walk_function(fi.node):
        if isinstance(st, ast.Assign) and isinstance(st.targets[0], ast.Subscript) and loc_name(st.targets[0].value) in int_arrays:
            casts.append((st, st.value))
        elif isinstance(st, ast.AugAssign) and isinstance(st.target, ast.Subscript) and loc_name(st.target.value) in int_arrays:
            casts.append((st, st.value))
    if not casts:
        raise AnchorMissing("_ind2save: no conversion to an integer sample type found (neither astype/np.int16 nor a store into an integer array)")
    casts_alt = []
    for c, operand in casts:
        # a frame assembled on several paths (fast path / general path) and possibly rounded in place (np.round(x, out=x)): one instance per definition that reaches the cast
        nm_ = None
        base_ = operand
        while isinstance(base_, ast.Call) and call_name(base_) == "astype" and isinstance(base_.func, ast.Attribute):
            base_ = base_.func.value
        if isinstance(base_, ast.Name):
            nm_ = base_.id
        ds_ = [d for d in du.reaching(nm_, c) if d.kind == "assign" and d.value is not None] if nm_ else []
        if nm_ and len(ds_) > 1:
            for d in ds_:
                inpl = [x for x in find(fi.node, ast.Call) if call_name(x) in ("round", "rint", "around") and x.args and loc_name(x.args[0]) == nm_ and loc_name(kwarg(x, "out")) == nm_
                        and du.cfg.reachable(d.node, du.cfg.node_for(x)) and du.cfg.reachable(du.cfg.node_for(x), du.cfg.node_for(c))
                        and du.cfg.guards(du.cfg.node_for(x)) == du.cfg.guards(d.node)]
                casts_alt.append((c, d.value, d.stmt, bool(inpl)))
        elif nm_ and len(ds_) == 1 and isinstance(ds_[0].value, ast.Call) and call_name(ds_[0].value) in ("empty", "empty_like", "zeros", "zeros_like"):
            # a preallocated frame filled by ufuncs with out= : np.divide(volts, factors, out=frame[:, cols]) ... np.round(frame, out=frame); the value cast is those quotients
            fills = [x for x in find(fi.node, ast.Call) if call_name(x) in ("divide", "true_divide") and len(x.args) >= 2 and kwarg(x, "out") is not None
                     and loc_name(kwarg(x, "out").value if isinstance(kwarg(x, "out"), ast.Subscript) else kwarg(x, "out")) == nm_
                     and du.cfg.reachable(ds_[0].node, du.cfg.node_for(x)) and du.cfg.reachable(du.cfg.node_for(x), du.cfg.node_for(c))]
            if fills:
                inpl = [x for x in find(fi.node, ast.Call) if call_name(x) in ("round", "rint", "around") and x.args and loc_name(x.args[0]) == nm_ and loc_name(kwarg(x, "out")) == nm_
                        and all(du.cfg.reachable(du.cfg.node_for(f_), du.cfg.node_for(x)) for f_ in fills) and du.cfg.must_pass([du.cfg.node_for(x)], du.cfg.node_for(c))]
                synth = ast.Tuple(elts=[ast.copy_location(ast.BinOp(left=f_.args[0], op=ast.Div(), right=f_.args[1]), f_) for f_ in fills], ctx=ast.Load())
                ast.fix_missing_locations(synth)
                casts_alt.append((c, synth, fills[0], bool(inpl)))
            else:
                casts_alt.append((c, operand, c, False))
        else:
            casts_alt.append((c, operand, c, False))
    for c, operand, at_, rounded_inplace in casts_alt:
        from sa.common import expand_deep
        v = expand_deep(du, operand, at_)
        bad = _has_unrounded_division(v) and not rounded_inplace
        ctx.check(not bad, fi, c, f"{src(c)[:40]}...astype", "the volts/sample2volts quotient is rounded to nearest before the integer cast",
                  "a float quotient is cast to an integer type without rounding: astype truncates toward zero, so samples whose quotient "
                  "lands just below the integer come back 1 LSB low", key="cast")
        # divisor is the reader's conversion vector for this etype
        in_index = set()
        for sub_ in find(v, ast.Subscript):
            if isinstance(sub_.value, ast.Attribute) and sub_.value.attr in ("c_", "r_", "s_"):
                continue          # np.c_[a, b] concatenates VALUES
            for n_ in ast.walk(sub_.slice):
                in_index.add(id(n_))
        for c2 in find(v, ast.Call):
            if call_name(c2) in ("slice", "range", "int"):
                for n_ in ast.walk(c2):
                    in_index.add(id(n_))
        divs = [b for b in find(v, ast.BinOp) if isinstance(b.op, ast.Div) and id(b) not in in_index]     # value divisions, not index arithmetic

        def _root(e):
            r = chain_root(e)[0]
            if r is not None and "." not in r:
                # a local: follow it to what it was assigned from
                base = e
                while isinstance(base, ast.Subscript):
                    base = base.value
                ex = expand_name(du, base, c)
                if ex is not base:
                    return chain_root(ex)[0]
            return r
        roots = [_root(b.right) for b in divs]
        okd = bool(divs) and all(r in ("self.sr.channel_conversion_sample2v", "self.sr.sample2volts") for r in roots)
        ctx.check(okd, fi, c, f"divisors rooted at {roots}", "volts are divided by the very vector the reader multiplied with",
                  f"volts are converted back with {roots}, not the reader's channel_conversion_sample2v", key="divisor")
        keys = set()
        for b in divs:
            rhs = [b.right]
            base = b.right
            while isinstance(base, ast.Subscript):
                base = base.value
            ex = expand_name(du, base, c)
            if ex is not base:
                rhs.append(ex)
            for r_ in rhs:
                for s in find(r_, ast.Subscript):
                    if loc_name(s.value) == "self.sr.channel_conversion_sample2v":
                        keys.add(src(s.slice))
        ctx.check(keys <= {"etype"} and len(keys) <= 1, fi, c, f"conversion key {sorted(keys)}", "conversion vector selected by the stream type being written",
                  f"conversion vector keyed by {sorted(keys)}", key="divisor-key")


def tiling(ctx, process_q, rule, want_etypes):
    repo = ctx.repo
    pfi, ctor, args = np2.window_ctor_args(repo, process_q)
    ifi, env, facts = np2.init_env(repo)
    ev = Evaluator(env=env, facts=facts, resolve=lambda e: repo.resolve_expr(pfi, e))
    try:
        W = ev.ev(args["nswin"])
        OV = ev.ev(args["overlap"])
        NSAMP = ev.ev(args["ns"])
    except Undecided as e:
        raise AnalysisError(f"{process_q}: window arguments not evaluable: {e}")
    stride = C17.stride_poly(repo).subs({"self.nswin": W, "self.overlap": OV})
    win = env.get("self.samples_window")
    ctx.check(W == win, pfi, ctor, f"window = {W}", "windows are samples_window long", f"window generator uses {W}, _ind2save assumes {win}", key="win-arg")
    _, calls = np2.ind2save_call_ratios(repo, process_q)
    seen = set()
    for c, rexp, etype, b in calls:
        if etype not in want_etypes:
            continue
        seen.add(etype)
        try:
            ratio = ev.ev(rexp) if rexp is not None else Poly.const(1)
        except Undecided as e:
            raise AnalysisError(f"{process_q}: ratio not evaluable: {e}")
        # further parameters of _ind2save (beyond the window generator, ratio, stream) take the value the call site passes, when it is a constant there
        env_c = env
        try:
            fi_probe = repo.fn(CLS + "._ind2save")
            extra = [p_ for p_ in fi_probe.params if p_ not in ("self", "chunk", "chunk_sync", "wg", "ratio", "etype")]
        except Exception:
            extra = []
        if extra:
            from sa.algebra import SymExec
            lp_ = next((n for n in walk_function(pfi.node) if isinstance(n, ast.For) and any(x is c for x in ast.walk(n))), None)
            ev_c = Evaluator(env=dict(env), facts=facts.copy(), resolve=lambda e: repo.resolve_expr(pfi, e))
            sx_c = SymExec(ev_c, on_undecided="havoc")
            for st_ in (lp_.body if lp_ is not None else []):
                if any(x is c for x in ast.walk(st_)):
                    break
                if isinstance(st_, ast.Assign):
                    try:
                        sx_c.step(st_)
                    except Undecided:
                        pass
            for p_ in extra:
                a_ = b.bound.get(p_)
                if a_ is None:
                    continue
                try:
                    v_ = ev_c.ev(a_)
                except Undecided:
                    continue
                if v_.const_value() is not None:
                    env_c = dict(env_c, **{p_: v_})
        fi2, cases = np2.ind2save_cases(repo, env_c, facts, ratio, etype)
        ai, bi = cases["interior"]
        # decimation actually applied to the chunk handed to _ind2save (provenance of its first argument)
        dec = Poly.const(1)
        carg = b.bound.get("chunk")
        if carg is not None:
            cv = expand_name(DefUse(pfi.node), carg, c)
            if isinstance(cv, ast.Call) and repo.resolve_call(pfi, cv) == CLS + ".extract_lfp":
                dec = env.get("self.ratio", Poly.sym("self.ratio"))
        ctx.check(ratio == dec, pfi, c, f"[{etype}] ratio passed = {ratio}, decimation applied to the chunk = {dec}",
                  "the kept range is expressed in the chunk's own (decimated) samples",
                  f"[{etype}] _ind2save is told ratio={ratio} but its chunk was decimated by {dec}: the kept range is in the wrong units",
                  key=f"ratio:{etype}")
        sr = stride.div(dec)
        wr = W.div(dec)
        k = f"{etype}"
        ctx.check(sr is not None and (sr + ai) == bi, fi2, c, f"[{k}] stride/ratio + a = {sr + ai if sr is not None else '?'} ; b = {bi}",
                  "interior windows: next kept range starts where this one ends (every sample once)",
                  f"[{k}] interior kept range is [{ai}, {bi}) and the next window starts {sr} output samples later: "
                  f"{'samples are lost' if sr is not None and ((sr + ai) - bi).const_value() is not None and ((sr + ai) - bi).const_value() > 0 else 'samples are duplicated or lost'} at every seam",
                  key=f"tiling:{k}:interior")
        af, bf = cases["first"]
        ctx.check(af == Poly.const(0) and bf == bi, fi2, c, f"[{k}] first window keeps [{af}, {bf})", "the first window is kept from its first sample",
                  f"[{k}] first window keeps [{af}, {bf}): the start of the recording is dropped or the seam moves", key=f"tiling:{k}:first")
        # the last window holds L = ns - iw*stride raw samples, i.e. ceil(L/dec) samples after decimation: its kept range must reach at least
        # that far (an end beyond it is clipped by slicing).  Accepted ends: window/dec, ceil(L/dec), or L/dec when dec == 1.
        wgn = next((p_ for p_ in fi2.params if p_ not in ("self", "chunk", "chunk_sync", "ratio", "etype")), "wg")
        evl = Evaluator(env={"DEC": dec, "NSL": Poly.sym(f"{wgn}.ns") - Poly.sym(f"{wgn}.iw") * (Poly.sym(f"{wgn}.nswin") - Poly.sym(f"{wgn}.overlap"))}, facts=facts.copy())
        evl.facts.int_syms |= {f"{wgn}.ns", f"{wgn}.iw", f"{wgn}.nswin", f"{wgn}.overlap"}
        ends_ok = [wr, evl.ev(ast.parse("math.ceil(NSL / DEC)", mode="eval").body)]
        al, bl = cases["last"]
        ctx.check(al == ai and any(bl == e_ for e_ in ends_ok), fi2, c, f"[{k}] last window keeps [{al}, {bl})", "the last window is kept to its end",
                  f"[{k}] last window keeps [{al}, {bl}) - it must reach the end of the window's {'decimated ' if dec != Poly.const(1) else ''}samples "
                  f"({wr}, or ceil(last window length / {dec})): the end of the recording is dropped"
                  + (" (int() of the quotient floors: the final partial group of samples is lost whenever the length is not a multiple of the ratio)" if "int(" in bl.canon() or "floor" in bl.canon() else ""),
                  key=f"tiling:{k}:last")
        a1, b1 = cases["single"]
        ctx.check(a1 == Poly.const(0) and any(b1 == e_ for e_ in ends_ok), fi2, c, f"[{k}] single window keeps [{a1}, {b1})", "a recording shorter than one window is kept whole",
                  f"[{k}] single window keeps [{a1}, {b1})", key=f"tiling:{k}:single")
        # grid: stride, window and margins are multiples of the ratio
        fx = facts.copy()
        ok_grid = fx.is_integer(sr) if sr is not None else False
        ctx.check(ok_grid and fx.is_integer(ai) and fx.is_integer(bi), fi2, c, f"[{k}] stride/ratio={sr}, a={ai}, b={bi} integral",
                  "window starts and kept bounds fall on the decimation grid", f"[{k}] stride/ratio = {sr} or the kept bounds are not integral: windows start off the decimation grid",
                  key=f"grid:{k}")
    missing = set(want_etypes) - seen
    if missing:
        raise AnchorMissing(f"{process_q}: no _ind2save call for etype {sorted(missing)}")
    # total length handed to the generator is the recording length
    ctx.check(NSAMP == env.get("self.nsamples"), pfi, ctor, f"ns = {NSAMP}", "the generator covers self.nsamples", "the generator does not cover self.nsamples", key="ns-arg")


def d2_tiling(ctx):
    ctx.rule("D2", "AP tiling identity: stride + a_interior == b_interior; a_first == 0; b_last == window; data and sync cut by one range")
    tiling(ctx, CLS + "._process_NP24", "D2", ("ap",))
    repo = ctx.repo
    fi = repo.fn(CLS + "._ind2save")
    # data and sync are cut by the same range
    evc = Evaluator(resolve=lambda e: repo.resolve_expr(fi, e))
    duc = DefUse(fi.node)

    def bounds(e):
        if isinstance(e, ast.Call) and call_name(e) == "slice":
            if len(e.args) == 1 and isinstance(e.args[0], ast.Starred):
                n = loc_name(e.args[0].value)
                return (Poly.sym(f"{n}[0]"), Poly.sym(f"{n}[1]"), None)
            if len(e.args) >= 2:
                return (evc.ev(e.args[0]), evc.ev(e.args[1]), evc.ev(e.args[2]) if len(e.args) > 2 else None)
        if isinstance(e, ast.Slice) and (e.lower is not None or e.upper is not None):
            return (evc.ev(e.lower) if e.lower is not None else Poly.const(0), evc.ev(e.upper) if e.upper is not None else Poly.sym("END"),
                    evc.ev(e.step) if e.step is not None else None)
        if isinstance(e, ast.Name):
            v = expand_name(duc, e, e)
            if v is not e:
                return bounds(v)
        return None
    cuts = []
    for s in find(fi.node, ast.Subscript, nested=False):
        if loc_name(s.value) not in ("chunk", "chunk_sync"):
            continue
        el = s.slice.elts if isinstance(s.slice, ast.Tuple) else [s.slice]
        for i, e in enumerate(el):
            bnd = bounds(e)
            if bnd is not None:
                cuts.append((loc_name(s.value), i, tuple(x.canon() if x is not None else None for x in bnd)))
    names = {c[0] for c in cuts}
    ctx.check({"chunk", "chunk_sync"} <= names and len({c[1:] for c in cuts}) == 1 and all(c[1] == 1 for c in cuts), fi, fi.node, f"cuts {cuts}",
              "data and sync are cut by the same kept range along the sample axis", f"data and sync are cut differently: {cuts}", key="same-cut")
    # rows read from the reader are the generator's (first, last)
    pfi = repo.fn(CLS + "._process_NP24")
    loops = [n for n in walk_function(pfi.node) if isinstance(n, ast.For) and "firstlast" in src(n.iter)]
    if not loops:
        raise AnchorMissing("_process_NP24: window loop not found")
    tn = [loc_name(e) for e in loops[0].target.elts]
    reads = [s for s in find(loops[0], ast.Subscript) if loc_name(s.value) == "self.sr"]
    bad = [s for s in reads if not (isinstance(s.slice, ast.Tuple) and isinstance(s.slice.elts[0], ast.Slice)
                                    and [loc_name(s.slice.elts[0].lower), loc_name(s.slice.elts[0].upper)] == tn and s.slice.elts[0].step is None)]
    if bad:
        # bounds written as expressions (first - lead + offset ..): compared as normal forms after running the statements of the loop body that precede the read
        from sa.algebra import SymExec
        still = []
        for s_ in bad:
            ok_ = False
            if isinstance(s_.slice, ast.Tuple) and isinstance(s_.slice.elts[0], ast.Slice) and s_.slice.elts[0].step is None and s_.slice.elts[0].lower is not None and s_.slice.elts[0].upper is not None:
                ev_ = Evaluator(env={tn[0]: Poly.sym(tn[0]), tn[1]: Poly.sym(tn[1])}, facts=Facts(), resolve=lambda e: repo.resolve_expr(pfi, e))
                sx_ = SymExec(ev_, on_undecided="havoc")
                for st_ in loops[0].body:
                    if any(x is s_ for x in ast.walk(st_)):
                        break
                    if isinstance(st_, ast.Assign):
                        try:
                            sx_.step(st_)
                        except Undecided:
                            pass
                try:
                    ok_ = ev_.ev(s_.slice.elts[0].lower) == Poly.sym(tn[0]) and ev_.ev(s_.slice.elts[0].upper) == Poly.sym(tn[1])
                except Undecided:
                    ok_ = False
            if not ok_:
                still.append(s_)
        bad = still
    ctx.check(bool(reads) and not bad, pfi, loops[0], f"{len(reads)} reads self.sr[first:last, ...]", "each window is read at the generator's bounds",
              f"`{src(bad[0]) if bad else ''}` does not read rows first:last", key="rows")


def _chns_parts(du, node, at):
    from sa.struct import concat_parts
    v = expand_name(du, node, at)
    return concat_parts(v)


def d3_columns(ctx):
    ctx.rule("D3", "shank columns = r_[where(shank == sh)[0], sync indices]; _split2shanks writes chunk[:, chns] of a shank into that shank's own file")
    repo = ctx.repo
    n = 0
    for q in np2.PREPARE:
        fi = repo.fn(q)
        du = DefUse(fi.node)
        for value, st in np2.entry_defs(fi).get("chns", []):
            alts = []
            if isinstance(value, ast.Name):
                ds = du.strong_reaching(value.id, st)
                if ds and all(d.kind == "assign" and d.value is not None for d in ds):
                    alts = [(d.value, d.stmt) for d in ds]
            for v, at in (alts or [(value, st)]):
                parts = _chns_parts(du, v, at)
                if parts is None:
                    vv = expand_name(du, v, at)
                    if isinstance(vv, ast.Call) and call_name(vv) == "arange" and "self.sr.nc" in src(vv):
                        ctx.ok(fi, at, at, "all channels in on-disk order (single-shank, no map)", key="chns-arange")
                        n += 1
                        continue
                    ctx.violation(fi, at, at, "shank channel list is not r_[where(shank == sh)[0], sync indices]", key="chns:" + q)
                    continue
                n += 1
                ok = len(parts) == 2
                if ok:
                    w, sy = parts
                    w = expand_name(du, w, at)
                    okw = isinstance(w, ast.Subscript) and isinstance(w.slice, ast.Constant) and w.slice.value == 0 and isinstance(w.value, ast.Call) \
                        and call_name(w.value) in ("where", "nonzero", "flatnonzero") and "shank" in src(w.value) and "== sh" in src(w.value)
                    oks = "_get_sync_trace_indices_from_meta" in src(expand_name(du, sy, at))
                    ok = okw and oks
                ctx.check(ok, fi, at, at, "shank columns in ascending original order, sync appended last",
                          f"`{src(v)[:100]}`: columns are not (ascending shank sites, then sync)", key="chns:" + q)
    if n < 2:
        raise AnchorMissing("chns definitions not found in _prepare_files_NP24/_NP21")
    fi, recs = np2.split_writer(repo)
    ok = False
    detail = "no write of chunk columns to a shank file"
    for rec in recs:
        c, r = rec["call"], rec["data"]
        if isinstance(r, ast.Subscript) and isinstance(r.slice, ast.Tuple) and len(r.slice.elts) == 2:
            rows, cols = r.slice.elts
            cols = expand_name(rec["du"], cols, c)
            full_rows = isinstance(rows, ast.Slice) and rows.lower is None and rows.upper is None and rows.step is None
            owner = rec["file_owner"]
            okc = owner is not None and isinstance(cols, ast.Subscript) and isinstance(cols.slice, ast.Constant) and cols.slice.value == "chns" \
                and norm(cols.value) == norm(owner) and "self.shank_info" in src(owner)
            okf = rec["key"] in ("*_open_file", "*_file")
            ok = full_rows and okc and okf and loc_name(r.value) == "chunk"
            detail = f"writes {src(r)} to {src(c.args[0]) if c.args else '?'} ({src(owner) if owner is not None else '?'}[{rec['key']!r}])"
    if not ok:
        batched = _batched_split(fi) or _gathered_blocks_split(fi)
        if batched is not None:
            verdict, why, node = batched
            if verdict == "unknown":
                raise AnalysisError(f"_split2shanks: batched split not understood: {why}")
            ctx.check(verdict == "ok", fi, node, node, f"every shank file receives exactly its own columns ({why})",
                      f"_split2shanks: {why}", key="split-write", name_free=True)
            return
    ctx.check(ok, fi, fi.node, detail, "every shank file receives all rows of exactly its own columns",
              f"_split2shanks: {detail} - not chunk[:, shank_info[sh]['chns']] into that shank's own file", key="split-write")


def _batched_split(fi):
    """`frame = chunk[:, concatenate([chns of every shank])]` cut back into per-shank blocks with np.split: the cut points must be the
    cumulative channel counts; np.split(frame, <int>) cuts EQUAL-width blocks (numpy model), which are the shanks' own columns only when
    every shank has the same number of channels.  -> (verdict, explanation, node) or None when this idiom is not present."""
    du = DefUse(fi.node)
    tof = [c for c in find(fi.node, ast.Call) if call_name(c) == "tofile" and isinstance(c.func, ast.Attribute)]
    for c in tof:
        r = c.func.value
        while isinstance(r, ast.Call) and call_name(r) in ("ascontiguousarray", "asarray", "array", "copy") and (r.args or isinstance(r.func, ast.Attribute)):
            r = r.args[0] if r.args else r.func.value
        if not isinstance(r, ast.Name):
            continue
        ds = du.strong_reaching(r.id, c)
        if len(ds) != 1 or not isinstance(ds[0].stmt, ast.For):
            continue
        loop = ds[0].stmt
        it = loop.iter
        if not (isinstance(it, ast.Call) and call_name(it) == "zip" and len(it.args) == 2):
            continue
        # which zip slot is the block?
        tgt = loop.target
        if not (isinstance(tgt, ast.Tuple) and len(tgt.elts) == 2):
            continue
        slot = [i for i, e in enumerate(tgt.elts) if loc_name(e) == r.id]
        if not slot:
            continue
        blocks = expand_name(du, it.args[slot[0]], loop)
        owners = expand_name(du, it.args[1 - slot[0]], loop)
        if not (isinstance(blocks, ast.Call) and call_name(blocks) in ("split", "array_split", "hsplit")):
            return "unknown", f"blocks come from `{src(blocks)[:80]}`", c
        frame = expand_name(du, blocks.args[0], loop)
        spec = blocks.args[1] if len(blocks.args) > 1 else kwarg(blocks, "indices_or_sections")
        if spec is None:
            return "unknown", "np.split without cut specification", c
        # the frame must gather the concatenation of every shank's chns, in the order of the owners
        cols = None
        if isinstance(frame, ast.Subscript) and isinstance(frame.slice, ast.Tuple) and len(frame.slice.elts) == 2 and loc_name(frame.value) == "chunk":
            cols = expand_name(du, frame.slice.elts[1], loop)
        if not (isinstance(cols, ast.Call) and call_name(cols) in ("concatenate", "hstack") and cols.args and isinstance(cols.args[0], (ast.ListComp, ast.GeneratorExp))):
            return "unknown", f"frame `{src(frame)[:80]}` is not chunk[:, concatenate([...chns...])]", c
        comp = cols.args[0]
        over = expand_name(du, comp.generators[0].iter, loop)
        same_order = norm(over) == norm(owners) or norm(comp.generators[0].iter) == norm(it.args[1 - slot[0]])
        if not same_order:
            return "unknown", f"columns are gathered over `{src(over)[:60]}` but blocks are paired with `{src(owners)[:60]}`", c
        if "chns" not in src(comp.elt):
            return "unknown", f"gathered columns `{src(comp.elt)}` are not the shanks' chns", c
        sv = expand_name(du, spec, loop)
        # integer section count -> equal widths
        if isinstance(sv, ast.Call) and call_name(sv) == "len" or isinstance(sv, ast.Constant) and isinstance(sv.value, int) \
                or (isinstance(sv, ast.Attribute) and sv.attr in ("size",)):
            return "bad", (f"`{src(blocks)}` cuts the gathered frame into EQUAL-width blocks (np.split with a section count): each shank file receives "
                           f"(total columns / number of shanks) columns instead of its own len(chns) - wrong columns in every per-shank file as soon as the shanks "
                           f"do not all have the same number of channels"), blocks
        # cumulative lengths without the last
        txt = src(sv)
        if isinstance(sv, ast.Subscript) and isinstance(sv.slice, ast.Slice) and sv.slice.upper is not None and const_value(sv.slice.upper) == (True, -1) \
                and isinstance(sv.value, ast.Call) and call_name(sv.value) == "cumsum" and ("len(" in txt or ".size" in txt or "shape" in txt) and "chns" in txt:
            return "ok", "cut points are the cumulative channel counts of the shanks", blocks
        return "unknown", f"cut specification `{txt[:80]}` not understood", blocks
    return None


def _gathered_blocks_split(fi):
    """`frame = np.take(chunk, concatenate([chns of every shank]), axis=1)` (or chunk[:, concatenate(..)]) written back as adjacent column blocks
    frame[:, B[k]:B[k + 1]] with B = cumsum([0] + [sizes of the same lists]) and k enumerating the same mapping: block k is chunk[:, chns of shank k].
    -> (verdict, explanation, node) or None when this idiom is not present."""
    from sa.common import expand_deep
    du = DefUse(fi.node)
    for c in find(fi.node, ast.Call):
        if call_name(c) != "tofile" or not isinstance(c.func, ast.Attribute):
            continue
        r = c.func.value
        if not (isinstance(r, ast.Subscript) and isinstance(r.slice, ast.Tuple) and len(r.slice.elts) == 2 and isinstance(r.slice.elts[1], ast.Slice)):
            continue
        cs = r.slice.elts[1]
        lo, hi = (expand_deep(du, cs.lower, c) if cs.lower is not None else None), (expand_deep(du, cs.upper, c) if cs.upper is not None else None)
        if not (isinstance(lo, ast.Subscript) and isinstance(hi, ast.Subscript) and norm(lo.value) == norm(hi.value)):
            continue
        B = lo.value
        k = lo.slice
        if not (isinstance(hi.slice, ast.BinOp) and isinstance(hi.slice.op, ast.Add) and norm(hi.slice.left) == norm(k) and const_value(hi.slice.right) == (True, 1)):
            return "unknown", f"block bounds `{src(cs)[:80]}` are not B[k]:B[k + 1]", c
        # the frame
        frame = r.value
        fds = du.reaching(loc_name(frame), c) if loc_name(frame) else []
        gather = None
        for d in fds:
            v = expand_deep(du, d.value, d.stmt, keep=(loc_name(frame),)) if d.value is not None else None
            if isinstance(v, ast.Call) and call_name(v) == "take" and len(v.args) >= 2 and const_value(kwarg(v, "axis")) in ((True, 1), (True, -1)) and loc_name(v.args[0]) == "chunk":
                gather = v.args[1]
            elif isinstance(v, ast.Subscript) and isinstance(v.slice, ast.Tuple) and len(v.slice.elts) == 2 and loc_name(v.value) == "chunk":
                gather = v.slice.elts[1]
        if gather is None:
            return None
        if not (isinstance(gather, ast.Call) and call_name(gather) in ("concatenate", "hstack") and gather.args):
            return "unknown", f"columns are gathered with `{src(gather)[:80]}`", c
        lists = gather.args[0]
        if not (isinstance(lists, (ast.ListComp, ast.GeneratorExp)) and len(lists.generators) == 1 and "chns" in src(lists.elt)):
            return "unknown", f"gathered columns `{src(lists)[:80]}` are not the shanks' chns", c
        over = lists.generators[0].iter
        # B = cumsum([0] + [size of each list])
        okB = isinstance(B, ast.Call) and call_name(B) == "cumsum" and B.args and isinstance(B.args[0], ast.BinOp) and isinstance(B.args[0].op, ast.Add) \
            and isinstance(B.args[0].left, ast.List) and len(B.args[0].left.elts) == 1 and const_value(B.args[0].left.elts[0]) == (True, 0) \
            and isinstance(B.args[0].right, (ast.ListComp,)) and any(t in src(B.args[0].right.elt) for t in (".size", "len(", ".shape"))
        if okB:
            sz = B.args[0].right
            it_sz = sz.generators[0].iter
            # sizes are taken over the same lists: either the same comprehension source, or a comprehension over the list of chns
            okB = norm(it_sz) == norm(over) or norm(it_sz) == norm(lists) or ("chns" in src(it_sz) and norm(getattr(it_sz, "generators", [ast.comprehension(iter=ast.Constant(0))])[0].iter) == norm(over))
        if not okB:
            return "unknown", f"block bounds `{src(B)[:80]}` are not the cumulative sizes of the gathered lists", c
        # k enumerates the same mapping the lists were taken from, and the file belongs to the entry of that position
        par = None
        for st in ast.walk(fi.node):
            if isinstance(st, ast.For) and any(x is c for x in ast.walk(st)):
                par = st
        if par is None or not (isinstance(par.iter, ast.Call) and call_name(par.iter) == "enumerate" and isinstance(par.target, ast.Tuple) and len(par.target.elts) == 2
                               and loc_name(par.target.elts[0]) == loc_name(k)):
            return "unknown", "blocks are not enumerated together with the shanks", c
        m1 = par.iter.args[0]
        base1 = m1.func.value if isinstance(m1, ast.Call) and call_name(m1) in ("keys", "values", "items") else m1
        base2 = over.func.value if isinstance(over, ast.Call) and call_name(over) in ("keys", "values", "items") else over
        if norm(base1) != norm(base2):
            return "bad", (f"the columns are gathered in the order of `{src(over)[:50]}` but the blocks are handed out in the order of `{src(m1)[:50]}`: "
                           "a shank file can receive another shank's columns"), c
        return "ok", "block k of the frame gathered with concatenate(chns) is chunk[:, chns of shank k]; bounds are the cumulative channel counts", c
    return None


def _pairs_table(fi, cfg, st, tcols, v):
    """Scatter driven by a table of per-shank tuples built with TABLE.append((..)) under `ish == 0` / else: -> the (branch, target suffix, source columns, rows) pairs, or None."""
    if not (isinstance(tcols, ast.Name) and isinstance(v, ast.Subscript) and isinstance(v.slice, ast.Tuple) and len(v.slice.elts) == 2 and isinstance(v.slice.elts[1], ast.Name)):
        return None
    lp = next((l_ for l_ in ast.walk(fi.node) if isinstance(l_, ast.For) and any(x is st for x in l_.body) and isinstance(l_.target, ast.Tuple) and isinstance(l_.iter, ast.Name)), None)
    if lp is None:
        return None
    names = [loc_name(e) for e in lp.target.elts]
    if tcols.id not in names or v.slice.elts[1].id not in names:
        return None
    it, ic = names.index(tcols.id), names.index(v.slice.elts[1].id)
    out = set()
    apps = [c for c in find(fi.node, ast.Call) if call_name(c) == "append" and isinstance(c.func, ast.Attribute) and loc_name(c.func.value) == lp.iter.id and c.args
            and isinstance(c.args[0], ast.Tuple) and len(c.args[0].elts) == len(names)]
    if not apps:
        return None
    du = DefUse(fi.node)
    for c in apps:
        gs = []
        for tt, pol in cfg.guards(cfg.node_for(c)):
            gs += conjuncts(tt, pol)
        branch = None
        for tt, pol in gs:
            if isinstance(tt, ast.Compare) and loc_name(tt.left) == "ish" and isinstance(tt.comparators[0], ast.Constant) and tt.comparators[0].value == 0:
                branch = "first" if pol == isinstance(tt.ops[0], ast.Eq) else "other"
        te, ce = c.args[0].elts[it], c.args[0].elts[ic]
        te = expand_name(du, te, c) if isinstance(te, ast.Name) else te
        if isinstance(te, ast.Subscript) and isinstance(te.value, ast.Name):
            te = ast.Subscript(value=expand_name(du, te.value, c), slice=te.slice, ctx=ast.Load())
        ts = src(te)
        tsuffix = ts.split("['chns']", 1)[1] if "['chns']" in ts else "?" + ts
        ct = src(ce).replace(" ", "")
        csrc = {"slice(None)": ":", "slice(None,None)": ":", "slice(None,-1)": ":-1", "slice(0,-1)": ":-1"}.get(ct, "?" + ct)
        out.add((branch, tsuffix, csrc, src(v.slice.elts[0])))
    return out


def _scatter_pairs(repo, q, source_attr):
    fi = repo.fn(q)
    pairs = set()
    cfg = CFG(fi.node)
    for st in walk_function(fi.node):
        if isinstance(st, ast.Assign) and isinstance(st.targets[0], ast.Subscript) and loc_name(st.targets[0].value) == "chunk":
            t = st.targets[0]
            if not (isinstance(t.slice, ast.Tuple) and len(t.slice.elts) == 2):
                continue
            tcols = t.slice.elts[1]
            v = st.value
            # the (reader, target columns, source columns) of each shank tabulated once before the window loop: for a, b, c in TABLE: chunk[:, b] = a[rows, c]
            tab = _pairs_table(fi, cfg, st, tcols, v)
            if tab is not None:
                pairs |= tab
                continue
            gs = []
            for tt, pol in cfg.guards(cfg.node_for(st)):
                gs += conjuncts(tt, pol)
            branch = None
            for tt, pol in gs:
                if isinstance(tt, ast.Compare) and loc_name(tt.left) == "ish" and isinstance(tt.comparators[0], ast.Constant) and tt.comparators[0].value == 0:
                    branch = "first" if pol == isinstance(tt.ops[0], ast.Eq) else "other"
            # target columns relative to shank_info[sh]["chns"]
            ts = src(tcols)
            tsuffix = ts.split("['chns']", 1)[1] if "['chns']" in ts else "?" + ts
            if not (isinstance(v, ast.Subscript) and isinstance(v.slice, ast.Tuple) and len(v.slice.elts) == 2):
                pairs.add((branch, tsuffix, "?" + src(v)))
                continue
            pairs.add((branch, tsuffix, src(v.slice.elts[1]), src(v.slice.elts[0])))
    return fi, pairs


def _list_items(e):
    """Items of a list expression built from comprehensions and literal lists joined with `+`: [("comp", elt, generators) | ("one", expr)]."""
    if isinstance(e, ast.BinOp) and isinstance(e.op, ast.Add):
        a, b = _list_items(e.left), _list_items(e.right)
        return None if a is None or b is None else a + b
    if isinstance(e, (ast.ListComp, ast.GeneratorExp)) and len(e.generators) == 1 and not e.generators[0].ifs:
        return [("comp", e.elt, e.generators[0])]
    if isinstance(e, (ast.List, ast.Tuple)):
        return [("one", x) for x in e.elts]
    return None


def _colslice_text(sl):
    t = src(sl).replace(" ", "")
    return {"slice(None,-1,None)": ":-1", "slice(-1,None,None)": "-1:"}.get(t, t)


def _stacked_reconstruction(f2):
    """Reconstruction written as one gather: the shank files are stacked side by side, C = concatenate(parts, axis=1), the destination channel of
    every stacked column is L = concatenate(labels), and the frame is take(C, argsort(L), axis=1) (the inverse permutation).
    -> None (not this form) | (ok, pairs, node, explanation): pairs in the vocabulary of _scatter_pairs."""
    from sa.common import expand_deep
    du = DefUse(f2.node)
    for c in find(f2.node, ast.Call):
        if call_name(c) != "tofile" or not isinstance(c.func, ast.Attribute):
            continue
        data = expand_deep(du, c.func.value, c)
        if isinstance(data, ast.Call) and call_name(data) == "take" and len(data.args) >= 2 and const_value(kwarg(data, "axis")) in ((True, 1), (True, -1)):
            C, I = data.args[0], data.args[1]
        elif isinstance(data, ast.Subscript) and isinstance(data.slice, ast.Tuple) and len(data.slice.elts) == 2 and isinstance(data.value, ast.Call):
            C, I = data.value, data.slice.elts[1]
        else:
            continue
        if not (isinstance(C, ast.Call) and call_name(C) in ("concatenate", "hstack") and C.args):
            continue
        inverse = isinstance(I, ast.Call) and call_name(I) == "argsort" and I.args
        L = I.args[0] if inverse else I
        if not (isinstance(L, ast.Call) and call_name(L) in ("concatenate", "hstack") and L.args):
            return False, set(), c, f"column index `{src(I)[:80]}` is not built from the recorded channel lists"
        parts, labels = _list_items(C.args[0]), _list_items(L.args[0])
        if parts is None or labels is None or len(parts) != len(labels):
            return False, set(), c, "stacked parts and their destination labels are not parallel lists"
        pairs = set()
        for (kp, *pp), (kl, *ll) in zip(parts, labels):
            if kp != kl:
                return False, set(), c, "stacked parts and their destination labels are not parallel lists"
            pe, le = pp[0], ll[0]
            # part: <raw of a shank>[rows?, S] ; label: <entry>["chns"][S']
            if not (isinstance(pe, ast.Subscript) and isinstance(pe.slice, ast.Tuple) and len(pe.slice.elts) == 2):
                return False, set(), c, f"stacked part `{src(pe)[:60]}` is not a column slice of a shank file"
            if not (isinstance(le, ast.Subscript) and "chns" in src(le.value)):
                return False, set(), c, f"label `{src(le)[:60]}` is not a slice of a recorded channel list"
            sp, sl = _colslice_text(pe.slice.elts[1]), _colslice_text(le.slice)
            if "_raw" not in src(pe) and not (kp == "comp" and "_raw" in src(pp[1].iter)):
                return False, set(), c, f"stacked part `{src(pe)[:60]}` does not come from the raw samples of a shank file"
            which = "all" if kp == "comp" else ("first" if ("[0]" in src(le.value) and "[0]" in src(pe.value)) else "?")
            if kp == "comp" and norm(pp[1].iter) != norm(ll[1].iter) and "shank_info" not in (src(pp[1].iter) + src(ll[1].iter)):
                return False, set(), c, "stacked parts and labels run over different collections"
            pairs.add((which, sl, sp))
        if not inverse:
            return False, pairs, c, "gather-with-destination"   # D4b reports it
        return True, pairs, c, "frame = take(stack, argsort(destination channels))"
    return None


def d4_scatter(ctx):
    ctx.rule("D4", "check_NP24 and NP2Reconstructor._reconstruct scatter with the same (target, source) column pairs; reconstruct path is integer-exact")
    repo = ctx.repo
    f1, p1 = _scatter_pairs(repo, CLS + ".check_NP24", "srs")
    f2, p2 = _scatter_pairs(repo, "neuropixel.NP2Reconstructor._reconstruct", "_raw")
    want = {("first", "", ":", "first:last"), ("other", "[:-1]", ":-1", "first:last")}
    stacked = _stacked_reconstruction(f2) if not p2 else None
    if stacked is not None:
        oks, sp, node_, why_ = stacked
        # all shanks without their sync + the sync of the first shank  ==  first shank whole, the others without their sync
        want_st = {("all", ":-1", ":-1"), ("first", "-1:", "-1:")}
        ctx.check(p1 == want, f1, f1.node, f"check pairs {sorted(p1, key=str)}", "verification reassembles: first shank all columns incl. sync, others without their sync",
                  f"verification scatter is {sorted(p1, key=str)}; expected {sorted(want, key=str)}", key="check-pairs")
        if why_ == "gather-with-destination":
            ctx.note("reconstruction is a single gather with the destination channels: decided by D4b")
            return
        ctx.check(oks and sp == want_st, f2, node_, f"stacked reconstruction {sorted(sp)}: {why_}", "reconstruction places exactly the columns the verified reassembly places (stack + inverse permutation)",
                  f"stacked reconstruction pairs {sorted(sp)} ({why_}); expected every shank without its sync plus the sync of the first shank, put in place with argsort of the destination channels",
                  key="recon-pairs", name_free=True)
        rawp = "._raw[" in src(node_) or all("_raw" in src(x) for x in [node_])
        wgs = [c for c in find(f2.node, ast.Call) if call_name(c) == "WindowGenerator"]
        okw = bool(wgs) and len(wgs[0].args) >= 3 and isinstance(wgs[0].args[2], ast.Constant) and wgs[0].args[2].value == 0
        ctx.check(okw, f2, wgs[0] if wgs else f2.node, wgs[0] if wgs else "WindowGenerator", "reconstruction windows do not overlap (each sample written once)",
                  "reconstruction windows overlap: samples would be written twice", key="recon-overlap")
        return
    from rules import C04 as _C04
    if not p1 and _C04.is_piecewise(f1):
        ctx.note("check_NP24 verifies run by run without re-assembling a frame: its coverage is decided by C04-D2 (run tables); here only the reconstruction is compared with the expected pairs")
    else:
        ctx.check(p1 == want, f1, f1.node, f"check pairs {sorted(p1, key=str)}", "verification reassembles: first shank all columns incl. sync, others without their sync",
                  f"verification scatter is {sorted(p1, key=str)}; expected {sorted(want, key=str)}", key="check-pairs")
    ctx.check(p2 == want, f2, f2.node, f"reconstruct pairs {sorted(p2, key=str)}", "reconstruction scatters exactly like the verified reassembly",
              f"reconstruction scatter is {sorted(p2, key=str)}; expected {sorted(want, key=str)} (what check_NP24 verified)", key="recon-pairs")
    # reconstruct: raw integer path
    srcs = []
    for st in walk_function(f2.node):
        if isinstance(st, ast.Assign) and isinstance(st.targets[0], ast.Subscript) and loc_name(st.targets[0].value) == "chunk":
            srcs.append(st)
    raw = all("._raw[" in src(st.value) and not find(st.value, ast.BinOp) for st in srcs)
    ctx.check(bool(srcs) and raw, f2, srcs[0] if srcs else f2.node, "sources are sr._raw[...]", "reconstruction copies raw int16 samples (no float arithmetic)",
              "reconstruction goes through scaled floats or arithmetic: not exact by construction", key="recon-raw")
    zs = [c for c in find(f2.node, ast.Call) if call_name(c) == "zeros" and "int16" in src(c)]
    ctx.check(bool(zs), f2, f2.node, "chunk = np.zeros(..., dtype=np.int16)", "the frame buffer is int16", "the frame buffer is not int16", key="recon-dtype")
    tof = [c for c in find(f2.node, ast.Call) if call_name(c) == "tofile" and loc_name(c.func.value) == "chunk"]
    ctx.check(bool(tof), f2, f2.node, "chunk.tofile(file_out)", "each window is appended to the output", "windows are not written", key="recon-write")
    # overlap 0 windows
    wgs = [c for c in find(f2.node, ast.Call) if call_name(c) == "WindowGenerator"]
    okw = bool(wgs) and len(wgs[0].args) >= 3 and isinstance(wgs[0].args[2], ast.Constant) and wgs[0].args[2].value == 0
    ctx.check(okw, f2, wgs[0] if wgs else f2.node, wgs[0] if wgs else "WindowGenerator", "reconstruction windows do not overlap (each sample written once)",
              "reconstruction windows overlap: samples would be written twice", key="recon-overlap")


def d4b_no_gather_by_destination(ctx):
    ctx.rule("D4b", "original-channel index lists (chns) address columns only as scatter targets; gathering with them applies the inverse permutation")
    repo = ctx.repo
    clsq = "neuropixel.NP2Reconstructor"
    # attributes / locals derived from the chns lists
    derived_attrs = set()
    for q, fi in repo.functions.items():
        if not q.startswith(clsq + "."):
            continue
        for st in walk_function(fi.node):
            if isinstance(st, ast.Assign) and ("'chns'" in src(st.value) or '"chns"' in src(st.value)) and "argsort" not in src(st.value):
                for t in st.targets:
                    if loc_name(t) and loc_name(t).startswith("self.") and not isinstance(t, ast.Subscript):
                        derived_attrs.add(loc_name(t))
    fi = repo.fn(clsq + "._reconstruct")
    du = DefUse(fi.node)
    n = 0
    from sa.common import expand_deep
    gathers = []
    for sub in find(fi.node, ast.Subscript):
        if isinstance(sub.slice, ast.Tuple) and len(sub.slice.elts) == 2:
            gathers.append((sub, sub.slice.elts[1]))
    for c in find(fi.node, ast.Call):
        # np.take(X, idx, axis=1) / X.take(idx, axis=1) is the gather X[:, idx]
        if call_name(c) == "take" and kwarg(c, "axis") is not None and const_value(kwarg(c, "axis")) in ((True, 1), (True, -1)):
            idx = c.args[1] if (isinstance(c.func, ast.Attribute) and loc_name(c.func.value) in ("np", "numpy") and len(c.args) >= 2) else (c.args[0] if c.args else None)
            if idx is not None:
                gathers.append((c, idx))
    for sub, col in gathers:
        ct = src(expand_deep(du, col, sub))
        mentions = "'chns'" in ct or '"chns"' in ct or any(a in ct for a in derived_attrs)
        if mentions and "argsort(" in ct and not isinstance(getattr(sub, "ctx", None), ast.Store):
            n += 1
            ctx.ok(fi, sub, sub, "columns are gathered with the inverse (argsort) of the destination channels", key="gather-inverse:" + norm(sub)[:60])
            continue
        uses = mentions and "argsort" not in ct
        if not uses:
            continue
        n += 1
        ctx.check(isinstance(getattr(sub, "ctx", None), ast.Store), fi, sub, sub, "destination channel indices are used to scatter (assignment target)",
                  f"`{src(sub)[:80]}` GATHERS columns with the list of destination channels: that applies the permutation where its inverse is needed - the reconstructed "
                  "binary has permuted columns for every shank map whose stacked channel order is not its own inverse", key="gather:" + norm(sub)[:60], name_free=True)
    if n == 0:
        raise AnalysisError("_reconstruct: no column addressing through the recorded channel lists found (reconstruction restructured)")


def _store_keys(fi, var):
    keys = set()
    for st in walk_function(fi.node):
        tgts = []
        if isinstance(st, ast.Assign):
            tgts = st.targets
        elif isinstance(st, ast.AugAssign):
            tgts = [st.target]
        for t in tgts:
            cur = t
            # meta_shank["k"][0] = ... counts as key k
            while isinstance(cur, ast.Subscript) and isinstance(cur.value, ast.Subscript):
                cur = cur.value
            if isinstance(cur, ast.Subscript) and loc_name(cur.value) == var:
                k = string_value(cur.slice, {"self.np_version": "<v>"})
                keys.add(k if k is not None else src(cur.slice))
    return keys


def d5_meta_keys(ctx):
    ctx.rule("D5", "keys changed by _writemetadata_ap minus keys restored/popped by NP2Reconstructor.write_metadata == {original_meta}")
    repo = ctx.repo
    fa = repo.fn(CLS + "._writemetadata_ap")
    fr = repo.fn("neuropixel.NP2Reconstructor.write_metadata")
    ka = _store_keys(fa, "meta_shank")
    # keys that other steps of the converter add to the shank ap meta files after they were written (a meta re-read, changed and written back)
    for q_, f_ in repo.functions.items():
        if q_.startswith(CLS + ".") and f_ is not fa and "write_meta_data" in src(f_.node) and "read_meta_data" in src(f_.node) and "ap_file" in src(f_.node):
            for var_ in {loc_name(st_.targets[0].value) for st_ in walk_function(f_.node)
                         if isinstance(st_, ast.Assign) and isinstance(st_.targets[0], ast.Subscript) and isinstance(st_.targets[0].slice, ast.Constant) and loc_name(st_.targets[0].value)}:
                ka |= _store_keys(f_, var_)
    kr = _store_keys(fr, "meta_shank")
    pops = set()
    for c in find(fr.node, ast.Call):
        if call_name(c) == "pop" and loc_name(c.func.value) == "meta_shank" and c.args:
            k = string_value(c.args[0], {"self.np_version": "<v>"})
            pops.add(k if k is not None else src(c.args[0]))
    for d in find(fr.node, ast.Delete):
        for t in d.targets:
            if isinstance(t, ast.Subscript) and loc_name(t.value) == "meta_shank":
                k = string_value(t.slice, {"self.np_version": "<v>"})
                pops.add(k)
    if not ka:
        raise AnchorMissing("_writemetadata_ap: no metadata key stored")
    pops |= {k for k in pops if k}
    left = ka - kr - pops
    ctx.check(left == {"original_meta"}, fr, fr.node, f"written {sorted(ka)} ; restored {sorted(kr)} ; popped {sorted(pops)}",
              "reconstructed metadata differs from the original only by the provenance flag",
              f"keys {sorted(left - {'original_meta'})} written by the splitter are neither restored nor removed by the reconstructor"
              if left - {"original_meta"} else "the provenance flag original_meta is no longer the single surviving difference", key="key-symmetry")
    extra = (kr | pops) - ka
    ctx.check(not extra, fr, fr.node, f"reconstructor-only keys {sorted(extra)}", "the reconstructor touches only keys the splitter changed",
              f"reconstructor modifies/removes {sorted(extra)}, which the splitter never changed: an original field is altered", key="key-extra")
    # value agreement for the counts
    du = DefUse(fr.node)
    for st in walk_function(fr.node):
        if isinstance(st, ast.Assign) and isinstance(st.targets[0], ast.Subscript) and loc_name(st.targets[0].value) == "meta_shank" \
                and string_value(st.targets[0].slice) == "nSavedChans":
            ctx.check(loc_name(st.value) == "self.nch", fr, st, st, "channel count restored to the full frame width", "nSavedChans not restored to self.nch",
                      key="nSavedChans")


def _fstring_parts(js: ast.JoinedStr):
    """(list of literal pieces, list of formatted expressions) of an f-string."""
    lits, vals = [], []
    for v in js.values:
        if isinstance(v, ast.Constant):
            lits.append(v.value)
        elif isinstance(v, ast.FormattedValue):
            vals.append(v.value)
    return lits, vals


def _cv(e):
    ok, v = const_value(e)
    return v if ok else None


def d6_subset_string(ctx):
    ctx.rule("D6", "original-channel list: writer emits inclusive runs `first:last` joined by ','; parser expands `a:b` to arange(a, b + 1), "
                   "in order; `snsSaveChanSubset` is `0:<count - 1>` for the count stored in nSavedChans")
    repo = ctx.repo
    fw = repo.fn("spikeglx._get_savedChans_subset")
    fp = repo.fn("neuropixel.NP2Reconstructor._get_chans")
    args = [a.arg for a in fw.node.args.args]
    if not args:
        raise AnchorMissing("_get_savedChans_subset has no parameter")
    P = args[0]
    duw = DefUse(fw.node)
    # --- writer: separators, run boundaries, inclusive end
    joins = [c for c in find(fw.node, ast.Call) if call_name(c) == "join" and isinstance(c.func, ast.Attribute) and isinstance(c.func.value, ast.Constant)]
    if not joins:
        raise AnalysisError("_get_savedChans_subset: no '<sep>'.join(...) found")
    w_list_sep = joins[-1].func.value.value
    fstrs = find(fw.node, ast.JoinedStr)
    ranges = [(j,) + _fstring_parts(j) for j in fstrs]
    two = [(j, l, v) for j, l, v in ranges if len(v) == 2]
    one = [(j, l, v) for j, l, v in ranges if len(v) == 1]
    if not two or not one:
        raise AnalysisError("_get_savedChans_subset: the `first:last` / single-channel f-strings were not found")
    j2, lits2, vals2 = two[0]
    ctx.check(len(lits2) == 1 and j2.values[1] is not None and isinstance(j2.values[1], ast.Constant), fw, j2, j2,
              "a run is written as <first><sep><last> with nothing else", "the run f-string carries extra literal text: the parser cannot read it back", key="w-range-form")
    w_range_sep = lits2[0] if lits2 else None
    # group-boundary array
    def sub_of(e):
        return e if isinstance(e, ast.Subscript) and loc_name(e.value) == P else None

    def peel(e):
        """P[idx] + k  ->  (P[idx], k)"""
        k = 0
        while isinstance(e, ast.BinOp) and isinstance(e.op, (ast.Add, ast.Sub)):
            if _cv(e.right) is not None:
                k += _cv(e.right) if isinstance(e.op, ast.Add) else -_cv(e.right)
                e = e.left
            elif _cv(e.left) is not None and isinstance(e.op, ast.Add):
                k += _cv(e.left)
                e = e.right
            else:
                break
        return sub_of(e), k
    (a, ka), (b, kb) = peel(vals2[0]), peel(vals2[1])
    if a is None or b is None:
        raise AnalysisError(f"_get_savedChans_subset: run ends are not elements of `{P}`: {src(j2)}")
    if not (isinstance(a.slice, ast.Subscript)):
        raise AnalysisError(f"_get_savedChans_subset: first element index `{src(a.slice)}` is not a group-boundary lookup")
    G = loc_name(a.slice.value)
    G_expr = a.slice.value     # the boundary array: a local, or (when it is written in place) the expression itself
    ev = Evaluator(resolve=lambda e: repo.resolve_expr(fw, e))
    iv = ev.ev(a.slice.slice)
    try:
        bv = ev.ev(b.slice)
    except Undecided as e:
        raise AnalysisError(f"_get_savedChans_subset: last element index not evaluable: {e}")
    # the last element of run i is P[G[i + 1] - 1]
    nxt = [s_ for s_ in bv.symbols()]
    okb = False
    if ka == 0 and kb == 0 and len(nxt) == 1 and bv.coeff(nxt[0]) == 1 and (bv - Poly.sym(nxt[0])).const_value() == -1:
        # the symbol must be G[i + 1]
        for sb in find(b.slice, ast.Subscript):
            if norm(sb.value) == norm(G_expr):
                try:
                    okb = (ev.ev(sb.slice) - iv).const_value() == 1
                except Undecided:
                    okb = False
    ctx.check(okb, fw, j2, f"last = {src(vals2[1])}", "a run is closed by its own last element (inclusive end): P[G[i+1] - 1]",
              f"the run `{src(j2)}` does not end on the last element of the run (`{P}[{G}[i + 1] - 1]`): the channel list written to "
              f"snsSaveChanSubset_orig names a wrong last channel, and the reconstructor scatters columns to the wrong place", key="w-inclusive-end")
    # single-channel form writes the run's first element
    j1, lits1, vals1 = one[0]
    s1 = sub_of(vals1[0])
    ok1 = s1 is not None and isinstance(s1.slice, ast.Subscript) and norm(s1.slice.value) == norm(G_expr) and not lits1
    ctx.check(ok1, fw, j1, j1, "a single trailing channel is written as itself", f"single-channel form `{src(j1)}` is not `{P}[{G}[i]]`", key="w-single")
    # G = r_[0, where(diff(P) != 1)[0] + 1, len(P)]
    gdef = [d for d in duw.defs if d.var == G and d.kind == "assign"] if G else []
    if G and not gdef:
        raise AnalysisError(f"_get_savedChans_subset: definition of `{G}` not found")
    gv = gdef[0].value if gdef else G_expr

    class _S:
        stmt = j2
    if not gdef:
        gdef = [_S()]
    okg = False
    why = "not np.r_[0, <breaks> + 1, len]"
    from sa.struct import concat_parts
    gparts = concat_parts(gv)
    if gparts is not None and len(gparts) == 3:
        e0, e1, e2 = gparts
        first_ok = _cv(e0) == 0
        last_ok = (isinstance(e2, ast.Call) and call_name(e2) == "len" and loc_name(e2.args[0]) == P) or src(e2) in (f"{P}.size", f"{P}.shape[0]")
        mid_ok = False
        if isinstance(e1, ast.BinOp) and isinstance(e1.op, ast.Add) and _cv(e1.right) == 1:
            m = e1.left
            if isinstance(m, ast.Subscript) and _cv(m.slice) == 0 and isinstance(m.value, ast.Call) and call_name(m.value) == "where":
                t = m.value.args[0]
                if isinstance(t, ast.Compare) and len(t.ops) == 1 and isinstance(t.ops[0], ast.NotEq) and _cv(t.comparators[0]) == 1 \
                        and isinstance(t.left, ast.Call) and call_name(t.left) == "diff" and loc_name(t.left.args[0]) == P:
                    mid_ok = True
        okg = first_ok and last_ok and mid_ok
        why = f"first boundary 0: {first_ok}; breaks where(diff != 1)[0] + 1: {mid_ok}; closing boundary len: {last_ok}"
    ctx.check(okg, fw, gdef[0].stmt if hasattr(gdef[0], "stmt") else fw.node, gv, "runs are maximal stretches of consecutive channel numbers covering the whole list",
              f"run boundaries `{src(gv)}` are not [0, positions after each break of consecutiveness, len]: {why}", key="w-boundaries")
    # loop over all runs
    rngs = [c for c in find(fw.node, ast.Call) if call_name(c) == "range"]
    okr = any(len(c.args) == 1 and isinstance(c.args[0], ast.BinOp) and isinstance(c.args[0].op, ast.Sub) and _cv(c.args[0].right) == 1
              and isinstance(c.args[0].left, ast.Call) and call_name(c.args[0].left) == "len" and norm(c.args[0].left.args[0]) == norm(G_expr) for c in rngs)
    ctx.check(okr, fw, rngs[0] if rngs else fw.node, rngs[0] if rngs else "range(...)", "every run is written", f"the runs are not enumerated by range(len({G}) - 1)", key="w-all-runs")

    # --- parser
    splits = [c for c in find(fp.node, ast.Call) if call_name(c) == "split" and c.args and isinstance(c.args[0], ast.Constant)]
    if len(splits) < 2:
        raise AnalysisError("_get_chans: the two split calls were not found")
    dup = DefUse(fp.node)
    p_list_sep = p_range_sep = None
    for c in splits:
        recv = c.func.value
        rv = expand_name(dup, recv, c)
        if isinstance(rv, ast.Call) and call_name(rv) == "get" or "snsSaveChanSubset_orig" in src(rv):
            p_list_sep = c.args[0].value
        else:
            p_range_sep = c.args[0].value
    ctx.check(p_list_sep == w_list_sep, fp, splits[0], f"writer joins with {w_list_sep!r}, parser splits on {p_list_sep!r}", "list separator agrees",
              f"writer joins runs with {w_list_sep!r} but the parser splits on {p_list_sep!r}", key="sep-list")
    ctx.check(p_range_sep == w_range_sep, fp, splits[-1], f"writer separates run ends with {w_range_sep!r}, parser splits on {p_range_sep!r}", "range separator agrees",
              f"writer separates the ends of a run with {w_range_sep!r} but the parser splits on {p_range_sep!r}", key="sep-range")
    ar = [c for c in find(fp.node, ast.Call) if call_name(c) == "arange" and len(c.args) >= 2]
    if not ar:
        raise AnalysisError("_get_chans: arange(a, b + 1) expansion not found")
    evp = Evaluator(resolve=lambda e: repo.resolve_expr(fp, e))
    for c in ar:
        lo, hi = evp.ev(c.args[0]), evp.ev(c.args[1])
        step_ok = len(c.args) == 2 or _cv(c.args[2]) == 1
        # lo = int(x[0]), hi = int(x[1]) + 1
        d = None
        syms_lo, syms_hi = lo.symbols(), hi.symbols()
        if len(syms_hi) == 1:
            d = (hi - Poly.sym(next(iter(syms_hi)))).const_value()
        idx = lambda e: [_cv(s_.slice) for s_ in find(e, ast.Subscript)]
        ctx.check(d == 1 and step_ok and 1 in idx(c.args[1]) and 0 in idx(c.args[0]) and len(syms_lo) == 1 and (lo - Poly.sym(next(iter(syms_lo)))).const_value() == 0,
                  fp, c, c, "`a:b` expands to a, a+1, ..., b (inclusive, like the writer)",
                  f"`{src(c)}` does not expand `a:b` to a..b inclusive (writer closes a run with its own last channel): the parsed channel list "
                  f"{'loses the last channel of every run' if d is not None and d < 1 else 'differs from the written one'}", key="p-inclusive")
    # accumulation keeps the order: r_[acc, new]
    accs = [sb for sb in find(fp.node, ast.Subscript) if src(sb.value).endswith("r_") and isinstance(sb.slice, ast.Tuple) and len(sb.slice.elts) == 2]
    for sb in accs:
        st = [s_ for s_ in walk_function(fp.node) if isinstance(s_, ast.Assign) and s_.value is sb]
        if st:
            tgt = loc_name(st[0].targets[0])
            ctx.check(loc_name(sb.slice.elts[0]) == tgt, fp, sb, sb, "runs are appended in the order they were written",
                      f"`{src(sb)}` prepends each run: the parsed list is in reverse run order, columns are scattered to the wrong channels", key="p-order")

    # --- snsSaveChanSubset = f"0:{count - 1}" wherever nSavedChans is rewritten
    n = 0
    for q in (CLS + "._writemetadata_ap", CLS + "._writemetadata_lf", "neuropixel.NP2Reconstructor.write_metadata"):
        fi = repo.fn(q)
        evq = Evaluator(resolve=lambda e: repo.resolve_expr(fi, e))
        cnt = None
        sub = None
        for st in walk_function(fi.node):
            if isinstance(st, ast.Assign) and isinstance(st.targets[0], ast.Subscript):
                k = string_value(st.targets[0].slice)
                if k == "nSavedChans":
                    cnt = st.value
                elif k == "snsSaveChanSubset":
                    sub = st
        if sub is None:
            continue
        n += 1
        okf = False
        msg = f"`{src(sub.value)}` is not the f-string 0:<count - 1>"
        if isinstance(sub.value, ast.JoinedStr):
            lits, vals = _fstring_parts(sub.value)
            if lits == ["0" + str(w_range_sep)] and len(vals) == 1 and cnt is not None and isinstance(sub.value.values[0], ast.Constant):
                try:
                    dlt = (evq.ev(vals[0]) - evq.ev(cnt)).const_value()
                except Undecided:
                    dlt = None
                okf = dlt == -1
                msg = f"`{src(sub.value)}` ends at count{int(dlt):+d} instead of count - 1 (inclusive list of the nSavedChans = `{src(cnt)}` saved channels)" if dlt is not None else msg
        ctx.check(okf, fi, sub, sub, "saved-channel subset covers exactly the nSavedChans columns written", msg, key="subset-range:" + q.rsplit(".", 1)[-1])
    if n == 0:
        raise AnchorMissing("no store to snsSaveChanSubset found")


def dS_shared(ctx):
    from sa.common import rule_no_shared_mutation
    rule_no_shared_mutation(ctx, "DS", ['neuropixel.NP2Converter._ind2save', 'neuropixel.NP2Converter._split2shanks', 'neuropixel.NP2Converter._prepare_files_NP24', 'neuropixel.NP2Converter._prepare_files_NP21', 'neuropixel.NP2Reconstructor._reconstruct', 'neuropixel.NP2Reconstructor._prepare_files'],
                            'a later window / shank is written from data an earlier one modified')


def d8_fresh_start(ctx):
    ctx.rule("D8", "a shank file starts empty: the handle is opened truncating, or the prepare step empties the file the writer appends to")
    np2.fresh_start_rule(ctx, "D8")


def run(ctx):
    ctx.run(dS_shared)
    ctx.run(d1_rounding)
    ctx.run(d2_tiling)
    ctx.run(d3_columns)
    ctx.run(d4b_no_gather_by_destination)
    ctx.run(d4_scatter)
    ctx.run(d5_meta_keys)
    ctx.run(d6_subset_string)
    ctx.run(np2.window_state_rule, "D7")
    ctx.run(d8_fresh_start)
