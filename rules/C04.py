EXPLANATION="stub"
ASSUMPTIONS=[]
def d5_marker_key(ctx, rule_id="D5"):
    ctx.rule(rule_id, "stub")
def run(ctx):
    pass
