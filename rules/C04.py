"""C04 - conversion never loses the original and is idempotent over run histories (structural clauses)."""
import ast

from sa import guards as G
from sa.cfg import CFG, conjuncts
from sa.common import chain_root, expand_name, resolved_calls, returns_of
from sa.defuse import DefUse, loc_name
from sa.model import AnalysisError, AnchorMissing, const_value, src, walk_function
from sa.struct import call_name, find, kwarg, norm, receiver, string_value
from rules import np2

EXPLANATION = (
    "Decides structural necessary conditions of C04 in NP2Converter: (D1) every unlink of the original recording "
    "(self.ap_file) is either under `self.check_completed and self.delete_original` or dominated by the lossless "
    "in-place compression of that very file (self.sr.compress_file() then self.sr.close()); (D2) check_completed is "
    "only ever set False in init_params and True in check_NP24, the latter reachable only after the verification loop "
    "whose body asserts array equality of the full original window against the reassembled shanks with zero overlap; "
    "(D3) every unlink of a file whose existence is not established on all paths (opened / produced / stat'ed before) "
    "tolerates absence (missing_ok=True or an exists() guard); (D4) the skip guards (already_processed, already_exists, "
    "non-NP2) dominate every effectful step, return the documented status, and output files are only created under "
    "`not exists or overwrite`; (D5) the split-marker metadata key is the same f-string for writer and readers and equals "
    "the literal read by spikeglx at NP2.4. Interruption at every step and equality of disk states across run histories "
    "are NOT decided (they need execution)."
    ' (D1/D2 as built) the verification state is whatever instance state the deletion guard reads (a flag, a set of pending shanks, None ...): the guard must evaluate to false for the value init_params assigns, and every write that can make it true sits in check_NP24 after the asserting loop.'
    " (D6) a forced re-run starts every shank file empty (same file-effect model as C03-D8); file creation in the prepare step is recognised through the file-effect model (mkdir, open 'w', write_bytes, touch)."
    ' (D2 persisted verification) `check_completed` set from a flag read in the shank meta files is accepted only if the flag is written after the asserting verification loop of check_NP24 and the prepare step removes the shank metas before it opens the shank binaries for writing; otherwise it is deletion without verification.'
    ' (D2 run-wise form) when check_NP24 compares run by run, the table of a shank must be the run partition of exactly the columns to verify (first shank all, others all but the last channel); cutting the table itself drops a whole run and is reported.'
)
ASSUMPTIONS = [
    "Reader.compress_file is lossless and atomically published (C02; mtscomp trusted)",
    "python assert statements are enabled (no -O) - the verification uses `assert`",
    "Path.unlink(missing_ok=True) ignores an absent file",
]

CLS = "neuropixel.NP2Converter"


def _guards(cfg, cn):
    out = []
    for t, pol in cfg.guards(cn):
        out += conjuncts(t, pol)
    return out


def _unlinks(fi):
    return [c for c in find(fi.node, ast.Call, nested=False) if call_name(c) == "unlink" and receiver(c) is not None]


def _methods(repo, clsq):
    return [fi for q, fi in sorted(repo.functions.items()) if q.startswith(clsq + ".") and q.count(".") == clsq.count(".") + 1]


def d1_deletion_guarded(ctx):
    ctx.rule("D1", "the original (self.ap_file) is unlinked only under check_completed and delete_original, or after its lossless in-place compression")
    repo = ctx.repo
    n = 0
    for fi in _methods(repo, CLS):
        du = None
        for c in _unlinks(fi):
            root = chain_root(receiver(c))[0]
            r = receiver(c)
            if root != "self.ap_file":
                # a local alias of the original?
                if isinstance(r, ast.Name):
                    du = du or DefUse(fi.node)
                    v = expand_name(du, r, c)
                    if chain_root(v)[0] != "self.ap_file" or (isinstance(v, ast.Call) and call_name(v) == "with_suffix"):
                        continue
                else:
                    continue
            elif isinstance(r, ast.Call) and call_name(r) == "with_suffix":
                continue  # a sibling file derived from the original's name, not the original
            n += 1
            du = du or DefUse(fi.node)
            cfg = du.cfg
            cn = cfg.node_for(c)
            gs = _guards(cfg, cn)
            has_opt = any(loc_name(t) == "self.delete_original" and pol for t, pol in gs)
            # the verification guard: whatever instance state (other than the option) the path condition of the unlink requires
            from sa import guards as GD
            at_ = GD.Atoms()
            pc_ = GD.path_condition(cfg, cn, at_)
            state_atoms = [k for k in GD.atoms_of(pc_) if "self." in k and "delete_original" not in k and "ap_file" not in k and "self.sr" not in k]
            state_attrs = sorted({n_.attr for k in state_atoms for n_ in ast.walk(at_.exprs[k]) if isinstance(n_, ast.Attribute) and isinstance(n_.value, ast.Name) and n_.value.id == "self"})
            has_check = bool(state_atoms)
            if has_check:
                ctx.shared.setdefault("completion_guards", []).append((fi, c, pc_, at_, state_atoms, state_attrs))
            # alternative: dominated by self.sr.compress_file() (lossless, published) and self.sr.close()
            comp = [x for x in resolved_calls(repo, fi, "spikeglx.Reader.compress_file") if chain_root(receiver(x))[0] == "self.sr"]
            clos = [x for x in find(fi.node, ast.Call, nested=False) if call_name(x) == "close" and receiver(x) is not None
                    and loc_name(receiver(x)) == "self.sr"]
            by_compress = bool(comp) and cfg.must_pass([cfg.node_for(x) for x in comp], cn) and \
                bool(clos) and cfg.must_pass([cfg.node_for(x) for x in clos], cn)
            if by_compress:
                # the compressed file must be kept: keep_original not False would be fine, and the result adopted
                kept = all(not (isinstance(kwarg(x, "keep_original"), ast.Constant) and kwarg(x, "keep_original").value is False) for x in comp)
                ctx.check(kept, fi, c, c, "original removed only after it was losslessly compressed in place and the reader closed",
                          "compress_file(keep_original=False) already removed the source: the following unlink targets a missing file", key="after-compress")
            else:
                ctx.check(has_check and has_opt, fi, c, c, "original removed only when verification completed and deletion was requested",
                          f"the original can be deleted on a path where {'verification has not completed' if not has_check else 'deletion was not requested'}"
                          f" (guards: {[('' if p else 'not ') + src(t) for t, p in gs]})", key="delete-guard")
    if n == 0:
        ctx.note("no unlink of self.ap_file found in NP2Converter: nothing can delete the original (D1 vacuous by safety)")


def _abs_value(v):
    """Abstract value of an expression assigned to the verification state: NONE | FALSE | TRUE | EMPTY | NONEMPTY | UNKNOWN."""
    if isinstance(v, ast.Constant):
        if v.value is None:
            return "NONE"
        if v.value is False:
            return "FALSE"
        if v.value is True:
            return "TRUE"
        return "NONEMPTY" if v.value else "EMPTY"
    if isinstance(v, (ast.Set, ast.List, ast.Tuple, ast.Dict)):
        n = len(v.elts) if not isinstance(v, ast.Dict) else len(v.keys)
        return "NONEMPTY" if n else "EMPTY"
    if isinstance(v, ast.Call) and call_name(v) in ("set", "list", "dict", "tuple", "frozenset"):
        if not v.args and not v.keywords:
            return "EMPTY"
        if v.args and "shank_info" in src(v.args[0]):
            return "NONEMPTY"    # one entry per shank being written: never empty while a conversion is running
        return "UNKNOWN"
    return "UNKNOWN"


def _eval_guard(pc, at_, state_atoms, attr, absval):
    """Truth of the deletion guard's state part when self.<attr> has the abstract value: True / False / None (unknown)."""
    from sa import guards as GD
    val = {}
    for k in GD.atoms_of(pc):
        e = at_.exprs[k]
        if k not in state_atoms:
            val[k] = True       # the option (delete_original) and unrelated conditions: assume they allow the deletion
            continue
        t = None
        if isinstance(e, ast.Compare) and len(e.ops) == 1 and isinstance(e.ops[0], ast.Eq):
            sides = [e.left, e.comparators[0]]
            if any(isinstance(x, ast.Constant) and x.value is None for x in sides) and any(loc_name(x) == f"self.{attr}" for x in sides):
                t = None if absval == "UNKNOWN" else (absval == "NONE")
            elif any(isinstance(x, ast.Compare) for x in sides):
                t = None
        elif loc_name(e) == f"self.{attr}":
            t = {"NONE": False, "FALSE": False, "EMPTY": False, "TRUE": True, "NONEMPTY": True}.get(absval)
        elif isinstance(e, ast.Compare) and len(e.ops) == 1 and isinstance(e.ops[0], ast.Eq) and any(isinstance(x, ast.Call) and call_name(x) == "len" and x.args
                                                                                                    and loc_name(x.args[0]) == f"self.{attr}" for x in (e.left, e.comparators[0])):
            other = [x for x in (e.left, e.comparators[0]) if not (isinstance(x, ast.Call) and call_name(x) == "len")]
            if other and const_value(other[0]) == (True, 0):
                t = {"EMPTY": True, "NONEMPTY": False}.get(absval)
        if t is None:
            return None
        val[k] = t
    return GD._eval(pc, val)


MUTATORS = ("add", "update", "discard", "remove", "clear", "pop", "difference_update", "intersection_update", "symmetric_difference_update", "append", "extend", "setdefault", "popitem")


def _persisted_verification(ctx, repo, fi, n, chk):
    """`self.<state> = self.<reader>()` where <reader> looks a flag up in the shank meta files.  The flag is a valid witness of a verification of the files
    that are on disk NOW when (a) it is only ever written from check_NP24 after the asserting loop, and (b) every step that starts rewriting the shank
    files removes the flag first (the prepare step unlinks the shank metas before it opens the binaries for writing).  -> True | reason string | None"""
    if not (isinstance(n, ast.Assign) and isinstance(n.value, ast.Call)):
        return None
    q = repo.resolve_call(fi, n.value)
    if not (q and repo.has_fn(q)):
        return None
    reader = repo.fn(q)
    keys = [c.args[0].value for c in find(reader.node, ast.Call) if call_name(c) == "get" and c.args and isinstance(c.args[0], ast.Constant) and isinstance(c.args[0].value, str)]
    keys = [k for k in keys if "verif" in k or "check" in k]
    if not keys or "read_meta_data" not in src(reader.node):
        return None
    key = keys[0]
    # (a) writers of the flag
    writers = []
    for m in _methods(repo, CLS):
        for st in walk_function(m.node):
            if isinstance(st, ast.Assign) and isinstance(st.targets[0], ast.Subscript) and const_value(st.targets[0].slice) == (True, key):
                writers.append((m, st))
    if not writers:
        return f"the flag `{key}` it reads is never written"
    cfgc = CFG(chk.node)
    loops = [x for x in walk_function(chk.node) if isinstance(x, ast.For) and "firstlast" in src(x.iter)]
    for m, st in writers:
        calls = [c for c in find(chk.node, ast.Call, nested=False) if repo.resolve_call(chk, c) == m.qualname]
        others = [mm.qualname for mm in _methods(repo, CLS) if mm.qualname not in (chk.qualname, m.qualname)
                  for c in find(mm.node, ast.Call, nested=False) if repo.resolve_call(mm, c) == m.qualname]
        if m.qualname != chk.qualname and not calls and not others:
            continue          # a helper that was inlined into its callers: its body is judged where it now stands
        if m.qualname != chk.qualname and (not calls or others):
            return f"the flag `{key}` is written by {m.qualname.rsplit('.', 1)[1]}, which is not called only from check_NP24"
        anchor = st if m.qualname == chk.qualname else calls[0]
        if not loops or not cfgc.must_pass([cfgc.node_for(loops[0])], cfgc.node_for(anchor)) or any(x is anchor for b in loops[0].body for x in ast.walk(b)):
            return f"the flag `{key}` is written before / inside the verification loop"
    # (b) invalidation before the shank files are rewritten
    from rules import np2 as _np2
    for pq in _np2.PREPARE[:1]:
        pf = repo.fn(pq)
        cfgp = CFG(pf.node)
        wr = [c for kind, _, c in _np2.file_effects(pf) if kind in ("truncate", "append") and call_name(c) != "unlink"]
        inval = []
        for c in find(pf.node, ast.Call, nested=False):
            if call_name(c) == "unlink":
                r_ = c.func.value if isinstance(c.func, ast.Attribute) else None
                t_ = src(r_) if r_ is not None else ""
                du_ = DefUse(pf.node)
                rv = expand_name(du_, r_, c) if isinstance(r_, ast.Name) else r_
                loopvar = any(isinstance(x, ast.For) and loc_name(x.target) == loc_name(r_) and ".meta" in src(x.iter) for x in walk_function(pf.node))
                if ".meta" in t_ or ".meta" in src(rv) or loopvar:
                    inval.append(c)
        if not wr:
            continue
        if not inval:
            return (f"the flag `{key}` stays in the shank meta files while {pq.rsplit('.', 1)[1]} truncates the shank binaries for a forced re-run: if that run is interrupted, "
                    "the next run finds partial files next to metas that still say 'verified' and deletes the original")
        for w_ in wr:
            if not any(cfgp.reachable(cfgp.node_for(i_), cfgp.node_for(w_)) for i_ in inval):
                return f"`{src(w_)[:50]}` rewrites a shank file before the stale flag `{key}` is removed"
    return True


def d2_typestate(ctx):
    ctx.rule("D2", "the state that allows deleting the original (the deletion guard) is false after init_params and can only become true in check_NP24, after the asserting "
                   "verification loop over full windows")
    repo = ctx.repo
    guards = ctx.shared.get("completion_guards")
    if guards is None:
        d1_deletion_guarded(ctx.__class__(ctx.repo, ctx.prop, ctx.tier, quiet=True)) if False else None
        guards = ctx.shared.get("completion_guards", [])
    if not guards:
        ctx.note("no state-guarded unlink of the original: the typestate clause has nothing to protect")
        return
    gfi, gcall, pc, at_, state_atoms, state_attrs = guards[0]
    init = repo.fn(CLS + ".init_params")
    chk = repo.fn(CLS + ".check_NP24")
    for attr in state_attrs:
        writes = []     # (fi, node, abstract value)
        for fi in _methods(repo, CLS):
            for n in walk_function(fi.node):
                if isinstance(n, (ast.Assign, ast.AugAssign, ast.AnnAssign)):
                    tgts = n.targets if isinstance(n, ast.Assign) else [n.target]
                    for t in tgts:
                        for el in (t.elts if isinstance(t, ast.Tuple) else [t]):
                            if loc_name(el) == f"self.{attr}":
                                writes.append((fi, n, _abs_value(n.value) if isinstance(n, ast.Assign) else "UNKNOWN"))
                            elif isinstance(el, ast.Subscript) and loc_name(el.value) == f"self.{attr}":
                                writes.append((fi, n, "UNKNOWN"))
                if isinstance(n, ast.Call) and isinstance(n.func, ast.Attribute) and n.func.attr in MUTATORS and loc_name(n.func.value) == f"self.{attr}":
                    writes.append((fi, n, "UNKNOWN"))
                if isinstance(n, ast.Call) and call_name(n) == "setattr" and len(n.args) >= 2 and isinstance(n.args[1], ast.Constant) and n.args[1].value == attr:
                    writes.append((fi, n, "UNKNOWN"))
        init_w = [(fi, n, a) for fi, n, a in writes if fi.qualname == init.qualname]
        if not init_w:
            ctx.violation(init, None, f"self.{attr} = <not verified>", f"the verification state `self.{attr}` is never initialised by init_params", key="no-init", name_free=True)
        for fi, n, a in init_w:
            g = _eval_guard(pc, at_, state_atoms, attr, a)
            ctx.check(g is False, fi, n, n, "a fresh converter is in the 'not verified' state: deletion of the original is refused",
                      f"right after `{src(n)}` the guard of `{src(gcall)}` in {gfi.qualname.rsplit('.', 1)[-1]} ({GD_show(pc)}) already holds" if g else
                      f"`{src(n)}`: cannot tell whether the deletion guard is false for this initial value", key="init-state", name_free=True)
            if g is True:
                ctx.results[-1].message += (": the original is deleted (delete_original=True) although no verification has run - e.g. with post_check=False, or when delete_NP24 is called "
                                            "on a converter whose check never ran")
        for fi, n, a in writes:
            if fi.qualname == init.qualname:
                continue
            g = _eval_guard(pc, at_, state_atoms, attr, a)
            if g is False:
                ctx.ok(fi, n, n, "leaves / enters the 'not verified' state", key="false:" + fi.qualname + ":" + norm(n)[:30])
                continue
            if fi.qualname != chk.qualname:
                pv = _persisted_verification(ctx, repo, fi, n, chk)
                if pv is True:
                    ctx.shared["C04.persisted_ok"] = True
                    continue
                ctx.violation(fi, n, n, f"`{src(n)[:60]}` can put the converter into the 'verified' state outside check_NP24: deletion could run without verification"
                              + (f" - {pv}" if isinstance(pv, str) else ""),
                              key="true-outside:" + fi.qualname, name_free=True)
                continue
            cfg = CFG(fi.node)
            cn = cfg.node_for(n)
            loops = [x for x in walk_function(fi.node) if isinstance(x, ast.For) and "firstlast" in src(x.iter)]
            if not loops:
                ctx.violation(fi, n, n, "check_NP24 marks the verification as completed without iterating over the recording's windows", key="no-loop")
                continue
            lp = loops[0]
            ln = cfg.node_for(lp)
            inside = any(x is n for b in lp.body for x in ast.walk(b))
            ctx.check(cfg.must_pass([ln], cn) and not inside, fi, n, n, "the 'verified' state is entered only after the verification loop has run to completion",
                      "the verification is marked as completed before / inside the verification loop", key="true-after-loop", name_free=True)
            _check_loop(ctx, fi, lp)
    if not any(True for _ in state_attrs):
        ctx.note("the deletion guard reads no instance state")


def GD_show(pc):
    from sa import guards as GD
    return GD.show(pc)[:140]


def _is_run_splitter(h):
    """Does function h return the runs of consecutive values of its argument as (first value, position, length) triples that partition all positions?
    edges = r_[0, flatnonzero(diff(x) != 1) + 1, len(x)] ; [(x[i0], i0, i1 - i0) for i0, i1 in zip(edges[:-1], edges[1:])]"""
    from sa.common import expand_deep
    du = DefUse(h.node)
    rets = returns_of(h.node)
    if len(rets) != 1 or rets[0].value is None or len(h.params) != 1:
        return False
    x = h.params[0]
    v = expand_deep(du, rets[0].value, rets[0])
    if not (isinstance(v, ast.ListComp) and len(v.generators) == 1 and isinstance(v.elt, ast.Tuple) and len(v.elt.elts) == 3):
        return False
    g = v.generators[0]
    if not (isinstance(g.iter, ast.Call) and call_name(g.iter) == "zip" and len(g.iter.args) == 2 and isinstance(g.target, ast.Tuple) and len(g.target.elts) == 2):
        return False
    i0, i1 = (loc_name(e) for e in g.target.elts)
    a0, a1 = g.iter.args
    t0, t1 = src(a0).replace(" ", ""), src(a1).replace(" ", "")
    if not (t0.endswith("[:-1]") and t1.endswith("[1:]") and t0[:-5] == t1[:-4]):
        return False
    edges = t0[:-5]
    if not (("r_[0," in edges or "concatenate(([0]," in edges) and "diff(" + x + ")!=1" in edges and "+1" in edges and (f"len({x})" in edges or f"{x}.size" in edges)):
        return False
    strip = lambda e: src(e.args[0] if isinstance(e, ast.Call) and call_name(e) == "int" and e.args else e).replace(" ", "")  # noqa: E731
    e0, e1, e2 = (strip(e) for e in v.elt.elts)
    return e0 == f"{x}[{i0}]" and e1 == i0 and e2 == f"{i1}-{i0}"


def is_piecewise(fi):
    """check_NP24 compares run by run (for (c0, p0, n) in table: assert array_equal(...)) instead of re-assembling a frame."""
    for lp in walk_function(fi.node):
        if isinstance(lp, ast.For) and isinstance(lp.target, ast.Tuple) and len(lp.target.elts) == 3:
            if any(isinstance(x, ast.Assert) and any(call_name(c) in ("array_equal", "array_equiv") for c in find(x.test, ast.Call)) for b in lp.body for x in ast.walk(b)):
                return True
    return False


def _piecewise_verification(ctx, fi, lp):
    """Verification written run by run: inside the window loop, for every shank, for (c0, p0, n) in TABLE[shank]: assert equal(original[:, c0:c0+n], shank file[:, p0:p0+n]).
    The table of a shank must be the run table of exactly the columns to verify: all of its channels for the first shank, all but the last (the duplicated sync) for the
    others.  A run table partitions its argument; cutting the *table* removes a whole run (every channel contiguous with the sync channel), not one channel.
    -> None when the loop is not of this form, else True (rule instances recorded)."""
    from sa.common import expand_deep
    repo = ctx.repo
    du = DefUse(fi.node)
    inner = [x for b in lp.body for x in ast.walk(b) if isinstance(x, ast.For) and isinstance(x.target, ast.Tuple) and len(x.target.elts) == 3]
    if not inner:
        return None
    lp3 = inner[0]
    c0, p0, n_ = (loc_name(e) for e in lp3.target.elts)
    asserts = [x for b in lp3.body for x in ast.walk(b) if isinstance(x, ast.Assert)]
    eq = [c for a in asserts for c in find(a.test, ast.Call) if call_name(c) in ("array_equal", "array_equiv") and len(c.args) >= 2]
    if not eq:
        return None

    def colrange(e):
        e = e if isinstance(e, ast.Subscript) else None
        if e is None or not (isinstance(e.slice, ast.Tuple) and len(e.slice.elts) == 2 and isinstance(e.slice.elts[1], ast.Slice)):
            return None
        sl = e.slice.elts[1]
        rows = e.slice.elts[0]
        full_rows = isinstance(rows, ast.Slice) and rows.lower is None and rows.upper is None
        lo, up = loc_name(sl.lower), src(sl.upper).replace(" ", "") if sl.upper is not None else None
        return expand_deep(du, e.value, e), lo, up, full_rows
    A, B = colrange(eq[0].args[0]), colrange(eq[0].args[1])
    if A is None or B is None:
        return None
    orig, shank = (A, B) if "self.sr" in src(A[0]) and "shank_info" not in src(A[0]) else (B, A)
    okcols = orig[1] == c0 and orig[2] in (f"{c0}+{n_}", f"{n_}+{c0}") and shank[1] == p0 and shank[2] in (f"{p0}+{n_}", f"{n_}+{p0}") and orig[3] and shank[3]
    tn = [loc_name(e) for e in (lp.target.elts if isinstance(lp.target, ast.Tuple) else [lp.target])][:2]
    rows_txt = f"[{tn[0]}:{tn[1]},:]"
    okrows = src(orig[0]).replace(" ", "").endswith(rows_txt) and src(shank[0]).replace(" ", "").endswith(rows_txt) and "shank_info" in src(shank[0])
    ctx.check(okcols and okrows, fi, eq[0], eq[0], "each run compares original[:, c0:c0+n] with the shank file's [:, p0:p0+n] over the whole window",
              f"`{src(eq[0])[:100]}` does not compare the run's columns of the original window with the run's columns of the shank file", key="piece-compare", name_free=True)
    # the table
    tab = lp3.iter
    tname = loc_name(tab.value) if isinstance(tab, ast.Subscript) else loc_name(tab)
    stores = [st for st in walk_function(fi.node) if isinstance(st, ast.Assign) and isinstance(st.targets[0], ast.Subscript) and loc_name(st.targets[0].value) == tname]
    if not stores:
        raise AnalysisError(f"check_NP24: table `{tname}` of the verified runs is not filled by key")
    cfg = CFG(fi.node)
    built = False
    for st in stores:
        v = st.value
        gs = [(src(t), pol) for t, pol in cfg.guards(cfg.node_for(st))]
        if isinstance(v, ast.Call) and repo.resolve_expr(fi, v.func) in repo.functions and len(v.args) == 1:
            h = repo.functions[repo.resolve_expr(fi, v.func)]
            ctx.check(_is_run_splitter(h), fi, st, st, "the table is the partition of its argument into runs of consecutive channels (first channel, position, length)",
                      f"`{src(v.func)}` is not recognised as splitting its argument into runs (first value, position, length) that cover every position", key="run-table", name_free=True)
            arg = expand_deep(du, v.args[0], st)
            at = src(arg).replace(" ", "")
            whole = at.endswith("['chns']") or at.endswith('["chns"]')
            but_last = at.endswith("['chns'][:-1]") or at.endswith('["chns"][:-1]')
            cond = isinstance(arg, ast.IfExp)
            ctx.shared.setdefault("C04.run_tables", []).append((st, whole, but_last, cond, gs))
            built = True
            continue
        # a later store that cuts the table itself
        if isinstance(v, ast.Subscript) and isinstance(v.value, ast.Subscript) and loc_name(v.value.value) == tname and isinstance(v.slice, ast.Slice):
            ctx.violation(fi, st, st, f"`{src(st)}` drops the last RUN of the shank's table to skip the duplicated sync column: a run is every channel contiguous with it - on a shank whose "
                          "last sites are numbered right before the sync channel (e.g. 336..383 + 384 on the standard 4-shank map) those channels are never compared, yet the verification "
                          "is marked as completed and the original may be deleted", key="run-table-cut", name_free=True)
            continue
        raise AnalysisError(f"check_NP24: store `{src(st)[:60]}` into the run table not understood")
    if not built:
        raise AnalysisError("check_NP24: run table is not built by a run-splitting helper")
    recs = ctx.shared.get("C04.run_tables", [])
    # coverage: first shank whole, others without their last channel - as a conditional argument, or one store per branch
    ok = False
    for st, whole, but_last, cond, gs in recs:
        if cond:
            arg = expand_deep(du, st.value.args[0], st)
            t_, b_, o_ = src(arg.test).replace(" ", ""), src(arg.body).replace(" ", ""), src(arg.orelse).replace(" ", "")
            first_is_body = t_ in ("ish==0", "0==ish", "notish")
            first_is_else = t_ in ("ish>0", "ish!=0", "ish>=1", "ish")
            w, bl = (b_, o_) if first_is_body else (o_, b_)
            ok = (first_is_body or first_is_else) and w.endswith("['chns']") and bl.endswith("['chns'][:-1]")
    if not ok:
        br = {("first" if any(t.replace(" ", "") in ("ish==0",) and pol or t.replace(" ", "") in ("ish>0", "ish!=0") and not pol for t, pol in gs) else
               "other" if any(t.replace(" ", "") in ("ish==0",) and not pol or t.replace(" ", "") in ("ish>0", "ish!=0") and pol for t, pol in gs) else "all"): (whole, but_last)
              for st, whole, but_last, cond, gs in recs if not cond}
        ok = br.get("first") == (True, False) and br.get("other") == (False, True)
        cut = any(r.key == "run-table-cut" for r in ctx.results if getattr(r, "key", None))
        if not ok and br.get("all") == (True, False) and cut:
            return True    # reported above
    ctx.check(ok, fi, recs[0][0], recs[0][0], "run tables cover every channel of the first shank and every channel but the duplicated sync of the others",
              "the run tables do not cover (first shank: all its channels; other shanks: all but their last channel): some columns of the split files are never compared "
              "(or the duplicated sync is compared against the wrong column)", key="run-coverage", name_free=True)
    wgs = [c for c in find(fi.node, ast.Call, nested=False) if call_name(c) == "WindowGenerator"]
    okw = False
    for w in wgs:
        a = list(w.args) + [k.value for k in w.keywords]
        okw = len(a) >= 3 and loc_name(a[0]) == "self.nsamples" and isinstance(a[2], ast.Constant) and a[2].value == 0
    ctx.check(okw, fi, wgs[0] if wgs else fi.node, wgs[0] if wgs else "WindowGenerator", "verification windows tile self.nsamples with overlap 0",
              "verification windows do not tile self.nsamples with zero overlap", key="verify-windows")
    return True


def _check_loop(ctx, fi, lp):
    repo = ctx.repo
    if _piecewise_verification(ctx, fi, lp):
        return
    if True:
        # loop body asserts equality of the full original window
        asserts = [x for b in lp.body for x in ast.walk(b) if isinstance(x, ast.Assert)]
        raises = [x for b in lp.body for x in ast.walk(b) if isinstance(x, ast.If) and any(isinstance(y, ast.Raise) for y in x.body)]
        du = DefUse(fi.node)
        good = False
        detail = "no assert / raise on mismatch inside the loop"
        for a in asserts + raises:
            t = a.test
            eq = [c for c in find(t, ast.Call) if call_name(c) in ("array_equal", "array_equiv")]
            if not eq or len(eq[0].args) < 2:
                detail = f"`{src(t)[:80]}` is not an array equality"
                continue
            if isinstance(a, ast.If) and not (isinstance(t, ast.UnaryOp) and isinstance(t.op, ast.Not)):
                detail = "mismatch branch not negated"
                continue
            args = eq[0].args[:2]
            exp = [expand_name(du, x, a) for x in args]
            full = None
            for x in exp:
                if isinstance(x, ast.Subscript) and loc_name(x.value) == "self.sr":
                    el = x.slice.elts if isinstance(x.slice, ast.Tuple) else [x.slice]
                    rows = el[0]
                    cols_ok = len(el) == 1 or (isinstance(el[1], ast.Slice) and el[1].lower is None and el[1].upper is None and el[1].step is None)
                    tnames = [loc_name(e) for e in (lp.target.elts if isinstance(lp.target, ast.Tuple) else [lp.target])]
                    rows_ok = isinstance(rows, ast.Slice) and rows.step is None and [loc_name(rows.lower), loc_name(rows.upper)] == tnames[:2]
                    full = cols_ok and rows_ok
            if full:
                good = True
            else:
                detail = "the compared original is not self.sr[first:last, :] (all columns of the whole window)"
        ctx.check(good, fi, lp, "assert np.array_equal(self.sr[first:last, :], reassembled)",
                  "every window of the original (all columns) is asserted equal to the reassembled shanks",
                  f"verification loop does not assert equality of the full original window: {detail}", key="loop-assert")
        # the window generator of the verification covers nsamples with zero overlap
        wgs = [c for c in find(fi.node, ast.Call, nested=False) if call_name(c) == "WindowGenerator"]
        okw = False
        for w in wgs:
            a = list(w.args) + [k.value for k in w.keywords]
            okw = len(a) >= 3 and loc_name(a[0]) == "self.nsamples" and isinstance(a[2], ast.Constant) and a[2].value == 0
        ctx.check(okw, fi, wgs[0] if wgs else fi.node, wgs[0] if wgs else "WindowGenerator", "verification windows tile self.nsamples with overlap 0",
                  "verification windows do not tile self.nsamples with zero overlap", key="verify-windows")


def _existence_witness(repo, fi, du, cfg, var_expr, call):
    """Is the file denoted by `var_expr` (a Name) established to exist on every path to `call`?"""
    if not isinstance(var_expr, ast.Name):
        return False
    name = var_expr.id
    here = {d.idx for d in du.reaching(name, call)}
    cn = cfg.node_for(call)
    wit = []
    for c in find(fi.node, ast.Call, nested=False):
        if c is call:
            continue
        uses = False
        q = repo.resolve_call(fi, c)
        if (q in ("spikeglx.Reader",) or call_name(c) in ("open", "Reader")) and c.args and loc_name(c.args[0]) == name:
            uses = True
        if call_name(c) in ("stat", "exists", "rename", "compress_file") and receiver(c) is not None and loc_name(receiver(c)) == name:
            uses = call_name(c) != "exists"
        if uses and {d.idx for d in du.reaching(name, c)} == here:
            wit.append(cfg.node_for(c))
    if wit and cfg.must_pass(wit, cn):
        return True
    # exists() guard
    for t, pol in _guards(cfg, cn):
        if pol and isinstance(t, ast.Call) and call_name(t) == "exists" and receiver(t) is not None and norm(receiver(t)) == norm(var_expr):
            return True
    return False


def d3_unlink_tolerant(ctx):
    ctx.rule("D3", "an unlink whose target is not established to exist (stale output) tolerates absence")
    repo = ctx.repo
    n = 0
    for clsq in (CLS, "neuropixel.NP2Reconstructor"):
        for fi in _methods(repo, clsq):
            du = cfg = None
            for c in _unlinks(fi):
                n += 1
                du = du or DefUse(fi.node)
                cfg = du.cfg
                r = receiver(c)
                mo = kwarg(c, "missing_ok") or (c.args[0] if c.args else None)
                tolerant = isinstance(mo, ast.Constant) and mo.value is True
                established = False
                why = ""
                root = chain_root(r)[0]
                if loc_name(r) in ("self.ap_file", "self.save_file"):
                    established, why = True, "file owned and opened by this object"
                elif isinstance(r, ast.Name) and any(isinstance(x, ast.For) and loc_name(x.target) == r.id and "glob(" in src(x.iter) and any(y is c for y in ast.walk(x))
                                                      for x in walk_function(fi.node)):
                    established, why = True, "path yielded by glob(): it exists"
                elif _existence_witness(repo, fi, du, cfg, r, c):
                    established, why = True, "opened / stat'ed on every path before"
                elif isinstance(r, ast.Name):
                    v = expand_name(du, r, c)
                    if isinstance(v, ast.Subscript) and chain_root(v)[0] == "self.shank_info":
                        established = _existence_witness(repo, fi, du, cfg, r, c)
                ctx.check(tolerant or established, fi, c, c,
                          "unlink tolerates absence" if tolerant else f"target exists: {why}",
                          f"`{src(c)}` removes a file that need not exist (stale output on a fresh folder) without missing_ok=True / exists() guard: "
                          "a forced run raises FileNotFoundError after writing everything", key="unlink:" + norm(expand_name(du, r, c))[:80])
    if n == 0:
        ctx.note("no unlink in NP2Converter/NP2Reconstructor")


EFFECTS_24 = ("_split2shanks", "_writemetadata_ap", "_writemetadata_lf", "check_NP24", "compress_NP24", "delete_NP24", "_closefiles")
EFFECTS_21 = ("_split2shanks", "_writemetadata_lf", "compress_NP21", "_closefiles")


def d4_skip_paths(ctx):
    ctx.rule("D4", "skip guards dominate every effectful step and return 0 / -1; outputs are created only under `not exists or overwrite`")
    repo = ctx.repo
    for q, effects, need in ((CLS + "._process_NP24", EFFECTS_24, ("self.already_processed", "self.already_exists")),
                             (CLS + "._process_NP21", EFFECTS_21, ("self.already_exists",))):
        fi = repo.fn(q)
        cfg = CFG(fi.node)
        calls = [c for c in find(fi.node, ast.Call, nested=False) if call_name(c) in effects and receiver(c) is not None
                 and loc_name(receiver(c)) == "self"]
        if not calls:
            raise AnchorMissing(f"{q}: no processing step found")
        for flag in need:
            # the guard must exist with `return 0`
            ret0 = False
            for r in returns_of(fi.node):
                gs = _guards(cfg, cfg.node_for(r))
                if any(loc_name(t) == flag and pol for t, pol in gs):
                    ok, v = const_value(r.value) if r.value is not None else (False, None)
                    ret0 = ok and v == 0
            ctx.check(ret0, fi, fi.node, f"if {flag}: return 0", f"`{flag}` short-circuits with status 0",
                      f"the `{flag}` skip path (return 0) is missing: a repeated run would redo / overwrite work", key=f"skip:{flag}")
            bad = [c for c in calls if not any(loc_name(t) == flag and not pol for t, pol in _guards(cfg, cfg.node_for(c)))]
            if ctx.shared.get("C04.persisted_ok"):
                # a deferred deletion of the original on the strength of a valid persisted verification (D2) is not a processing step of this run
                bad = [c for c in bad if call_name(c) not in ("delete_NP24", "delete_NP21")]
            ctx.check(not bad, fi, bad[0] if bad else fi.node, f"{len(calls)} effect calls under not {flag}",
                      f"every processing step runs only when not {flag}",
                      f"`{src(bad[0]) if bad else ''}` can run although {flag} is set", key=f"dominate:{flag}")
        # the flag is computed by the prepare step before it is tested
        last = [r for r in returns_of(fi.node)]
        fin = [r for r in last if not _guards(cfg, cfg.node_for(r)) or all(not pol for t, pol in _guards(cfg, cfg.node_for(r)) if loc_name(t) in need)]
        ok1 = any(const_value(r.value) == (True, 1) for r in fin if r.value is not None)
        ctx.check(ok1, fi, fi.node, "return 1", "a completed run reports status 1", "a completed run does not report status 1", key="status-1")
    # process(): non NP2 -> -1
    fp = repo.fn(CLS + ".process")
    cfgp = CFG(fp.node)
    st = [n for n in walk_function(fp.node) if isinstance(n, ast.Assign) and loc_name(n.targets[0]) == "status"] + \
         [r for r in returns_of(fp.node) if r.value is not None and not isinstance(r.value, ast.Name)]
    neg = False
    for n in st:
        v = n.value
        if const_value(v) == (True, -1):
            gs = _guards(cfgp, cfgp.node_for(n))
            neg = all(not pol for t, pol in gs if "np_version" in src(t)) and len(gs) >= 2
    ctx.check(neg, fp, fp.node, "status = -1", "a non-NP2 input is refused with status -1 and nothing is processed",
              "the non-NP2 path does not report -1", key="status--1")
    # prepare: creation guarded
    for q in (CLS + "._prepare_files_NP24", CLS + "._prepare_files_NP21"):
        fi = repo.fn(q)
        cfg = CFG(fi.node)
        creators = [c for kind, _, c in np2.file_effects(fi) if kind in ("mkdir", "truncate", "create-keep", "append") and call_name(c) != "unlink"]
        if not creators:
            raise AnchorMissing(f"{q}: no file creation found")
        for c in creators:
            # path condition |= (no existing output) or overwrite     (propositional entailment over the branch predicates)
            at = G.Atoms()
            pc = G.path_condition(cfg, cfg.node_for(c), at)
            ex = [k for k in G.atoms_of(pc) if ".exists()" in k]
            ok = bool(ex) and G.entails(pc, G.Or(G.And(*[G.Not(G.Atom(k)) for k in ex]), G.Atom("overwrite"))) is True
            ctx.check(ok, fi, c, c, "output is created only when absent or overwrite is requested",
                      f"`{src(c)[:60]}` can truncate existing output without overwrite=True", key="create:" + norm(c)[:60])
        # already_exists: False initially, True on the other branch
        stores = [n for n in walk_function(fi.node) if isinstance(n, ast.Assign) and loc_name(n.targets[0]) == "self.already_exists"]
        tr = [n for n in stores if isinstance(n.value, ast.Constant) and n.value.value is True]
        okb = False
        for n in tr:
            at = G.Atoms()
            pc = G.path_condition(cfg, cfg.node_for(n), at)
            ex = [k for k in G.atoms_of(pc) if ".exists()" in k]
            okb = bool(ex) and G.entails(pc, G.And(G.Or(*[G.Atom(k) for k in ex]), G.Not(G.Atom("overwrite")))) is True
        ctx.check(okb, fi, tr[0] if tr else fi.node, "self.already_exists = True", "already_exists is raised exactly when output exists and overwrite is off",
                  "already_exists is not set on the `exists and not overwrite` branch", key="already-exists")


def d5_marker_key(ctx, rule_id="D5"):
    ctx.rule(rule_id, "split marker key: writer f'{np_version}_shank' == reader key == literal 'NP2.4_shank' read by spikeglx")
    repo = ctx.repo
    sites = []
    for q in (CLS + "._writemetadata_ap", CLS + "._writemetadata_lf", CLS + ".check_metadata",
              "neuropixel.NP2Reconstructor._prepare_files", "neuropixel.NP2Reconstructor.write_metadata"):
        fi = repo.fn(q)
        js = [j for j in find(fi.node, ast.JoinedStr) if "_shank" in (string_value(j) or "")]
        if not js:
            ctx.violation(fi, fi.node, "f'{np_version}_shank'", "the split marker key is not used here any more", key="marker:" + q)
            continue
        for j in js:
            s = string_value(j, {"self.np_version": "NP2.4"})
            sites.append((fi, j, s))
    fs = repo.fn("spikeglx._split_geometry_into_shanks")
    lits = sorted({c.value for c in find(fs.node, ast.Constant) if isinstance(c.value, str) and c.value.endswith("_shank")})
    if not lits:
        raise AnchorMissing("spikeglx._split_geometry_into_shanks: marker literal not found")
    for fi, j, s in sites:
        ctx.check([s] == lits, fi, j, f"{src(j)} -> {s!r} vs spikeglx {lits}", "marker key agrees with the one spikeglx reads",
                  f"marker key {s!r} (at NP2.4) differs from the literal(s) {lits} read by spikeglx._split_geometry_into_shanks", key="marker:" + fi.qualname)


def d6_fresh_start(ctx):
    ctx.rule("D6", "a forced re-run starts every shank file empty (handle opened truncating / prepare step empties the file the writer appends to)")
    np2.fresh_start_rule(ctx, "D6")


def run(ctx):
    ctx.run(d1_deletion_guarded)
    ctx.run(d2_typestate)
    ctx.run(d3_unlink_tolerant)
    ctx.run(d4_skip_paths)
    ctx.run(d5_marker_key)
    ctx.run(d6_fresh_start)
