"""C05 - destriping removes ADC-skewed common noise and keeps local spikes (structural clauses)."""
import ast

from sa.algebra import Evaluator, Poly, Undecided
from sa.calls import bind, is_name
from sa.cfg import CFG, conjuncts
from sa import guards as G
from sa.common import group_selector_verdict, label_set, chain_root, expand_name, resolved_calls, returns_of, value_alternatives
from sa.defuse import DefUse, loc_name
from sa.model import AnalysisError, AnchorMissing, const_value, src, walk_function
from sa.struct import call_name, find, kwarg, norm
from rules.C07 import _EvJ

EXPLANATION = (
    "Decides structural necessary conditions of C05: (D1) the per-group recursion of car / kfilt / fk binds every setting "
    "of the enclosing call (all formal parameters other than the data and `collection`, plus **kwargs) to the caller's own "
    "value - literals pinned in the source are a frozen, reasoned exception table - passes collection=None, and scatters "
    "each group's result back into the rows it was taken from; (D2) the sub-sample re-alignment by the header's sample_shift "
    "(fshift, the precomputed DEPHAS stencil, or channel_shift on GPU) lies on every path from the temporal filter to the "
    "spatial filter (only skipped when no probe version / no shifts are given), with coefficient +1 on sample_shift, and the "
    "stencil is exp(+1j * angle(rfft(impulse at 1)) * sample_shift) like fshift's own phase; (D3) in the labelled branch "
    "both the argument and the assignment target of the spatial filter are the rows where(labels != 3)[0], in all three "
    "implementations; (D4) car subtracts np.median / np.mean over channels (axis 0) for 'median' / 'average'; (D5) agc returns "
    "(x / gain, gain) with the same live-channel mask on both sides and consumers multiply the filtered data by that gain. "
    "The 40 dB / 90 % / zero-median magnitudes are NOT decided."
    ' (D1 groups) each iteration of the per-collection loop handles exactly one group of equal collection values: mask equality with the group value, or argsort + split at the group starts of the SORTED vector (cut points from the unsorted vector are refused). (D3) label selectors are evaluated on the finite label domain {0,1,2,3}.'
    " (D7) the ADC-delay vector of the trace header survives a call: no in-place statement of fshift acts on a value that can share storage with its shift argument (numpy view model: asarray / reshape / basic indexing / astype(copy=False) return the argument's buffer), destripe never stores into h."
    ' (DS as built) hand-rolled module-level caches count as memoisation; for `G[key] = value` every parameter the value is computed from must take part in the key (cache-key completeness).'
    ' (D1 label form) grouped referencing without recursion: references computed from the members of np.unique(return_inverse) labels and subtracted through the same labels; ufunc.reduceat over first occurrences is a positional-block sum and needs sorted collections.'
)
ASSUMPTIONS = [
    "fourier.fshift behaves as decided by C07 (positive shift delays)",
    "np.median/np.mean(x, axis=0) reduce over channels for (nc, ns) arrays",
]

MOD = "ibldsp.voltage"

# literals pinned in the recursion (reason): the rule accepts exactly these
PINNED = {
    (MOD + ".kfilt", "ntr_pad"): (0, "groups are filtered without lateral padding (original behaviour, documented in the docstring of the call)"),
    (MOD + ".kfilt", "ntr_tap"): (None, "no taper inside a group"),
}


def _collection_branch(fi):
    for st in fi.node.body:
        if isinstance(st, ast.If) and "collection" in src(st.test) and "None" in src(st.test) and isinstance(st.test, ast.Compare) and isinstance(st.test.ops[0], ast.IsNot):
            return st
    return None


def _label_form(ctx, fi):
    """Grouped referencing without recursion: traces are labelled once with np.unique(collection, return_inverse=True); the reference of a group must be computed from
    the group's MEMBERS (x[labels == i], np.add.at(ref, labels, x)) and subtracted through the same labels.  np.add.reduceat(x, first_occurrence) sums positional blocks
    x[first[i]:first[i+1]] (numpy model): that is the group only when the collection is sorted.  -> False when car is not written this way."""
    br = _collection_branch(fi)
    if br is None:
        return False
    du = DefUse(fi.node)
    uq = [st for st in br.body if isinstance(st, ast.Assign) and isinstance(st.value, ast.Call) and call_name(st.value) == "unique" and st.value.args and loc_name(st.value.args[0]) == "collection"]
    if not uq:
        return False
    st = uq[0]
    kws = {k.arg: (isinstance(k.value, ast.Constant) and k.value.value is True) for k in st.value.keywords}
    order = ["unique"] + [n for n in ("return_index", "return_inverse", "return_counts") if kws.get(n)]
    tg = st.targets[0].elts if isinstance(st.targets[0], ast.Tuple) else [st.targets[0]]
    if len(tg) != len(order) or not kws.get("return_inverse"):
        return False
    names = {o: loc_name(t) for o, t in zip(order, tg)}
    lab, first, cnt = names.get("return_inverse"), names.get("return_index"), names.get("return_counts")
    data = fi.params[0]
    stmts = [n for b in br.body for n in ast.walk(b)]
    # positional-block reductions with the first occurrences
    for c in stmts:
        if isinstance(c, ast.Call) and isinstance(c.func, ast.Attribute) and c.func.attr == "reduceat" and len(c.args) >= 2:
            idx = expand_name(du, c.args[1], c)
            if first is not None and (loc_name(c.args[1]) == first or first in {n.id for n in ast.walk(idx) if isinstance(n, ast.Name)}):
                srt = any(isinstance(k, ast.Call) and call_name(k) in ("argsort", "sort", "lexsort") for k in stmts)
                ctx.check(srt, fi, c, c, "segmented reduction over first occurrences only after the traces were put in collection order",
                          f"`{src(c)[:90]}` sums the positional blocks x[{first}[i]:{first}[i+1]] (np.ufunc.reduceat), which are the groups only when `collection` is sorted: "
                          "for interleaved groups (e.g. shanks in raw channel order) the reference subtracted from a trace mixes other groups - referencing no longer honours its groups",
                          key="car:reduceat", name_free=True)
    # member-based references
    member = []
    for c in stmts:
        if isinstance(c, ast.Subscript) and loc_name(c.value) == data:
            el = c.slice.elts if isinstance(c.slice, ast.Tuple) else [c.slice]
            if isinstance(el[0], ast.Compare) and loc_name(el[0].left) == lab and isinstance(el[0].ops[0], ast.Eq):
                member.append(c)
        if isinstance(c, ast.Call) and isinstance(c.func, ast.Attribute) and c.func.attr == "at" and len(c.args) == 3 and loc_name(c.args[1]) == lab and loc_name(c.args[2]) == data:
            tgt = loc_name(c.args[0])
            zero = any(d.kind == "assign" and isinstance(d.value, ast.Call) and call_name(d.value) in ("zeros", "zeros_like") for d in du.defs if d.var == tgt) or \
                any(isinstance(m.stmt, ast.Assign) and isinstance(m.stmt.targets[0], ast.Subscript) and loc_name(m.stmt.targets[0].value) == tgt and const_value(m.stmt.value) == (True, 0)
                    and du.cfg.reachable(m.node, du.cfg.node_for(c)) for m in du.defs if m.var == tgt and m.kind == "mutate")
            ctx.check(zero, fi, c, c, "sums accumulated by label start from zero", f"`{src(c)[:80]}` accumulates into `{tgt}`, which is not zero-initialised", key="car:add-at", name_free=True)
            member.append(c)
    ctx.check(bool(member), fi, br, f"{len(member)} member-based group reference(s) through `{lab}`", "group references are computed from the group's members (labels of np.unique(return_inverse))",
              "no group reference is computed from the members of the group (x[labels == i] / np.add.at(ref, labels, x))", key="car:members", name_free=True)
    # subtraction through the same labels
    sub = [r for r in returns_of(fi.node) if any(r is x for b in br.body for x in ast.walk(b)) and r.value is not None and find(r.value, ast.BinOp, lambda b: isinstance(b.op, ast.Sub))]
    oks = False
    for r in sub:
        for b in find(r.value, ast.BinOp, lambda b: isinstance(b.op, ast.Sub)):
            rt = expand_name(du, b.right, r)
            if loc_name(b.left) == data and ((isinstance(rt, ast.Call) and call_name(rt) == "take" and len(rt.args) >= 2 and loc_name(rt.args[1]) == lab and const_value(kwarg(rt, "axis")) == (True, 0))
                                             or (isinstance(rt, ast.Subscript) and loc_name(rt.slice if not isinstance(rt.slice, ast.Tuple) else rt.slice.elts[0]) == lab)):
                oks = True
    ctx.check(oks, fi, sub[0] if sub else br, sub[0] if sub else "return", "each trace gets the reference of its own label subtracted",
              "the references are not subtracted through the labels they were computed for", key="car:subtract", name_free=True)
    # operator table inside the branch: 'median' -> median of members, 'average' -> mean / sum over counts
    txt = src(br)
    ctx.check("'median'" in txt and "median(" in txt and "'average'" in txt, fi, br, "operator branches inside the collection branch", "both operators are implemented for groups",
              "the grouped branch does not implement both operators", key="car:group-ops", name_free=True)
    return True


def d1_forwarding(ctx):
    ctx.rule("D1", "per-collection recursion forwards every setting, passes collection=None, scatters into the rows it gathered")
    repo = ctx.repo
    for name in ("car", "kfilt", "fk"):
        q = f"{MOD}.{name}"
        fi = repo.fn(q)
        du = DefUse(fi.node)
        cfg = du.cfg
        rec = resolved_calls(repo, fi, q)
        if not rec and name == "car" and _label_form(ctx, fi):
            ctx.shared["C05.car_label_form"] = True
            continue
        if not rec:
            ctx.violation(fi, fi.node, f"{name}(..., collection=None)", "grouped filtering no longer recurses per group (collection is ignored?)", key="no-recursion:" + name)
            continue
        a = fi.node.args
        params = fi.params
        data_p = params[0]
        for c in rec:
            gs = []
            for t, pol in cfg.guards(cfg.node_for(c)):
                gs += conjuncts(t, pol)
            in_branch = any("collection" in src(t) and "None" in src(t) for t, pol in gs)
            ctx.check(in_branch, fi, c, c, "recursion happens only when a collection is given", "recursion is not guarded by `collection is not None`", key=f"{name}:guard")
            b = bind(c, fi)
            # settings passed through a local dict (**opts): its literal keys count as bound keywords
            for sk in b.star_kwargs:
                dv = expand_name(du, sk, c)
                items = []
                if isinstance(dv, ast.Dict):
                    items = [(k.value, v) for k, v in zip(dv.keys, dv.values) if isinstance(k, ast.Constant) and isinstance(k.value, str)]
                elif isinstance(dv, ast.Call) and call_name(dv) == "dict":
                    items = [(k.arg, k.value) for k in dv.keywords if k.arg]
                for k, v in items:
                    if k in params and k not in b.bound:
                        b.bound[k] = v
                        b.how[k] = "kw"
            coll = b.bound.get("collection")
            ctx.check(isinstance(coll, ast.Constant) and coll.value is None, fi, c, c, "recursive call clears the collection", "recursive call does not pass collection=None (infinite recursion / regrouping)",
                      key=f"{name}:collection-none")
            for p in params:
                if p in (data_p, "collection"):
                    continue
                arg = b.bound.get(p)
                pin = PINNED.get((q, p))
                if arg is None:
                    ctx.violation(fi, c, f"{name}(... {p}=?)", f"setting `{p}` is not forwarded to the per-group call: grouped filtering silently uses the default "
                                  f"({src(fi.defaults()[p]) if p in fi.defaults() else 'required'}) instead of the caller's value", key=f"{name}:{p}")
                    continue
                if is_name(arg, p) and all(d.kind == "param" or True for d in du.reaching(p, c)):
                    # the caller's own value (possibly normalised earlier in the function, e.g. butter_kwargs default)
                    ctx.ok(fi, c, f"{p}={src(arg)}", f"`{p}` forwarded", key=f"{name}:{p}")
                elif pin is not None and const_value(arg) == (True, pin[0]):
                    ctx.ok(fi, c, f"{p}={src(arg)}", f"`{p}` pinned to {pin[0]!r}: {pin[1]}", key=f"{name}:{p}")
                else:
                    ctx.violation(fi, c, f"{p}={src(arg)}", f"setting `{p}` is bound to `{src(arg)}` instead of the caller's `{p}`", key=f"{name}:{p}")
            if a.kwarg is not None:
                fw = any(is_name(k, a.kwarg.arg) for k in b.star_kwargs)
                ctx.check(fw, fi, c, f"**{a.kwarg.arg}", "extra keyword settings are forwarded", f"**{a.kwarg.arg} is not forwarded to the per-group call", key=f"{name}:kwargs")
            # scatter
            st = cfg.node_for(c).stmt
            okrows = False
            if isinstance(st, ast.Assign) and isinstance(st.targets[0], ast.Subscript):
                tgt = st.targets[0]
                xarg = b.bound.get(data_p)
                if isinstance(xarg, ast.Subscript) and loc_name(xarg.value) == data_p and isinstance(tgt.slice, ast.Tuple) and isinstance(xarg.slice, ast.Tuple):
                    okrows = norm(tgt.slice) == norm(xarg.slice)
                    verdict, why = group_selector_verdict(du, tgt.slice.elts[0], st, "collection")
                    if okrows and verdict == "unknown":
                        raise AnalysisError(f"{q}: per-group row selector not understood: {why}")
                    if okrows and verdict == "bad":
                        ctx.violation(fi, st, st, f"the per-group rows are not the groups of equal `collection` values: {why}", key=f"{name}:groups", name_free=True)
                    elif okrows:
                        ctx.ok(fi, st, st, f"each iteration handles exactly one group of equal collection values ({why})", key=f"{name}:groups")
            ctx.check(okrows, fi, st, st, "each group's result returns to the rows it was taken from", "group rows are gathered and scattered with different selectors", key=f"{name}:scatter",
                      name_free=True)


def _spatial_calls(fi, du):
    out = []
    for c in find(fi.node, ast.Call, nested=False):
        if isinstance(c.func, ast.Name) and c.func.id == "spatial_fcn":
            out.append(c)
        elif call_name(c) in ("kfilt", "car") and not isinstance(c.func, ast.Attribute):
            out.append(c)
    return out


def d2_shift_before_spatial(ctx):
    ctx.rule("D2", "sample_shift re-alignment (+1 coefficient) lies on every path from the temporal filter to the spatial filter")
    repo = ctx.repo
    sites = [
        (MOD + ".destripe", "neuropixel_version"),
        (MOD + ".decompress_destripe_cbin.my_function", None),
        ("ibldsp.destripe_gpu.destripe_array", "sample_shifts"),
    ]
    for q, skipvar in sites:
        fi = repo.fn(q)
        du = DefUse(fi.node)
        cfg = du.cfg
        sp = _spatial_calls(fi, du)
        if not sp:
            raise AnchorMissing(f"{q}: spatial filter call not found")
        filt = [c for c in find(fi.node, ast.Call, nested=False) if call_name(c) in ("sosfiltfilt", "sosfiltfilt_gpu")]
        if not filt:
            raise AnchorMissing(f"{q}: temporal filter not found")
        shifts = []
        for c in find(fi.node, ast.Call, nested=False):
            r = repo.resolve_call(fi, c)
            if r in ("ibldsp.fourier.fshift", "ibldsp.fourier.channel_shift"):
                shifts.append(c)
            elif isinstance(c.func, ast.Name) and c.func.id == "ifft_object":
                shifts.append(c)
        if not shifts:
            ctx.violation(fi, sp[0], sp[0], "no sub-sample re-alignment before the spatial filter: a simultaneous disturbance is sampled at different phases per channel "
                          "and is not removed", key=f"{q}:no-shift")
            continue
        # sign / argument of each shift
        for c in shifts:
            r = repo.resolve_call(fi, c)
            if r == "ibldsp.fourier.fshift":
                b = bind(c, repo.fn(r))
                s = b.bound.get("s")
                try:
                    p = _EvJ().ev(s)
                except Undecided:
                    p = None
                sym = [x for x in (p.symbols() if p is not None else []) if "sample_shift" in x]
                ok = p is not None and len(sym) == 1 and p == Poly.sym(sym[0])
                ctx.check(ok, fi, c, c, "traces are shifted by +sample_shift", f"shift argument `{src(s)}` is not +h['sample_shift'] (normal form {p})", key=f"{q}:sign")
                ax = b.bound.get("axis")
                ctx.check(ax is None or const_value(ax) in ((True, 1), (True, -1)), fi, c, c, "shift runs along time", "shift runs along the channel axis", key=f"{q}:axis")
            elif r == "ibldsp.fourier.channel_shift":
                s = c.args[1] if len(c.args) > 1 else None
                ctx.check(s is not None and loc_name(s) == "sample_shifts", fi, c, c, "GPU shift uses the given sample shifts", "GPU shift does not use sample_shifts", key=f"{q}:sign")
            else:
                # ifft_object(fft_object(chunk) * DEPHAS)
                mul = [bb for bb in find(c, ast.BinOp) if isinstance(bb.op, ast.Mult)]
                ok = bool(mul) and any(loc_name(x) == "DEPHAS" for x in (mul[0].left, mul[0].right))
                ctx.check(ok, fi, c, c, "stencil path multiplies the spectrum by the precomputed phase", "stencil path does not apply DEPHAS", key=f"{q}:stencil")
        # path rule
        shift_nodes = [cfg.node_for(c) for c in shifts]
        skip = set()
        if skipvar:
            for n in cfg.nodes:
                if n.kind == "test" and skipvar in src(n.expr) and "None" in src(n.expr):
                    for t, lab in cfg.succ[n.id]:
                        pol_none = (lab is True) == ("is None" in src(n.expr) and "is not None" not in src(n.expr))
                        if lab in (True, False) and pol_none:
                            skip.add((n.id, t, lab))
        for f in filt:
            fn = cfg.node_for(f)
            reach = cfg.reachable_from(fn, avoid=shift_nodes, skip_edges=skip)
            for s in sp:
                sn = cfg.node_for(s)
                ctx.check(sn.id not in reach or sn.id == fn.id, fi, s, s, "re-alignment precedes the spatial filter on every path",
                          "a path reaches the spatial filter without the sample_shift re-alignment" + (f" although {skipvar} is set" if skipvar else ""), key=f"{q}:path:{norm(s)[:40]}")
    # DEPHAS definition in decompress_destripe_cbin
    fo = repo.fn(MOD + ".decompress_destripe_cbin")
    duo = DefUse(fo.node)
    dd = [d for d in duo.defs if d.var == "DEPHAS" and d.kind == "assign"]
    if not dd:
        raise AnchorMissing("decompress_destripe_cbin: DEPHAS not found")
    v = dd[0].value
    ok = isinstance(v, ast.Call) and call_name(v) == "exp"
    p = None
    if ok:
        try:
            p = _EvJ().ev(v.args[0])
        except Undecided:
            p = None
    sym = [x for x in (p.symbols() if p is not None else []) if "sample_shift" in x]
    ctx.check(p is not None and len(sym) == 1 and p == Poly.sym("J") * Poly.sym("ANGLE") * Poly.sym(sym[0]), fo, dd[0].stmt, f"DEPHAS exponent = {p}",
              "stencil phase is exp(+1j * angle * sample_shift), identical to fshift's", f"stencil phase exponent normalises to {p}: differs from fshift's +1j*angle*s (sign/scale)", key="dephas")
    imp = [n for n in walk_function(fo.node) if isinstance(n, ast.Assign) and isinstance(n.targets[0], ast.Subscript) and loc_name(n.targets[0].value) == "dephas"]
    oki = bool(imp) and isinstance(imp[0].targets[0].slice, ast.Tuple) and const_value(imp[0].targets[0].slice.elts[1]) == (True, 1) and const_value(imp[0].value) in ((True, 1.0), (True, 1))
    ctx.check(oki, fo, imp[0] if imp else fo.node, imp[0] if imp else "dephas[:, 1] = 1", "stencil impulse sits at sample 1 (a one-sample delay)", "stencil impulse is not at sample 1", key="dephas-impulse")
    ang = [c for c in find(v, ast.Call) if call_name(c) == "angle"] if ok else []
    oka = bool(ang) and isinstance(ang[0].args[0], ast.Call) and call_name(ang[0].args[0]) == "fft_object" and loc_name(ang[0].args[0].args[0]) == "dephas"
    ctx.check(oka, fo, dd[0].stmt, dd[0].stmt, "angle is taken from the forward transform of the impulse", "angle is not that of the transformed impulse", key="dephas-angle")


def _is_where_not3(v):
    if v is None:
        return False
    cmp_ = find(v, ast.Compare)
    return "where" in src(v) and bool(cmp_) and isinstance(cmp_[0].ops[0], ast.NotEq) and const_value(cmp_[0].comparators[0]) == (True, 3) \
        and loc_name(cmp_[0].left) == "channel_labels" and isinstance(v, ast.Subscript) and const_value(v.slice) == (True, 0)


def _is_all_rows(v):
    return isinstance(v, ast.Call) and call_name(v) == "slice" and len(v.args) == 1 and const_value(v.args[0]) == (True, None)


def _labels_given(gs):
    """Do the guards say that channel labels are in use on this path?"""
    for t, pol in gs:
        s_ = src(t)
        if "reject_channels" in s_ and pol:
            return True
        if "channel_labels" in s_:
            neg = ("is None" in s_ and "is not None" not in s_) or ("is False" in s_ and "is not False" not in s_)
            if pol != neg:
                return True
    return False


def d3_outside_brain(ctx):
    ctx.rule("D3", "with labels: spatial filter reads and writes exactly rows where(labels != 3)[0]; bad channels repaired first, after the re-alignment")
    repo = ctx.repo
    n = 0
    for q in (MOD + ".destripe", MOD + ".decompress_destripe_cbin.my_function", "ibldsp.destripe_gpu.destripe_array"):
        fi = repo.fn(q)
        du = DefUse(fi.node)
        cfg = du.cfg
        itp = [x for x in find(fi.node, ast.Call, nested=False) if call_name(x) == "interpolate_bad_channels"]
        for c in _spatial_calls(fi, du):
            st = cfg.node_for(c).stmt
            gs = []
            for t, pol in cfg.guards(cfg.node_for(c)):
                gs += conjuncts(t, pol)
            arg = c.args[0] if c.args else None
            indexed = isinstance(st, ast.Assign) and isinstance(st.targets[0], ast.Subscript) and isinstance(arg, ast.Subscript)
            labelled_by_guard = _labels_given(gs)
            if not indexed:
                # whole-array form: only legal on a path where no labels are in use
                if labelled_by_guard:
                    ctx.violation(fi, st, st, "labels are in use but the spatial filter runs over all channels (outside-brain channels feed the filter)", key=f"{q}:inside")
                    n += 1
                continue
            tgt = st.targets[0]
            same = norm(tgt) == norm(arg) and isinstance(tgt.slice, ast.Tuple)
            sel_e = tgt.slice.elts[0] if same else None
            sel = loc_name(sel_e) if sel_e is not None else None
            # the row selector: a local (its reaching definitions) or the selecting expression written in place
            du_sel, cfg_sel = du, cfg
            if sel:
                sd = [(d.value, d.node) for d in du.strong_reaching(sel, st)]
                if not sd and fi.parent is not None and sel not in fi.params:
                    # a closure variable: defined (once per call of the enclosing function) outside the worker
                    du_sel = DefUse(fi.parent.node)
                    cfg_sel = du_sel.cfg
                    sd = [(d.value, d.node) for d in du_sel.defs if d.var == sel and d.kind == "assign"]
            else:
                sd = [(sel_e, cfg.node_for(st))] if sel_e is not None else []
            kinds = []
            for dv, dn in sd:
                dg = []
                for t, pol in cfg_sel.guards(dn):
                    dg += conjuncts(t, pol)
                if _is_where_not3(dv) or (dv is not None and label_set(du_sel, dv, dn.stmt if dn is not None and dn.stmt is not None else st, ("channel_labels",)) == frozenset({0, 1, 2})):
                    kinds.append("inside")
                elif _is_all_rows(dv) and not _labels_given(dg):
                    kinds.append("all-unlabelled")
                else:
                    kinds.append("other:" + (src(dv)[:40] if dv is not None else "?"))
            ok = same and bool(sd) and all(k in ("inside", "all-unlabelled") for k in kinds) and "inside" in kinds
            n += 1
            ctx.check(ok, fi, st, st, "outside-brain channels (label 3) neither feed nor receive the spatial filter",
                      f"`{src(st)[:90]}`: the spatial filter is not applied as x[where(labels != 3)[0], :] = f(x[where(labels != 3)[0], :]) (selector definitions: {kinds})", key=f"{q}:inside")
            ctx.check(bool(itp) and all(cfg.reachable(cfg.node_for(i), cfg.node_for(c)) for i in itp) and not any(cfg.reachable(cfg.node_for(c), cfg.node_for(i), avoid=[n_ for n_ in cfg.nodes if (n_.kind == "test" and isinstance(n_.stmt, ast.While)) or n_.kind == "iter"]) for i in itp),
                      fi, c, c, "bad channels are repaired before the spatial filter",
                      "bad channels are not repaired before the spatial filter (a dead/noisy channel contaminates its neighbours)", key=f"{q}:interp-first")
        # the repair mixes neighbouring channels: it must see re-aligned traces
        shifts = []
        for c in find(fi.node, ast.Call, nested=False):
            r = repo.resolve_call(fi, c)
            if r in ("ibldsp.fourier.fshift", "ibldsp.fourier.channel_shift") or (isinstance(c.func, ast.Name) and c.func.id == "ifft_object"):
                shifts.append(c)
        loop_heads = [n_ for n_ in cfg.nodes if (n_.kind == "test" and isinstance(n_.stmt, ast.While)) or n_.kind == "iter"]
        for i in itp:
            late = [s_ for s_ in shifts if cfg.reachable(cfg.node_for(i), cfg.node_for(s_), avoid=loop_heads)]
            ctx.check(not late, fi, i, i, "bad-channel interpolation runs on re-aligned traces (after the sample_shift correction)",
                      f"bad channels are interpolated from neighbours that still carry their own ADC delays (the re-alignment `{src(late[0])[:50] if late else ''}` comes later): "
                      "the repaired channel keeps a stripe copy that the spatial filter cannot remove", key=f"{q}:interp-after-shift")
    if n < 3:
        raise AnchorMissing(f"indexed spatial-filter application found in {n} of 3 implementations")


def d4_car_table(ctx):
    ctx.rule("D4", "car: 'median' -> x - np.median(x, axis=0); 'average' -> x - np.mean(x, axis=0)")
    repo = ctx.repo
    fi = repo.fn(MOD + ".car")
    du = DefUse(fi.node)
    # every value the function can return, with the branch predicates under which it is returned
    table = []
    brc = _collection_branch(fi) if ctx.shared.get("C05.car_label_form") else None
    inside = {id(x) for b in (brc.body if brc is not None else []) for x in ast.walk(b)}
    for r in returns_of(fi.node):
        if id(r) in inside:
            continue   # grouped branch written with labels: decided by D1's label-form clauses
        if r.value is None:
            ctx.violation(fi, r, r, "car returns nothing on this path", key="car:ret")
            continue
        for gs, v in value_alternatives(du, r.value, r, keep=("xout",)):
            at = G.Atoms()
            pc = G.And(*[G.formula(t, at, pol) for t, pol in gs])
            table.append((pc, v, r))
    want = {"median": "median", "average": "mean"}
    seen = set()
    for pc, v, r in table:
        if G.satisfiable(pc) is False:
            continue
        op = next((k for k in want if G.entails(pc, G.Atom(f"operator == '{k}'")) is True or G.entails(pc, G.Atom(f"'{k}' == operator")) is True), None)
        if op is None:
            # no operator selected on this path: the data (or the per-collection output) is returned as it is
            ctx.check(loc_name(v) in ("x", "xout"), fi, r, f"otherwise: {src(v)}", "without a known operator the data is returned unchanged",
                      f"car returns `{src(v)}` on a path where no operator is selected", key="car:ret")
            continue
        seen.add(op)
        fn = want[op]
        ok = isinstance(v, ast.BinOp) and isinstance(v.op, ast.Sub) and loc_name(v.left) == "x" and isinstance(v.right, ast.Call) \
            and call_name(v.right) == fn and v.right.args and loc_name(v.right.args[0]) == "x" and const_value(kwarg(v.right, "axis")) == (True, 0)
        ctx.check(ok, fi, r, f"{op}: {src(v)}", f"'{op}' subtracts np.{fn} over channels",
                  f"operator '{op}' is implemented as `{src(v)}`; expected x - np.{fn}(x, axis=0)", key="car:" + op)
    for k in want:
        ctx.check(k in seen, fi, fi.node, f"{k} branch", f"operator '{k}' has a branch", f"operator '{k}' is implemented as nothing; expected x - np.{want[k]}(x, axis=0)",
                  key="car:" + k)


def d5_agc(ctx):
    ctx.rule("D5", "agc returns (x / gain, gain) under one mask; kfilt/fk multiply the filtered data by that gain")
    repo = ctx.repo
    fi = repo.fn(MOD + ".agc")
    du = DefUse(fi.node)
    cfg = du.cfg
    div = [n for n in walk_function(fi.node) if isinstance(n, ast.Assign) and isinstance(n.value, ast.BinOp) and isinstance(n.value.op, ast.Div)
           and loc_name(chain_target(n.targets[0])) == "x"]
    div += [n for n in walk_function(fi.node) if isinstance(n, ast.AugAssign) and isinstance(n.op, ast.Div) and loc_name(chain_target(n.target)) == "x"]
    if not div:
        ctx.violation(fi, fi.node, "x = x / gain", "agc does not divide the data by the gain", key="agc:div")
        return
    d = div[0]
    if isinstance(d, ast.Assign):
        tgt, num, den = d.targets[0], d.value.left, d.value.right
        ok = norm(tgt) == norm(num) and loc_name(chain_target(den)) == "gain"
        if ok and isinstance(tgt, ast.Subscript) and isinstance(den, ast.Subscript):
            ok = norm(tgt.slice) == norm(den.slice)
    else:
        ok = loc_name(chain_target(d.value)) == "gain"
    ctx.check(ok, fi, d, d, "data and gain are divided element-wise under the same live-channel mask", f"`{src(d)}`: data and gain are not divided under one mask", key="agc:mask")
    last = [r for r in returns_of(fi.node) if isinstance(r.value, ast.Tuple) and [loc_name(e) for e in r.value.elts] == ["x", "gain"]]
    ctx.check(bool(last), fi, fi.node, "return x, gain", "returns (data, gain) in that order", "agc's CPU path does not return (x, gain)", key="agc:ret")
    if last:
        gd_div = {x.idx for x in du.strong_reaching("gain", d)}
        gd_ret = {x.idx for x in du.strong_reaching("gain", last[0])}
        ctx.check(gd_div == gd_ret, fi, last[0], last[0], "the returned gain is the one the data was divided by", "the gain is modified between the division and the return: product no longer equals the input",
                  key="agc:same-gain")
    for q in (MOD + ".kfilt", MOD + ".fk"):
        f2 = repo.fn(q)
        du2 = DefUse(f2.node)
        un = [n for n in walk_function(f2.node) if isinstance(n, ast.Assign) and isinstance(n.value, ast.Call) and repo.resolve_call(f2, n.value) == MOD + ".agc"]
        oku = bool(un) and isinstance(un[0].targets[0], ast.Tuple) and [loc_name(e) for e in un[0].targets[0].elts] == ["xf", "gain"]
        rets = [r for r in returns_of(f2.node) if isinstance(r.value, ast.BinOp)]
        okr = any(isinstance(r.value.op, ast.Mult) and {loc_name(r.value.left), loc_name(r.value.right)} == {"xf", "gain"} for r in rets)
        ctx.check(oku and okr, f2, un[0] if un else f2.node, f"{q.split('.')[-1]}: xf, gain = agc(...); return xf * gain", "gain removed before filtering is re-applied after it",
                  "the AGC gain is not unpacked as (xf, gain) and multiplied back", key="agc:use:" + q)
        # lagc forwarded as the window length
        if un:
            b = bind(un[0].value, fi)
            ctx.check(loc_name(b.bound.get("wl")) == "lagc", f2, un[0], un[0], "AGC window length is the caller's lagc", "agc is not called with wl=lagc", key="agc:wl:" + q)


def chain_target(t):
    while isinstance(t, ast.Subscript):
        t = t.value
    return t


def d6_explicit_settings(ctx):
    ctx.rule("D6", "a spatial-filter setting passed explicitly as 0 reaches the filter as 0 (no `p or default` swallowing it)")
    repo = ctx.repo
    from sa.common import swallowed_falsy_arguments
    n = 0
    for q in (MOD + ".kfilt", MOD + ".fk", MOD + ".car", MOD + ".agc", MOD + ".destripe", MOD + ".destripe_lfp"):
        fi = repo.fn(q)
        hits = swallowed_falsy_arguments(repo, fi)
        n += 1
        if not hits:
            ctx.ok(fi, fi.node, f"{q.split('.')[-1]}: no explicit falsy setting is replaced", "explicit settings are honoured", key="falsy:" + q)
        for p, expr, caller, call, v in hits:
            ctx.violation(fi, expr, expr, f"`{src(expr)}` replaces a falsy `{p}` by a default, but {caller.qualname} passes {p}={src(v)} explicitly "
                          f"(`{src(call)[:70]}`): the requested setting is silently replaced (for the k-filter: the mirrored padding gets tapered and the "
                          "common-mode stripe leaks back at both ends of the probe)", key=f"falsy:{q}:{p}", name_free=True)


def dS_shared(ctx):
    from sa.common import rule_no_shared_mutation
    rule_no_shared_mutation(ctx, "DS", ['ibldsp.voltage.destripe', 'ibldsp.voltage.destripe_lfp', 'ibldsp.voltage.kfilt', 'ibldsp.voltage.fk', 'ibldsp.voltage.car', 'ibldsp.voltage.agc', 'ibldsp.voltage._get_destripe_parameters', 'neuropixel.adc_shifts'],
                            'the second destriping call works with filter tables the first one modified')


def d7_header_untouched(ctx):
    ctx.rule("D7", "the ADC-delay vector of the trace header survives a call: fshift never writes into storage shared with its shift argument, destripe never stores into h")
    from rules import C07
    repo = ctx.repo
    ff = repo.fn("ibldsp.fourier.fshift")
    C07.args_untouched(ctx, ff, [p_ for p_ in ff.params[1:]], rule="D7")
    fd = repo.fn("ibldsp.voltage.destripe")
    if "h" in fd.params:
        C07.args_untouched(ctx, fd, ["h"], rule="D7")


def run(ctx):
    ctx.run(dS_shared)
    ctx.run(d6_explicit_settings)
    ctx.run(d1_forwarding)
    ctx.run(d2_shift_before_spatial)
    ctx.run(d3_outside_brain)
    ctx.run(d4_car_table)
    ctx.run(d5_agc)
    ctx.run(d7_header_untouched)
