"""C06 - chunked destripe-to-file writes every sample exactly once, for any worker count (structural clauses)."""
import ast

from sa.algebra import Evaluator, Facts, Poly, SymExec, Undecided
from sa.calls import bind
from sa.cfg import CFG, conjuncts
from sa.common import chain_root, expand_name, returns_of
from sa.defuse import DefUse, loc_name
from sa.model import AnalysisError, AnchorMissing, const_value, src, walk_function
from sa.struct import call_name, find, kwarg, norm

EXPLANATION = (
    "Decides structural necessary conditions of C06 in voltage.decompress_destripe_cbin by evaluating the worker's own "
    "statements into polynomial normal forms over (NBATCH, SAMPLES_TAPER, n_batch, first_s ...): (D1) the batch stride S = "
    "NBATCH - 2*TAPER, every worker starts at S * n_batch (one batch grid for any worker count) with n_batch = "
    "ceil(i_chunk*CHUNK_SIZE / NBATCH) (a divisor >= S leaves no batch between two workers), interior batches keep "
    "[TAPER, NBATCH-TAPER) so S + a == b, the first batch keeps from 0 (first_s == 0), the last to NBATCH (last_s == ns), the read "
    "is rows first_s : min(first_s+NBATCH, ns), the output seek is offset + (first_s + TAPER) * nc_out * nbytes for workers > 0 "
    "and offset for worker 0, nbytes and the cast use the same dtype, the RMS / time seeks are n_batch rows, the worker stops "
    "at last_s >= max_s with max_s = (i+1)*CHUNK_SIZE (ns for the last worker); (D2) after the sync columns are re-attached the "
    "array is only sliced, multiplied by the per-channel conversion reciprocal, cast and written; whitening is restricted to "
    "[:, :ncv]; the mute gain is applied before re-attachment; sync rows are the rows of the data read; (D3) the saturation "
    "file has sr.ns entries and is written with the read's bounds; (D4) the fan-out runs my_function(i, n) for i in range(n) with "
    "the same n as n_jobs. Byte identity across worker counts and equality with in-memory destriping are NOT decided."
    ' (as built) sync provenance follows views of a single per-batch read; the mute may multiply the voltage traces inside the concatenation; the kept range may be held in a slice object built from is_first / is_last flags; one seek shared by all workers is evaluated for worker 0 and worker i.'
    " (D1 as built) the batch loop is modelled as a schedule (start, stride, bound) whether written as `while True` with a break or as `for first_s in range(start, stop, stride)`; the bound must be max_s - 2*TAPER with max_s = ns for the worker that the fan-out's own count designates as last; seeks are keyed by the file a handle was opened on."
    ' (D5) every free variable of the worker (symtable of the enclosing function) is bound by the enclosing function whenever the worker reads it: path condition of the read and of the launch entail the disjunction of the path conditions of the bindings; a resource held as `x = r if option else None` is looked into only under that option. (D6) the batch stride is positive: a constant for the default batch size, and for a caller-supplied nbatch established by an assert / raise guard that precedes the worker.'
    ' (D1 first batch is real) a worker processes the batch at its start unconditionally, so for worker i > 0 the code must return early when first_s + 2*TAPER >= ns (the batch before it already reached the end): decided on normal forms of the guard, any spelling.'
    ' (D1 batch ownership) when worker i starts at batch P[i] of a partition vector built in the enclosing function, it must go on exactly while its next start is below stride * P[i + 1] (the last worker until a batch reaches the end).'
    ' (D1 start ownership) workers may own the batches that START in their chunk (n_batch = ceil(i * CHUNK_SIZE / stride), while first_s < max_s), provided a grid point is processed only when the batch before it did not reach the end (first_s == 0 or first_s + 2 * TAPER < ns).'
)
ASSUMPTIONS = [
    "joblib.Parallel runs each delayed call exactly once (model table); workers write disjoint or identical bytes at the decided offsets",
    "the conversion vector is 1.0 on sync channels (C09-D1), so * 1/sample2volts leaves integer sync words exact",
    "a worker whose start lies in the last 2*TAPER samples returns before processing (decided by D1 'first batch is real'; was an assumption until F15 was repaired)",
]

OUTER = "ibldsp.voltage.decompress_destripe_cbin"


def _worker(repo):
    outer = repo.fn(OUTER)
    # the nested function handed to delayed(...)
    for c in find(outer.node, ast.Call, nested=False):
        if isinstance(c.func, ast.Call) and call_name(c.func) == "delayed" and c.func.args:
            q = repo.resolve_expr(outer, c.func.args[0])
            if q in repo.functions:
                return outer, repo.functions[q], c
    raise AnchorMissing(f"{OUTER}: delayed(<worker>)(...) fan-out not found")


def _outer_env(repo, outer):
    facts = Facts()

    def assume(t):
        if isinstance(t, ast.Name) and t.id in ("nbatch", "nprocesses", "nc_out", "compute_rms"):
            return True
        return None
    ev = Evaluator(facts=facts, resolve=lambda e: repo.resolve_expr(outer, e), assume=assume)
    sx = SymExec(ev, on_undecided="havoc")
    for s in outer.node.body:
        if isinstance(s, (ast.FunctionDef,)):
            continue
        if isinstance(s, ast.Expr) and isinstance(s.value, ast.Constant):
            continue
        try:
            sx.step(s)
        except Undecided:
            pass
    facts.int_syms |= {"nbatch", "NBATCH", "SAMPLES_TAPER", "i_chunk", "n_chunk", "F", "nprocesses", "_sr.ns", "sr.ns", "ncv", "nc_out", "offset", "nbytes"}
    return ev.env, facts


def _loop(worker):
    """The batch loop of the worker: `while True:` advancing first_s, or `for first_s in range(start, stop, stride)`."""
    lps = [s for s in worker.node.body if isinstance(s, ast.While)]
    if not lps:
        lps = [s for s in worker.node.body if isinstance(s, ast.For) and loc_name(s.target) == "first_s"]
    if len(lps) != 1:
        raise AnalysisError(f"{worker.qualname}: expected one batch loop (while / for first_s in range), found {len(lps)}")
    return lps[0]


def _range_of(worker, lp):
    """(start, stop, step) expressions of a for-form batch loop (the range may be held in a local)."""
    du = DefUse(worker.node)
    it = expand_name(du, lp.iter, lp)
    if not (isinstance(it, ast.Call) and call_name(it) == "range" and len(it.args) == 3):
        raise AnalysisError(f"{worker.qualname}: batch loop iterates `{src(it)[:60]}`, not range(start, stop, stride)")
    return it.args


def _count_expr(worker):
    """X in the worker's own `i_chunk == X - 1` (am I the last worker?) test; None when the worker has no such test."""
    for t in find(worker.node, ast.Compare, nested=False):
        if len(t.ops) == 1 and isinstance(t.ops[0], (ast.Eq, ast.GtE)) and loc_name(t.left) == "i_chunk":
            r = t.comparators[0]
            if isinstance(r, ast.BinOp) and isinstance(r.op, ast.Sub) and const_value(r.right) == (True, 1):
                return r.left, t
    return None, None


def _run_iteration(repo, worker, env, facts, is_first, is_last, last_exact=False):
    """One symbolic pass through the batch loop.  Cases: interior / first / last batch; the last batch is either short
    (ns - first_s < NBATCH) or an exact fit (ns - first_s == NBATCH, `last_exact`)."""
    lp = _loop(worker)
    # locals set before the loop (e.g. a hoisted stride) are visible in the iteration
    ev_pre = Evaluator(env=dict(env), facts=facts.copy(), resolve=lambda x: repo.resolve_expr(worker, x))
    sx_pre = SymExec(ev_pre, on_undecided="havoc")
    for s in worker.node.body[: worker.node.body.index(lp)]:
        sx_pre.step(s)
    env = {k: v for k, v in ev_pre.env.items() if not any(sym.startswith("?") for sym in v.symbols())}

    # flags holding a comparison of the loop state (is_first = first_s == 0 ...), assigned in the loop body
    flags = {}
    for s_ in lp.body:
        if isinstance(s_, ast.Assign) and len(s_.targets) == 1:
            tg, vl = s_.targets[0], s_.value
            pairs = list(zip(tg.elts, vl.elts)) if isinstance(tg, ast.Tuple) and isinstance(vl, ast.Tuple) and len(tg.elts) == len(vl.elts) else [(tg, vl)]
            for t_, v_ in pairs:
                if isinstance(t_, ast.Name) and isinstance(v_, ast.Compare):
                    flags[t_.id] = v_

    def assume(t):
        if isinstance(t, ast.Name) and t.id in flags:
            return assume(flags[t.id])
        if isinstance(t, ast.UnaryOp) and isinstance(t.op, ast.Not):
            d_ = assume(t.operand)
            return None if d_ is None else not d_
        if isinstance(t, ast.Compare) and len(t.ops) == 1:
            l, r, op = loc_name(t.left), t.comparators[0], t.ops[0]
            if l == "first_s" and const_value(r) == (True, 0) and isinstance(op, (ast.Eq, ast.NotEq, ast.Gt)):
                return is_first if isinstance(op, ast.Eq) else (not is_first)
            if l == "last_s" and src(r).endswith(".ns") and isinstance(op, (ast.Eq, ast.GtE, ast.NotEq, ast.Lt)):
                return is_last if isinstance(op, (ast.Eq, ast.GtE)) else (not is_last)
            # length of the batch actually read, compared with the nominal batch length: shorter only for a short last batch
            ls = src(t.left)
            is_len = ls in ("chunk.shape[1]", "chunk.shape[-1]", "last_s - first_s") or (ls.endswith(".shape[1]") and "chunk" in ls)
            if is_len and loc_name(r) == "NBATCH":
                short = is_last and not last_exact
                if isinstance(op, ast.Lt) or isinstance(op, ast.NotEq):
                    return short
                if isinstance(op, (ast.Eq, ast.GtE)):
                    return not short
        return None
    e = dict(env)
    e["first_s"] = Poly.const(0) if is_first else Poly.sym("F")
    ev = Evaluator(env=e, facts=facts.copy(), resolve=lambda x: repo.resolve_expr(worker, x), assume=assume)
    sx = SymExec(ev, on_undecided="havoc")
    snap = {}
    for s in lp.body:
        if (isinstance(s, ast.AugAssign) and loc_name(s.target) == "first_s") or \
                (isinstance(s, ast.Assign) and len(s.targets) == 1 and loc_name(s.targets[0]) == "first_s"):
            snap["a"], snap["b"] = ev.env.get("ind2save[0]"), ev.env.get("ind2save[1]")
            snap["last_s"] = ev.env.get("last_s")
            before = ev.env.get("first_s")
            sx.step(s)
            snap["stride"] = ev.env.get("first_s") - before
            continue
        if isinstance(s, ast.If) and any(isinstance(x, ast.Break) for x in ast.walk(s)):
            snap["break_test"] = s.test
            continue
        if isinstance(s, ast.If) and not s.orelse and len(s.body) == 1 and isinstance(s.body[0], ast.Continue) and isinstance(lp.body[-1], ast.Break) \
                and isinstance(s.test, ast.Compare) and len(s.test.ops) == 1 and type(s.test.ops[0]) in (ast.Lt, ast.LtE, ast.Gt, ast.GtE):
            # guard clause: `if <go on>: continue` ... `break` at the end of the body  ==  `if not <go on>: ... break`
            flip = {ast.Lt: ast.GtE, ast.LtE: ast.Gt, ast.Gt: ast.LtE, ast.GtE: ast.Lt}[type(s.test.ops[0])]
            snap["break_test"] = ast.copy_location(ast.Compare(left=s.test.left, ops=[flip()], comparators=s.test.comparators), s.test)
            continue
        if isinstance(s, ast.If) and any(isinstance(x, (ast.Assign, ast.AugAssign)) and "ind2save" in src(x.targets[0] if isinstance(x, ast.Assign) else x.target)
                                         for y in s.body + s.orelse for x in ast.walk(y)):
            # the branch decides the kept range: it must be decidable in this case, otherwise the rule cannot speak
            if ev.decide(s.test) is None:
                raise AnalysisError(f"{worker.qualname}: the test `{src(s.test)}` selecting the kept range is not understood")
        sx.step(s)
        if isinstance(s, ast.Assign) and len(s.targets) == 1 and isinstance(s.targets[0], ast.Name) and isinstance(s.value, ast.Call) and call_name(s.value) == "slice" \
                and len(s.value.args) == 2:
            # the kept range held in a slice object: slice(a, b) plays ind2save[0], ind2save[1]
            nm_ = s.targets[0].id
            try:
                ev.env[f"{nm_}[0]"], ev.env[f"{nm_}[1]"] = ev.ev(s.value.args[0]), ev.ev(s.value.args[1])
            except Undecided:
                pass
    if isinstance(lp, ast.For):
        snap["a"], snap["b"] = ev.env.get("ind2save[0]"), ev.env.get("ind2save[1]")
        snap["last_s"] = ev.env.get("last_s")
        try:
            snap["stride"] = ev_pre.ev(_range_of(worker, lp)[2])
        except Undecided as e_:
            raise AnalysisError(f"{worker.qualname}: stride of the batch range not evaluable: {e_}")
    if "stride" not in snap:
        raise AnalysisError(f"{worker.qualname}: advance of first_s not found in the batch loop")
    return snap


def _step_pre(worker, lp, pre, sx, ev):
    """Run the statements before the batch loop; a local holding the batch range makes `<local>[0]` its start (the range is never empty:
    its stop is at least start + 1 - checked by the stop rule)."""
    rng_local = lp.iter.id if isinstance(lp, ast.For) and isinstance(lp.iter, ast.Name) else None
    for s_ in pre:
        sx.step(s_)
        if rng_local and isinstance(s_, ast.Assign) and loc_name(s_.targets[0]) == rng_local and isinstance(s_.value, ast.Call) and call_name(s_.value) == "range" \
                and len(s_.value.args) == 3:
            try:
                ev.env[f"{rng_local}[0]"] = ev.ev(s_.value.args[0])
            except Undecided:
                pass


def _ownership(repo, outer, worker, pre):
    """Batch-ownership design: a partition vector P built in the enclosing function (P[0] = 0 ... P[n] = number of batches, non-decreasing) and worker i
    starting at batch P[i].  -> (P name, total-batches expr) or None"""
    nbd = [s_ for s_ in pre if isinstance(s_, ast.Assign) and loc_name(s_.targets[0]) == "n_batch"]
    if not nbd:
        return None
    v = nbd[0].value
    while isinstance(v, ast.Call) and call_name(v) == "int" and len(v.args) == 1:
        v = v.args[0]
    if not (isinstance(v, ast.Subscript) and isinstance(v.value, ast.Name) and loc_name(v.slice) == "i_chunk"):
        return None
    P = v.value.id
    defs = [s_ for s_ in outer.node.body if isinstance(s_, ast.Assign) and loc_name(s_.targets[0]) == P]
    if len(defs) != 1:
        return None
    d = defs[0].value
    while isinstance(d, ast.Call) and call_name(d) in ("astype", "floor", "asarray", "array", "int64", "int32") and (d.args or isinstance(d.func, ast.Attribute)):
        d = d.func.value if (call_name(d) == "astype" and isinstance(d.func, ast.Attribute)) else d.args[0]
    # linspace(0, N, nprocesses + 1): n + 1 non-decreasing values from 0 to N
    if isinstance(d, ast.Call) and call_name(d) == "linspace" and len(d.args) >= 3 and const_value(d.args[0]) == (True, 0):
        npts = d.args[2]
        if isinstance(npts, ast.BinOp) and isinstance(npts.op, ast.Add) and const_value(npts.right) == (True, 1):
            return P, d.args[1], npts.left
    return None


def _stop_rule(ctx, repo, worker, lp, pre, env, facts, interior, NB, T, S, fs0):
    outer_ = worker.parent
    own = _ownership(repo, outer_, worker, pre) if outer_ is not None else None
    if own is not None and isinstance(lp, ast.While):
        return _stop_rule_ownership(ctx, repo, worker, lp, pre, env, facts, interior, NB, T, S, own)
    cnt, cnt_test = _count_expr(worker)
    ms = [s for s in pre if isinstance(s, ast.Assign) and loc_name(s.targets[0]) == "max_s"]
    CS = env.get("CHUNK_SIZE", Poly.sym("CHUNK_SIZE"))
    want = {True: Poly.sym("_sr.ns"), False: (Poly.sym("i_chunk") + Poly.const(1)) * CS}

    def eval_case(expr, is_last_worker):
        def assume(t):
            if cnt_test is not None and isinstance(t, ast.Compare) and norm(t) == norm(cnt_test):
                return is_last_worker
            return None
        ev = Evaluator(env=dict(env), facts=facts.copy(), resolve=lambda x: repo.resolve_expr(worker, x), assume=assume)
        sx = SymExec(ev, on_undecided="havoc")
        _step_pre(worker, lp, pre, sx, ev)
        return ev.ev(expr)

    if isinstance(lp, ast.While):
        bt = interior.get("break_test")
        okb = isinstance(bt, ast.Compare) and isinstance(bt.ops[0], ast.GtE) and loc_name(bt.left) == "last_s" and loc_name(bt.comparators[0]) == "max_s"
        bound_expr = ast.parse("max_s", mode="eval").body
        slack = Poly.const(0)          # the loop goes on while last_s < max_s
        where = ms[0] if ms else worker.node
        shown = f"stop: {src(bt) if bt is not None else None}; {src(ms[0]) if ms else None}"
    else:
        stop = expand_name(DefUse(worker.node), _range_of(worker, lp)[1], lp)
        okb = True
        bound_expr = stop
        if isinstance(stop, ast.Call) and call_name(stop) == "max" and len(stop.args) == 2:
            # max(start + 1, X): at least one batch, then while first_s < X
            try:
                e0 = eval_case(stop.args[0], False)
                e1 = eval_case(stop.args[1], False)
            except Undecided as e_:
                raise AnalysisError(f"bound of the batch range not evaluable: {e_}")
            if fs0 is not None and e0 == fs0 + Poly.const(1):
                bound_expr = stop.args[1]
            elif fs0 is not None and e1 == fs0 + Poly.const(1):
                bound_expr = stop.args[0]
            else:
                okb = False
        slack = Poly.const(2) * T       # the loop goes on while first_s < max_s - 2*TAPER
        where = ms[0] if ms else lp
        shown = f"for first_s in range(.., {src(stop)[:80]}, ..); {src(ms[0]) if ms else ''}"
    got = {}
    okm = okb
    if okb:
        for lastw in (True, False):
            try:
                got[lastw] = eval_case(bound_expr, lastw) + slack
            except Undecided as e_:
                raise AnalysisError(f"stop bound of the batch loop not evaluable: {e_}")
        okm = cnt is not None and got[True] == want[True] and got[False] == want[False]
    detail = ""
    if okb and not okm:
        if cnt is None:
            detail = (f": no worker is told it is the last one, every worker stops at {got.get(True)}; CHUNK_SIZE is the FLOOR of ns / nprocesses, so the last worker's range ends "
                      "ns % nprocesses samples before the end of the file and the final (short) batch is never processed")
        else:
            detail = f": last worker runs to {got.get(True)} (expected {want[True]}), worker i to {got.get(False)} (expected {want[False]})"
    ctx.check(okb and okm, worker, where, shown,
              "worker i runs until its batches reach (i+1)*CHUNK_SIZE, the last worker to the end of the file",
              "worker stop test is not `batches go on until (i+1)*CHUNK_SIZE, and to ns for the last worker`" + detail + " - a stretch between two workers / the tail is left unwritten",
              key="stop", name_free=bool(detail))
    ctx.shared["C06.count"] = cnt


def _first_batch_is_real(ctx, repo, worker, lp, pre, env, facts, T, report=True):
    """A worker processes the batch at its start `first_s` unconditionally (do-while loop / range with at least one element).  For worker i > 0 that grid point is a batch of the
    recording only when the batch before it did not reach the end: first_s + 2*TAPER < ns.  Otherwise the worker must leave before it opens anything:
    `if first_s > 0 and first_s + 2*TAPER >= ns: return` ahead of the loop (any spelling of the two comparisons)."""
    F = Poly.sym("F")
    need = F + Poly.const(2) * T - Poly.sym("_sr.ns")      # >= 0  <=>  nothing left for this worker
    ok = False
    where = None
    for st in pre:
        if not (isinstance(st, ast.If) and not st.orelse and st.body and isinstance(st.body[-1], ast.Return)):
            continue
        cj = [t for t, pol in conjuncts(st.test, True) if pol]
        has_pos = any(isinstance(t, ast.Compare) and len(t.ops) == 1 and loc_name(t.left) in ("first_s", "i_chunk", "n_batch") and const_value(t.comparators[0]) == (True, 0)
                      and isinstance(t.ops[0], (ast.Gt, ast.NotEq)) for t in cj)
        has_end = False
        for t in cj:
            if not (isinstance(t, ast.Compare) and len(t.ops) == 1):
                continue
            ev = Evaluator(env=dict(env), facts=facts.copy(), resolve=lambda x: repo.resolve_expr(worker, x))
            sx = SymExec(ev, on_undecided="havoc")
            try:
                _step_pre(worker, lp, [x for x in pre if x is not st and pre.index(x) < pre.index(st)], sx, ev)
                start = ev.env.get("first_s")
                if isinstance(lp, ast.For):
                    start = ev.ev(_range_of(worker, lp)[0])
                if start is None:
                    continue
                need = start + Poly.const(2) * T - Poly.sym("_sr.ns")
                l_, r_ = ev.ev(t.left), ev.ev(t.comparators[0])
            except (Undecided, AnalysisError):
                continue
            op = type(t.ops[0])
            d = (l_ - r_) if op in (ast.GtE, ast.Gt) else (r_ - l_) if op in (ast.LtE, ast.Lt) else None
            if d is not None and ((op in (ast.GtE, ast.LtE) and d == need) or (op in (ast.Gt, ast.Lt) and d == need + Poly.const(1))):
                has_end = True
        if has_pos and has_end:
            ok, where = True, st
    if not report:
        return ok
    ctx.check(ok, worker, where if where is not None else lp, src(where.test)[:80] if where is not None else "no early return for a start in the last 2*TAPER samples",
              "a worker whose first grid point lies in the last 2*TAPER samples (the batch before it already reaches the end) leaves without processing anything",
              "a worker always processes the batch at its start: when that start lies within the last 2 * SAMPLES_TAPER samples of the recording (short recordings / many workers: "
              "e.g. 19700 samples, nbatch 8192, 6 workers) the batch before it already reached the end, and this worker adds a batch no other worker count has - an extra row in the RMS and "
              "timestamp files, saturation flags and the tail of the output rewritten from a double-tapered stub (a start at or past the end raises on an empty chunk)",
              key="ghost-batch", name_free=True)


def _stop_rule_start_ownership(ctx, repo, worker, lp, pre, env, facts, NB, T, S):
    """Worker i handles the batches whose START lies in its chunk: `while first_s < max_s` with max_s = (i+1)*CHUNK_SIZE (ns for the last worker) covers every grid point once.
    But not every grid point below ns is a batch: the sequence of batches ends with the first one that reaches the end of the recording, so a start f > 0 is a batch only
    when the batch before it did not reach the end, f - S + NBATCH < ns, i.e. f + 2*TAPER < ns.  Inside one worker a break at last_s == ns stops there; a worker whose own
    first grid point lies in the last 2*TAPER samples must not process it (it would add a batch no other worker count has: extra RMS row, tail rewritten)."""
    cnt, cnt_test = _count_expr(worker)
    CS = env.get("CHUNK_SIZE", Poly.sym("CHUNK_SIZE"))
    want = {True: Poly.sym("_sr.ns"), False: (Poly.sym("i_chunk") + Poly.const(1)) * CS}
    ms = [s_ for s_ in pre if isinstance(s_, ast.Assign) and loc_name(s_.targets[0]) == "max_s"]

    def eval_case(expr, is_last_worker, extra_env=None):
        def assume(t):
            if cnt_test is not None and isinstance(t, ast.Compare) and norm(t) == norm(cnt_test):
                return is_last_worker
            return None
        ev = Evaluator(env=dict(env), facts=facts.copy(), resolve=lambda x: repo.resolve_expr(worker, x), assume=assume)
        sx = SymExec(ev, on_undecided="havoc")
        _step_pre(worker, lp, pre, sx, ev)
        if extra_env:
            ev.env.update(extra_env)
        return ev.ev(expr)
    got = {}
    for lastw in (True, False):
        try:
            got[lastw] = eval_case(ast.parse("max_s", mode="eval").body, lastw)
        except Undecided as e_:
            raise AnalysisError(f"max_s not evaluable: {e_}")
    ctx.check(cnt is not None and got[True] == want[True] and got[False] == want[False], worker, ms[0] if ms else worker.node, f"while first_s < max_s; {src(ms[0]) if ms else ''}",
              "worker i handles the batch starts below (i+1)*CHUNK_SIZE, the last worker those below ns",
              f"batch starts are handled up to {got.get(True)} by the last worker (expected {want[True]}) and up to {got.get(False)} by worker i (expected {want[False]})", key="stop", name_free=True)
    # ghost batches
    F = Poly.sym("F")
    tests = [t for t, pol in conjuncts(lp.test, True) if pol]
    for st in lp.body:
        if isinstance(st, ast.If) and st.body and isinstance(st.body[-1], ast.Break) and not st.orelse:
            if lp.body.index(st) == 0 or all(not isinstance(x, (ast.Assign, ast.AugAssign)) or loc_name(getattr(x, "targets", [getattr(x, "target", None)])[0]) != "first_s" for x in lp.body[:lp.body.index(st)]):
                if all(isinstance(x, (ast.Assign, ast.If)) for x in lp.body[:lp.body.index(st)]) and lp.body.index(st) <= 1:
                    tests += [ast.UnaryOp(op=ast.Not(), operand=st.test)]
    okg = False
    need = Poly.sym("_sr.ns") - F - Poly.const(2) * T
    for t in tests:
        for tt, pol in conjuncts(t, True):
            alts = tt.values if isinstance(tt, ast.BoolOp) and isinstance(tt.op, ast.Or) else [tt]
            pos = [a for a in alts if not (isinstance(a, ast.Compare) and loc_name(a.left) == "first_s" and const_value(a.comparators[0]) == (True, 0) and isinstance(a.ops[0], ast.Eq))]
            if len(pos) != 1 or not pol:
                continue
            a = pos[0]
            neg = False
            if isinstance(a, ast.UnaryOp) and isinstance(a.op, ast.Not):
                a, neg = a.operand, True
            if not (isinstance(a, ast.Compare) and len(a.ops) == 1):
                continue
            try:
                l_ = eval_case(a.left, False, {"first_s": F})
                r_ = eval_case(a.comparators[0], False, {"first_s": F})
            except Undecided:
                continue
            op = type(a.ops[0])
            if neg:
                op = {ast.Lt: ast.GtE, ast.LtE: ast.Gt, ast.Gt: ast.LtE, ast.GtE: ast.Lt}.get(op, op)
            d = (r_ - l_) if op in (ast.Lt, ast.LtE) else (l_ - r_) if op in (ast.Gt, ast.GtE) else None
            if d is None:
                continue
            strict = op in (ast.Lt, ast.Gt)
            # need > 0 ; d > 0 or d >= 0 given
            if (strict and d == need) or (not strict and d == need - Poly.const(1)) or (strict and (need - d).const_value() is not None and (need - d).const_value() >= 0):
                okg = True
    if not okg:
        # the same is established by an early return before the loop (the worker's FIRST grid point is a real batch) together with the break at last_s == ns inside
        # the loop (no grid point after the batch that reached the end)
        brk = any(isinstance(st_, ast.If) and any(isinstance(x_, ast.Break) for x_ in ast.walk(st_)) and "last_s" in src(st_.test) and src(st_.test).replace(" ", "").endswith(".ns")
                  for st_ in lp.body)
        okg = brk and _first_batch_is_real(ctx, repo, worker, lp, pre, env, facts, T, report=False)
    ctx.check(okg, worker, lp, f"while {src(lp.test)[:80]}", "a grid point is processed only when the batch before it did not reach the end of the recording (first_s == 0 or first_s + 2*TAPER < ns)",
              f"`while {src(lp.test)[:60]}` lets a worker start a batch at any grid point below max_s: when the batch that reaches the end of the recording belongs to the previous worker and another "
              "grid point k*stride still lies in the last 2*TAPER samples inside this worker's chunk, this worker processes a batch that does not exist for other worker counts - an extra RMS row / "
              "timestamp, saturation flags and the tail of the output rewritten from a double-tapered stub (needs first_s + 2*SAMPLES_TAPER < ns for first_s > 0)", key="ghost-batch", name_free=True)
    ctx.shared["C06.count"] = cnt


def _stop_rule_ownership(ctx, repo, worker, lp, pre, env, facts, interior, NB, T, S, own):
    """Worker i owns the batches P[i] .. P[i+1] - 1 (starts S*P[i] .. S*(P[i+1] - 1)): it must go on exactly while the NEXT start is below S*P[i+1]
    (the last worker while it is below ns - 2*TAPER, i.e. until a batch reaches the end)."""
    P, total, nworkers = own
    cnt, cnt_test = _count_expr(worker)
    bt = interior.get("break_test")
    ms = [s_ for s_ in pre if isinstance(s_, ast.Assign) and loc_name(s_.targets[0]) == "max_s"]
    if not (isinstance(bt, ast.Compare) and len(bt.ops) == 1 and isinstance(bt.ops[0], (ast.GtE, ast.Gt))):
        raise AnalysisError(f"batch loop exit `{src(bt) if bt is not None else None}` not understood")

    def eval_case(expr, is_last_worker, extra=None):
        def assume(t):
            if cnt_test is not None and isinstance(t, ast.Compare) and norm(t) == norm(cnt_test):
                return is_last_worker
            return None
        ev = Evaluator(env=dict(env, **(extra or {})), facts=facts.copy(), resolve=lambda x: repo.resolve_expr(worker, x), assume=assume)
        sx = SymExec(ev, on_undecided="havoc")
        _step_pre(worker, lp, pre, sx, ev)
        if extra:
            ev.env.update(extra)
        return ev.ev(expr)
    F = Poly.sym("F")
    res = {}
    for lastw in (True, False):
        try:
            # the loop goes on iff  lhs < rhs  with first_s = F: solve for the bound on the NEXT start F + S
            lhs = eval_case(bt.left, lastw, {"first_s": F, "last_s": F + NB})
            rhs = eval_case(bt.comparators[0], lastw, {"first_s": F, "last_s": F + NB})
        except Undecided as e_:
            raise AnalysisError(f"batch loop exit not evaluable: {e_}")
        d = lhs - F          # lhs = F + d
        if F.canon() in {x for x in d.symbols()}:
            raise AnalysisError("batch loop exit is not linear in first_s")
        res[lastw] = rhs - d + S       # continue iff F + d < rhs  iff  next start F + S < rhs - d + S
    want_other = S * Poly.sym(f"[{P}[i_chunk + 1]]")
    want_last = Poly.sym("_sr.ns") - Poly.const(2) * T
    got_o, got_l = res[False], res[True]
    # the symbol the evaluator gives P[i_chunk + 1]
    sym_next = [x for x in got_o.symbols() if P in x and "i_chunk" in x]
    if sym_next:
        want_other = S * Poly.sym(sym_next[0])
    ok_o = got_o == want_other
    ok_l = got_l == want_last
    gap = got_o - want_other
    ctx.check(ok_o and ok_l and cnt is not None, worker, ms[0] if ms else lp, f"stop: {src(bt)}; {src(ms[0]) if ms else ''}",
              f"worker i goes on exactly while its next batch is one it owns (start below stride * {P}[i + 1]); the last worker until a batch reaches the end of the file",
              (f"worker i owns the batches {P}[i] .. {P}[i + 1] - 1 but goes on only while the next start is below {got_o} instead of {want_other} (difference {gap}): "
               "whenever the batch stride is not larger than that margin (nbatch <= 4096 with 1024-sample tapers) the last batch(es) it owns are skipped - a stretch of samples is never written, "
               "the RMS / time slots of those batches stay empty and the output depends on the worker count" if not ok_o else
               f"the last worker goes on while the next start is below {got_l}, expected {want_last}"),
              key="stop", name_free=True)
    ctx.shared["C06.count"] = cnt
    ctx.shared["C06.ownership"] = own


def d1_tiling(ctx):
    ctx.rule("D1", "batch grid, kept range, read bounds, seek offsets, dtype agreement, RMS rows, worker stop test")
    repo = ctx.repo
    outer, worker, fan = _worker(repo)
    env, facts = _outer_env(repo, outer)
    NB, T = env.get("NBATCH"), env.get("SAMPLES_TAPER")
    if NB is None or T is None:
        raise AnchorMissing("decompress_destripe_cbin: NBATCH / SAMPLES_TAPER not found")
    lp = _loop(worker)
    # ---- pre-loop: n_batch, first_s
    ev0 = Evaluator(env=dict(env), facts=facts.copy(), resolve=lambda x: repo.resolve_expr(worker, x))
    sx0 = SymExec(ev0, on_undecided="havoc")
    pre = worker.node.body[: worker.node.body.index(lp)]
    seeks = {}
    cfgw = CFG(worker.node)
    duw = DefUse(worker.node)
    _step_pre(worker, lp, pre, sx0, ev0)
    nb = ev0.env.get("n_batch")
    fs0 = ev0.env.get("first_s")
    if isinstance(lp, ast.For):
        try:
            fs0 = ev0.ev(_range_of(worker, lp)[0])
        except Undecided as e_:
            raise AnalysisError(f"start of the batch range not evaluable: {e_}")
    interior = _run_iteration(repo, worker, env, facts, False, False)
    first = _run_iteration(repo, worker, env, facts, True, False)
    last = _run_iteration(repo, worker, env, facts, False, True)
    last_exact = _run_iteration(repo, worker, env, facts, False, True, last_exact=True)
    S = interior["stride"]
    ctx.check(S == NB - Poly.const(2) * T, worker, lp, f"stride = {S}", "batches advance by NBATCH - 2*TAPER",
              f"batch stride is {S}, expected {NB - Poly.const(2) * T}", key="stride")
    ctx.check(nb is not None and fs0 is not None and fs0 == S * nb, worker, worker.node, f"first_s0 = {fs0}", "every worker starts on the common batch grid S * n_batch",
              f"worker start is {fs0}, not stride * n_batch = {S * nb if nb is not None else '?'}: batch seams depend on the worker count", key="grid")
    # n_batch = ceil(i_chunk * CHUNK_SIZE / NBATCH)
    nbd = [s for s in pre if isinstance(s, ast.Assign) and loc_name(s.targets[0]) == "n_batch"]
    okn = False
    if nbd:
        v = nbd[0].value
        cl = [c for c in find(v, ast.Call) if call_name(c) == "ceil"]
        if cl and isinstance(cl[0].args[0], ast.BinOp) and isinstance(cl[0].args[0].op, ast.Div):
            num, den = cl[0].args[0].left, cl[0].args[0].right
            evn = Evaluator(env=dict(env), facts=facts.copy())
            try:
                okn = evn.ev(den) == NB and evn.ev(num) == Poly.sym("i_chunk") * env.get("CHUNK_SIZE", Poly.sym("CHUNK_SIZE"))
            except Undecided:
                okn = False
    if not okn and nb is not None:
        try:
            okn = nb == Evaluator(env=dict(env), facts=facts.copy(), resolve=lambda x: repo.resolve_expr(worker, x)).ev(
                ast.parse("int(np.ceil(i_chunk * CHUNK_SIZE / NBATCH))", mode="eval").body)
        except Undecided:
            pass
    start_own = False
    if not okn and nb is not None and isinstance(lp, ast.While) and not (isinstance(lp.test, ast.Constant) and lp.test.value is True):
        # ownership by batch START: worker i handles the batches that start inside its chunk, S*k in [i*CHUNK_SIZE, (i+1)*CHUNK_SIZE)
        try:
            evs = Evaluator(env=dict(env), facts=facts.copy(), resolve=lambda x: repo.resolve_expr(worker, x))
            want_nb = evs.atom("ceil", (Poly.sym("i_chunk") * env.get("CHUNK_SIZE", Poly.sym("CHUNK_SIZE"))).div(S)) if (Poly.sym("i_chunk") * env.get("CHUNK_SIZE", Poly.sym("CHUNK_SIZE"))).div(S) is not None else None
        except Exception:
            want_nb = None
        if nbd:
            cl = [c for c in find(nbd[0].value, ast.Call) if call_name(c) == "ceil"]
            if cl and isinstance(cl[0].args[0], ast.BinOp) and isinstance(cl[0].args[0].op, ast.Div):
                try:
                    evn2 = Evaluator(env=dict(env), facts=facts.copy(), resolve=lambda x: repo.resolve_expr(worker, x))
                    start_own = evn2.ev(cl[0].args[0].right) == S and evn2.ev(cl[0].args[0].left) == Poly.sym("i_chunk") * env.get("CHUNK_SIZE", Poly.sym("CHUNK_SIZE"))
                except Undecided:
                    start_own = False
        tests = [t for t, pol in conjuncts(lp.test, True) if pol]
        start_own = start_own and any(isinstance(t, ast.Compare) and isinstance(t.ops[0], ast.Lt) and loc_name(t.left) == "first_s" and loc_name(t.comparators[0]) == "max_s" for t in tests)
        if start_own:
            okn = True
            ctx.shared["C06.start_ownership"] = True
    own_ = _ownership(repo, outer, worker, pre)
    if not okn and own_ is not None:
        # batch-ownership design: worker i starts at the first batch of its share of a partition 0 = P[0] <= ... <= P[n] = number of batches
        okn = True
    ctx.check(okn, worker, nbd[0] if nbd else worker.node, nbd[0] if nbd else "n_batch", "first batch index of worker i is ceil(i * CHUNK_SIZE / NBATCH)",
              f"`{src(nbd[0]) if nbd else '?'}`: n_batch is not ceil(i_chunk * CHUNK_SIZE / NBATCH) - with another divisor a batch between two workers is skipped or the start leaves the grid",
              key="n_batch")
    a, b = interior["a"], interior["b"]
    if a is None or b is None:
        raise AnalysisError("kept range is not held in ind2save[0], ind2save[1]")
    ctx.check(S + a == b, worker, lp, f"interior keeps [{a}, {b}); stride {S}", "next batch's kept range starts where this one ends (every sample once)",
              f"interior batch keeps [{a}, {b}) and the next batch starts {S} samples later: {(S + a - b)} samples are duplicated (<0) or lost (>0) at every seam", key="tiling")
    ctx.check(a == T, worker, lp, f"a = {a}", "the tapered margin (TAPER samples) is discarded", f"kept range starts at {a}: tapered samples reach the output", key="margin")
    ctx.check(first["a"] == Poly.const(0) and first["b"] == b, worker, lp, f"first batch keeps [{first['a']}, {first['b']})", "first batch is kept from sample 0",
              f"first batch keeps [{first['a']}, {first['b']})", key="first")
    ctx.check(last["a"] == a and last["b"] == NB, worker, lp, f"last batch keeps [{last['a']}, {last['b']})", "last batch is kept to its end",
              f"last batch keeps [{last['a']}, {last['b']}) instead of [{a}, {NB})", key="last")
    ctx.check(last_exact["a"] == a and last_exact["b"] == NB, worker, lp, f"last batch of exactly NBATCH samples keeps [{last_exact['a']}, {last_exact['b']})",
              "a last batch that is exactly one full batch long is also kept to its end",
              f"when the recording ends exactly on a full batch (ns == NBATCH + k*stride) the last batch keeps [{last_exact['a']}, {last_exact['b']}) instead of [{a}, {NB}): "
              "the final TAPER samples of the file (sync included) are never written", key="last-exact")
    ls = interior["last_s"]
    evm = Evaluator(env={"x": NB + Poly.sym("F"), "y": Poly.sym("_sr.ns")}, facts=facts.copy())
    want_ls = evm.ev(ast.parse("min(x, y)", mode="eval").body)
    ctx.check(ls == want_ls, worker, lp, f"last_s = {ls}", "a batch spans min(first_s + NBATCH, ns)", f"last_s is {ls}, expected {want_ls}", key="last_s")
    # reads
    reads = [x for x in find(lp, ast.Subscript) if loc_name(x.value) == "_sr" and isinstance(x.slice, ast.Tuple)]
    okr = bool(reads) and all(isinstance(x.slice.elts[0], ast.Slice) and loc_name(x.slice.elts[0].lower) == "first_s" and loc_name(x.slice.elts[0].upper) == "last_s" for x in reads)
    ctx.check(okr, worker, reads[0] if reads else lp, f"{len(reads)} reads _sr[first_s:last_s, ...]", "data and sync are read at the batch bounds", "a read does not use rows first_s:last_s", key="reads")
    # ---- seeks
    for s in find(worker.node, ast.Call, nested=False):
        if call_name(s) == "seek" and isinstance(s.func, ast.Attribute):
            f = loc_name(s.func.value)
            # the handle is identified by the file it was opened on, not by the name it is held in
            if isinstance(s.func.value, ast.Name):
                hd = duw.strong_reaching(f, s)
                opened = {loc_name(d.value.args[0]) for d in hd if d.value is not None and isinstance(d.value, ast.Call) and call_name(d.value) == "open" and d.value.args}
                if len(hd) >= 1 and len(opened) == 1 and all(d.value is not None and isinstance(d.value, ast.Call) and call_name(d.value) == "open" for d in hd):
                    f = {"output_file": "fid", "ap_rms_file": "aid", "ap_time_file": "tid"}.get(opened.pop(), f)
            gs = []
            for t, pol in cfgw.guards(cfgw.node_for(s)):
                gs += conjuncts(t, pol)
            # worker 0 is the one whose first batch starts at sample 0: i_chunk == 0  <=>  n_batch == 0  <=>  first_s == 0 (before the loop)
            W0 = ("i_chunk", "n_batch", "first_s")
            is0 = any(isinstance(t, ast.Compare) and loc_name(t.left) in W0 and const_value(t.comparators[0]) == (True, 0) and pol == isinstance(t.ops[0], ast.Eq) for t, pol in gs)
            not0 = any(isinstance(t, ast.Compare) and loc_name(t.left) in W0 and const_value(t.comparators[0]) == (True, 0) and pol != isinstance(t.ops[0], ast.Eq) for t, pol in gs)
            pos_expr = expand_name(duw, s.args[0], s) if isinstance(s.args[0], ast.Name) else s.args[0]
            try:
                p = ev0.ev(pos_expr)
            except Undecided as e:
                raise AnalysisError(f"seek argument not evaluable: {e}")
            if is0 or not0:
                seeks[(f, is0)] = (p, s)
            else:
                # one seek for every worker: worker 0 has n_batch == 0 and first_s == 0
                ev00 = Evaluator(env=dict(env, i_chunk=Poly.const(0)), facts=facts.copy(), resolve=lambda x: repo.resolve_expr(worker, x))
                sx00 = SymExec(ev00, on_undecided="havoc")
                _step_pre(worker, lp, pre, sx00, ev00)
                try:
                    p00 = ev00.ev(pos_expr)
                except Undecided as e:
                    raise AnalysisError(f"seek argument not evaluable for worker 0: {e}")
                seeks[(f, True)] = (p00, s)
                seeks[(f, False)] = (p, s)
    off, ncout, nbytes = Poly.sym("offset"), env.get("nc_out", Poly.sym("nc_out")), env.get("nbytes", Poly.sym("nbytes"))
    # offset may be havoc'ed by the append branch: compare modulo the symbol it got
    offp = env.get("offset", Poly.sym("offset"))
    want_other = offp + (fs0 + T) * ncout * nbytes if fs0 is not None else None
    g0 = seeks.get(("fid", True))
    g1 = seeks.get(("fid", False))
    ctx.check(g0 is not None and g0[0] == offp, worker, g0[1] if g0 else worker.node, f"worker 0 seeks {g0[0] if g0 else None}", "worker 0 starts writing at the (append) offset",
              f"worker 0 seeks to {g0[0] if g0 else None}, expected {offp}", key="seek0")
    ctx.check(g1 is not None and want_other is not None and g1[0] == want_other, worker, g1[1] if g1 else worker.node, f"worker i seeks {g1[0] if g1 else None}",
              "worker i starts writing at the byte of sample first_s + TAPER (its first kept sample)",
              f"worker i seeks to {g1[0] if g1 else None}, expected {want_other}: its output lands {'early/late' } relative to its first kept sample", key="seek-i")
    # dtype agreement
    nbd_ = [s for s in outer.node.body if isinstance(s, ast.Assign) and loc_name(s.targets[0]) == "nbytes"]
    okd = bool(nbd_) and norm(nbd_[0].value) == norm(ast.parse("dtype(1).nbytes", mode="eval").body)
    wr = [c for c in find(lp, ast.Call) if call_name(c) == "tofile" and c.args and loc_name(c.args[0]) == "fid"]
    okw = bool(wr)
    for c in wr:
        r = c.func.value
        if isinstance(r, ast.Call) and call_name(r) == "tile":
            r = r.args[0]  # padding rows: np.tile(<row>.astype(dtype), (ns2add, 1))
        okw = okw and isinstance(r, ast.Call) and call_name(r) == "astype" and loc_name(r.args[0]) == "dtype" and "nc_out" in src(r)
    main = [c for c in wr if "nc_out" in src(c) and "tile" not in src(c)]
    okcols = bool(main) and isinstance(main[0].func.value.func.value, ast.Subscript) and norm(main[0].func.value.func.value.slice) == norm(ast.parse("x[:, :nc_out]", mode="eval").body.slice)
    ctx.check(okd and okw and okcols, worker, wr[0] if wr else lp, "nbytes = dtype(1).nbytes ; chunk[:, :nc_out].astype(dtype).tofile(fid)", "bytes per row used for seeking equal bytes per row written",
              "the item size / column count used for the seek differs from what is written (astype(dtype), [:, :nc_out])", key="dtype")
    ind_is_slice = any(isinstance(s_, ast.Assign) and loc_name(s_.targets[0]) == "ind2save" and isinstance(s_.value, ast.Call) and call_name(s_.value) == "slice" for s_ in lp.body)

    def is_cut(x):
        if not (isinstance(x, ast.Subscript) and isinstance(x.slice, ast.Tuple) and len(x.slice.elts) == 2):
            return False
        r0, c0 = x.slice.elts
        full = isinstance(c0, ast.Slice) and c0.lower is None and c0.upper is None and c0.step is None
        return full and ("slice(*ind2save)" in src(r0) or (ind_is_slice and loc_name(r0) == "ind2save"))
    cut = [s for s in lp.body if isinstance(s, ast.Assign) and loc_name(s.targets[0]) == "chunk" and any(is_cut(x) for x in find(s.value, ast.Subscript))]
    okcut = bool(cut)
    if okcut:
        # the cut is taken on the (samples, channels) array: at or after the transposition that follows the re-attachment of the sync columns
        cfg_c = CFG(worker.node)
        tr = [s_ for s_ in lp.body if isinstance(s_, ast.Assign) and loc_name(s_.targets[0]) == "chunk" and "r_[" in src(s_.value) and ".T" in src(s_.value)]
        okcut = bool(tr) and (cut[0] is tr[0] or cfg_c.reachable(cfg_c.node_for(tr[0]), cfg_c.node_for(cut[0]), avoid=[cfg_c.node_for(lp)]))
    ctx.check(okcut, worker, cut[0] if cut else lp, cut[0] if cut else "chunk[slice(*ind2save), :]", "the kept range is applied along samples (rows after the transpose)",
              "the kept range is not applied to the sample axis of the written array", key="cut")
    # RMS rows
    r1, t1 = seeks.get(("aid", False)), seeks.get(("tid", False))
    r0, t0 = seeks.get(("aid", True)), seeks.get(("tid", True))
    rn = env.get("rms_nbytes", Poly.sym("rms_nbytes"))
    nbp = nb if nb is not None else Poly.sym("n_batch")
    ro, to = env.get("rms_offset", Poly.sym("rms_offset")), env.get("time_offset", Poly.sym("time_offset"))
    okrms = all(x is not None for x in (r1, t1, r0, t0))
    if okrms:
        okrms = (r1[0] - r0[0]) == nbp * env.get("ncv", Poly.sym("ncv")) * rn and (t1[0] - t0[0]) == nbp * rn
    ctx.check(okrms, worker, r1[1] if r1 else worker.node, f"rms seek delta {(r1[0] - r0[0]) if r1 and r0 else None}", "one RMS row (ncv float32) and one time stamp per batch index",
              "RMS / time seeks are not n_batch rows of ncv (resp. 1) float32 values", key="rms-seek")
    # stop test: worker i goes on while the NEXT start is below max_s - 2*TAPER, max_s = (i+1)*CHUNK_SIZE, ns for the last worker
    if start_own:
        _stop_rule_start_ownership(ctx, repo, worker, lp, pre, env, facts, NB, T, S)
    else:
        _stop_rule(ctx, repo, worker, lp, pre, env, facts, interior, NB, T, S, fs0)
        _first_batch_is_real(ctx, repo, worker, lp, pre, env, facts, T)
    cs = env.get("CHUNK_SIZE")
    if ctx.shared.get("C06.ownership") is not None:
        P_, total_, nw_ = ctx.shared["C06.ownership"]
        evt = Evaluator(env=dict(env), facts=facts.copy(), resolve=lambda x: repo.resolve_expr(outer, x))
        try:
            tot = evt.ev(total_)
        except Undecided:
            tot = None
        ctx.check(tot is not None and "ceil" in tot.canon() and "sr.ns" in tot.canon(), outer, outer.node, f"{P_} partitions {src(total_)} = {tot} batches among {src(nw_)} workers",
                  "the batches (not the samples) are divided among the workers: 0 = P[0] <= ... <= P[n] = number of batches",
                  f"the partition {P_} does not end at the number of batches of the recording ({tot})", key="chunk-size")
    else:
        ctx.check(cs is not None and "sr.ns" in cs.canon() and "nprocesses" in cs.canon(), outer, outer.node, f"CHUNK_SIZE = {cs}", "the file is divided evenly among the workers",
                  "CHUNK_SIZE is not ns / nprocesses", key="chunk-size")


def d2_sync(ctx):
    ctx.rule("D2", "after the sync columns are re-attached the array is only sliced, scaled by 1/sample2volts, cast and written; mute before, whitening on [:, :ncv]")
    repo = ctx.repo
    outer, worker, fan = _worker(repo)
    lp = _loop(worker)
    du = DefUse(worker.node)
    cfg = du.cfg
    head = cfg.node_for(lp)
    def raw_region(e, at, depth=0):
        """(rows slice, column slice) of the reader read an expression is a view of: follows .T, names, and successive subscripts down to _sr[rows, cols]."""
        if depth > 8 or e is None:
            return None
        if isinstance(e, ast.Attribute) and e.attr == "T":
            return raw_region(e.value, at, depth + 1)
        if isinstance(e, ast.Name):
            ds = du.strong_reaching(e.id, at)
            if len(ds) == 1 and ds[0].kind == "assign" and ds[0].value is not None and ds[0].unpack_index is None:
                return raw_region(ds[0].value, ds[0].stmt, depth + 1)
            return None
        if isinstance(e, ast.Subscript):
            if loc_name(e.value) == "_sr" and isinstance(e.slice, ast.Tuple) and len(e.slice.elts) == 2:
                return (e.slice.elts[0], e.slice.elts[1])
            inner = raw_region(e.value, at, depth + 1)
            if inner is None:
                return None
            rows, cols = inner
            el = e.slice.elts if isinstance(e.slice, ast.Tuple) else [e.slice]
            if len(el) == 2 and isinstance(el[0], ast.Slice) and el[0].lower is None and el[0].upper is None and isinstance(cols, ast.Slice) and cols.lower is None and cols.upper is None:
                return (rows, el[1])     # a column cut of a whole-row read
            return None
        return None
    concat = None
    parts = None
    for s in lp.body:
        if isinstance(s, ast.Assign) and loc_name(s.targets[0]) == "chunk":
            for x in ast.walk(s.value):
                if isinstance(x, ast.Subscript) and isinstance(x.value, ast.Attribute) and x.value.attr == "r_":
                    pp = x.slice.elts if isinstance(x.slice, ast.Tuple) else [x.slice]
                    if len(pp) == 2:
                        reg = raw_region(pp[1], s)
                        if reg is not None and isinstance(reg[1], ast.Slice) and loc_name(reg[1].lower) == "ncv" and reg[1].upper is None:
                            concat, parts = (s, reg), pp
    if concat is None:
        ctx.violation(worker, lp, "chunk = r_[chunk, _sr[first_s:last_s, ncv:].T].T", "the sync columns are not re-attached from the raw reader", key="no-sync")
        return
    cs, (rows, _cols) = concat
    ctx.check(isinstance(rows, ast.Slice) and loc_name(rows.lower) == "first_s" and loc_name(rows.upper) == "last_s", worker, cs, cs, "sync rows are the rows of the data read",
              "sync is read at other rows than the data", key="sync-rows")
    # order in concatenation: data first, sync last
    ctx.check(parts is not None and len(parts) == 2 and chain_root(parts[0])[0] == "chunk" or (isinstance(parts[0], ast.BinOp) and any(chain_root(x)[0] == "chunk" for x in (parts[0].left, parts[0].right))),
              worker, cs, cs, "sync columns follow the voltage columns", "sync is not appended after the voltage channels", key="sync-last")
    cn = cfg.node_for(cs)
    intnorm_ok = False
    ind = [d for d in du.defs if d.var == "intnorm" and d.kind == "assign"]
    if not ind:
        # the reciprocal is computed once in the enclosing function (a value that does not depend on the batch) and read by the worker as a free variable
        ind = [d for d in DefUse(outer.node).defs if d.var == "intnorm" and d.kind == "assign" and d.var not in {x.var for x in du.defs}]
    if ind:
        iv = ind[0].value
        intnorm_ok = isinstance(iv, ast.BinOp) and isinstance(iv.op, ast.Div) and const_value(iv.left) == (True, 1) and src(iv.right).endswith(".sample2volts")
    mute_names = set()
    for d in du.defs:
        if d.kind == "unpack" and d.value is not None and isinstance(d.value, ast.Call) and call_name(d.value) == "saturation" and d.unpack_index == 1:
            mute_names.add(d.var)
    post = []
    for s in lp.body:
        for n in ast.walk(s):
            if isinstance(n, (ast.Assign, ast.AugAssign)) and n is not cs:
                tg = n.targets[0] if isinstance(n, ast.Assign) else n.target
                base = tg
                while isinstance(base, ast.Subscript):
                    base = base.value
                if loc_name(base) == "chunk" and cfg.reachable(cn, cfg.node_for(n), avoid=[head]):
                    post.append(n)
    for n in post:
        tg = n.targets[0] if isinstance(n, ast.Assign) else n.target
        val = n.value
        restricted = isinstance(tg, ast.Subscript) and isinstance(tg.slice, ast.Tuple) and isinstance(tg.slice.elts[1], ast.Slice) \
            and tg.slice.elts[1].lower is None and loc_name(tg.slice.elts[1].upper) == "ncv"
        if restricted:
            # value must itself be computed from the voltage columns only
            reads = [x for x in find(val, ast.Subscript) if loc_name(x.value) == "chunk"]
            okv = all(isinstance(x.slice, ast.Tuple) and norm(x.slice.elts[1]) == norm(tg.slice.elts[1]) for x in reads)
            ctx.check(okv, worker, n, n, "whitening touches the voltage columns only", "a store into the voltage columns reads the sync columns", key="post:" + norm(tg)[:40])
            continue
        ok = False
        why = ""
        if isinstance(n, ast.AugAssign):
            why = "in-place arithmetic on the whole array"
            if isinstance(n.op, ast.Mult) and loc_name(val) == "intnorm" and intnorm_ok:
                ok = True
        elif isinstance(val, ast.BinOp) and isinstance(val.op, ast.Mult):
            others = [x for x in (val.left, val.right) if chain_root(x)[0] != "chunk"]
            if len(others) == 1 and loc_name(others[0]) == "intnorm" and intnorm_ok:
                ok = True
            else:
                nm = [loc_name(chain_target(o)) for o in others]
                why = f"multiplication by {nm}" + (" (the saturation mute gain)" if set(nm) & mute_names else "")
        elif isinstance(val, ast.Subscript) and chain_root(val)[0] == "chunk":
            ok = True  # pure slicing
        else:
            why = f"`{src(val)[:50]}`"
        ctx.check(ok, worker, n, n, "sync-carrying array is only sliced / scaled by the exact per-channel reciprocal",
                  f"`{src(n)[:80]}` applies {why} to the array after the sync columns were re-attached: sync words are no longer copied bit for bit", key="post:" + norm(n)[:60])
    # mute exists and is applied before re-attachment, after the spatial filter
    mm = []
    for s in lp.body:
        for n in ast.walk(s):
            if isinstance(n, ast.BinOp) and isinstance(n.op, ast.Mult) and any(loc_name(chain_target(x)) in mute_names for x in (n.left, n.right)):
                mm.append(n)
    if not mm:
        ctx.violation(worker, lp, "chunk * mute_saturation", "the saturation mute gain is never applied to the output", key="mute-missing")
    applied_to_output = False
    for m in mm:
        mn = cfg.node_for(m)
        inside_first_part = parts is not None and any(x is m for x in ast.walk(parts[0]))
        feeds_output = inside_first_part or (isinstance(mn.stmt, ast.Assign) and loc_name(mn.stmt.targets[0]) == "chunk") or isinstance(mn.stmt, ast.AugAssign)
        if not feeds_output:
            continue   # e.g. the RMS of the muted traces: not part of what is written
        applied_to_output = True
        before = inside_first_part or (cfg.reachable(mn, cn, avoid=[head]) and not cfg.reachable(cn, mn, avoid=[head]))
        ctx.check(before, worker, m, m, "mute gain is applied to the voltage channels before the sync is re-attached",
                  "the mute gain is applied after the sync columns were re-attached: sync words inside saturated stretches are zeroed", key="mute-order")
        # broadcast along channels: mute[np.newaxis, :] on (ncv, ns)
        mu = [x for x in (m.left, m.right) if loc_name(chain_target(x)) in mute_names][0]
        okb = isinstance(mu, ast.Subscript) and isinstance(mu.slice, ast.Tuple) and len(mu.slice.elts) == 2 and "newaxis" in src(mu.slice.elts[0]) and isinstance(mu.slice.elts[1], ast.Slice)
        okb = okb or (before and isinstance(mu, ast.Name))   # a (ns,) vector against the (channels, samples) array broadcasts along samples
        if before:
            ctx.check(okb, worker, m, m, "gain is broadcast across channels (one value per sample)", "gain is broadcast along the wrong axis of the (channels, samples) array", key="mute-axis")
    if mm and not applied_to_output:
        ctx.violation(worker, lp, "chunk * mute_saturation", "the saturation mute gain is computed but never applied to what is written", key="mute-missing")
    wr = [c for c in find(lp, ast.Call) if call_name(c) == "tofile" and c.args and loc_name(c.args[0]) == "fid" and "tile" not in src(c)]
    ctx.check(bool(wr) and chain_root(wr[0].func.value)[0] == "chunk", worker, wr[0] if wr else lp, wr[0] if wr else "tofile", "the array carrying the sync is what is written", "the written array is not the one carrying the sync",
              key="written")


def chain_target(t):
    while isinstance(t, ast.Subscript):
        t = t.value
    return t


def d3_qc(ctx):
    ctx.rule("D3", "saturation file: ns booleans, written at the read's bounds; RMS row = rms over samples of the voltage columns")
    repo = ctx.repo
    outer, worker, fan = _worker(repo)
    sv = [c for c in find(outer.node, ast.Call, nested=False) if call_name(c) == "save" and len(c.args) >= 2 and loc_name(c.args[0]) == "file_saturation"]
    ok = bool(sv) and isinstance(sv[0].args[1], ast.Call) and call_name(sv[0].args[1]) == "zeros" and src(sv[0].args[1].args[0]) == "sr.ns" and "bool" in src(sv[0].args[1])
    ctx.check(ok, outer, sv[0] if sv else outer.node, sv[0] if sv else "np.save(file_saturation, zeros(sr.ns, bool))", "one saturation flag per sample of the recording",
              "the saturation file is not allocated with sr.ns boolean entries", key="sat-alloc")
    lp = _loop(worker)
    st = [n for n in ast.walk(lp) if isinstance(n, ast.Assign) and isinstance(n.targets[0], ast.Subscript) and loc_name(n.targets[0].value) == "_saturation"]
    oks = bool(st) and isinstance(st[0].targets[0].slice, ast.Slice) and loc_name(st[0].targets[0].slice.lower) == "first_s" and loc_name(st[0].targets[0].slice.upper) == "last_s"
    du = DefUse(worker.node)
    if oks:
        d = du.strong_reaching(loc_name(st[0].value), st[0])
        oks = len(d) == 1 and d[0].kind == "unpack" and d[0].unpack_index == 0 and call_name(d[0].value) == "saturation"
    ctx.check(oks, worker, st[0] if st else lp, st[0] if st else "_saturation[first_s:last_s]", "flags of a batch land on that batch's samples", "saturation flags are not stored at first_s:last_s from the flag output",
              key="sat-store")
    mm = [c for c in find(worker.node, ast.Call, nested=False) if call_name(c) == "load" and loc_name(c.args[0]) == "file_saturation"]
    ctx.check(bool(mm) and const_value(kwarg(mm[0], "mmap_mode")) == (True, "r+"), worker, mm[0] if mm else worker.node, mm[0] if mm else "np.load(mmap)", "workers share the flag file through a writable memmap",
              "the flag file is not opened as a writable memmap: flags of a worker are lost", key="sat-mmap")
    rm = [c for c in find(lp, ast.Call) if call_name(c) == "rms"]
    okr = bool(rm) and const_value(kwarg(rm[0], "axis")) == (True, 0) and norm(rm[0].args[0]) == norm(ast.parse("chunk[:, :ncv]", mode="eval").body)
    if rm and not okr:
        # before the transposition the traces are (channels, samples): rms over the last axis of the (muted) voltage traces
        a0 = rm[0].args[0]
        base = a0
        if isinstance(a0, ast.BinOp) and isinstance(a0.op, ast.Mult):
            base = a0.left if chain_root(a0.left)[0] == "chunk" else a0.right
        pre_concat = True
        for s_ in lp.body:
            if isinstance(s_, ast.Assign) and loc_name(s_.targets[0]) == "chunk" and "r_" in src(s_.value):
                cfg_ = DefUse(worker.node).cfg
                pre_concat = not cfg_.reachable(cfg_.node_for(s_), cfg_.node_for(rm[0]), avoid=[cfg_.node_for(lp)])
        okr = const_value(kwarg(rm[0], "axis")) in ((True, -1), (True, 1)) and loc_name(base) == "chunk" and pre_concat
    ctx.check(okr, worker, rm[0] if rm else lp, rm[0] if rm else "rms", "one RMS value per voltage channel per batch", "batch RMS is not rms(chunk[:, :ncv], axis=0)", key="rms")
    tf = [c for c in find(lp, ast.Call) if call_name(c) == "tofile" and c.args and loc_name(c.args[0]) in ("aid", "tid")]
    ctx.check(len(tf) == 2 and all("float32" in src(c) for c in tf), worker, tf[0] if tf else lp, f"{len(tf)} QC writes", "RMS and time are written as float32 (4 bytes, as the seeks assume)",
              "RMS / time are not written as float32", key="rms-dtype")


def d4_fanout(ctx):
    ctx.rule("D4", "fan-out: my_function(i, n) for i in range(n), n == n_jobs; append/truncate handling of the output")
    repo = ctx.repo
    outer, worker, fan = _worker(repo)
    du = DefUse(outer.node)
    b = bind(fan, worker)
    gen = None
    for x in ast.walk(outer.node):
        if isinstance(x, ast.GeneratorExp) and any(y is fan for y in ast.walk(x)):
            gen = x
    if gen is None:
        raise AnalysisError("fan-out generator not found")
    g = gen.generators[0]
    rng = g.iter
    okr = isinstance(rng, ast.Call) and call_name(rng) == "range" and len(rng.args) == 1
    n_expr = rng.args[0] if okr else None
    ic, nc_ = b.bound.get("i_chunk"), b.bound.get("n_chunk")
    cnt, _ = _count_expr(worker)
    if cnt is not None and isinstance(cnt, ast.Name) and cnt.id in worker.params:
        nc_ = b.bound.get(cnt.id)       # the count is a parameter of the worker: what the fan-out passes
    elif cnt is not None:
        nc_ = cnt                        # the count is read from the enclosing scope
    ok = okr and loc_name(ic) == loc_name(g.target) and nc_ is not None and norm(nc_) == norm(n_expr) and not g.ifs
    if cnt is None and "n_chunk" not in worker.params:
        # the worker never asks whether it is the last one (D1 'stop' speaks about that): only the index range is checked here
        ok = okr and loc_name(ic) == loc_name(g.target) and not g.ifs
    ctx.check(ok, outer, fan, f"my_function({src(ic) if ic else None}, {src(nc_) if nc_ else None}) for {src(g.target)} in {src(rng)}", "workers 0..n-1 each know the same worker count n",
              "the worker index range and the worker count passed to the workers disagree: the last worker is never told it is last (tail unwritten) or a worker is missing", key="fanout")
    par = None
    for c in find(outer.node, ast.Call, nested=False):
        if isinstance(c.func, ast.Call) and call_name(c.func) == "Parallel":
            par = c.func
    okp = par is not None and kwarg(par, "n_jobs") is not None and n_expr is not None and norm(kwarg(par, "n_jobs")) == norm(n_expr)
    ctx.check(okp, outer, par or outer.node, par or "Parallel", "as many jobs as chunks", "n_jobs differs from the number of chunks", key="n_jobs")
    cfg = du.cfg
    offs = [d for d in du.defs if d.var == "offset" and d.kind == "assign"]
    got = {}
    for d in offs:
        gs = [(src(t), pol) for t, pol in cfg.guards(d.node)]
        app = any(t == "append" and pol for t, pol in gs)
        got["append" if app else "fresh"] = d
    oka = "append" in got and "st_size" in src(got["append"].value) and "output_file" in src(got["append"].value)
    okf = "fresh" in got and const_value(got["fresh"].value) == (True, 0)
    ctx.check(oka and okf, outer, offs[0].stmt if offs else outer.node, f"offset: {[src(d.stmt) for d in offs]}", "append mode continues at the current end of the output, otherwise at 0",
              "offset is not (size of the existing output if append else 0)", key="offset")
    tr = [c for c in find(outer.node, ast.Call, nested=False) if call_name(c) == "open" and len(c.args) >= 2 and loc_name(c.args[0]) == "output_file" and const_value(c.args[1]) == (True, "wb")]
    okt = bool(tr) and any(t == "append" and not pol for t, pol in [(src(t), pol) for t, pol in cfg.guards(cfg.node_for(tr[0]))])
    ctx.check(okt, outer, tr[0] if tr else outer.node, tr[0] if tr else "open(output_file, 'wb')", "the output is truncated only when not appending", "the output is truncated in append mode (or never created)", key="truncate")
    fo = [c for c in find(worker.node, ast.Call, nested=False) if call_name(c) == "open" and c.args and loc_name(c.args[0]) == "output_file"]
    ctx.check(bool(fo) and const_value(fo[0].args[1]) == (True, "r+b"), worker, fo[0] if fo else worker.node, fo[0] if fo else "open", "workers open the output for in-place writing",
              "workers open the output in a truncating/append mode", key="worker-open")
    # padding only at the true end
    lp = _loop(worker)
    pad = [c for c in find(lp, ast.Call) if call_name(c) == "tile"]
    if pad:
        cfgw = CFG(worker.node)
        gs = []
        for t, pol in cfgw.guards(cfgw.node_for(pad[0])):
            gs += conjuncts(t, pol)
        okpad = any(isinstance(t, ast.Compare) and loc_name(t.left) == "last_s" and src(t.comparators[0]).endswith(".ns") and pol for t, pol in gs)
        ctx.check(okpad, worker, pad[0], pad[0], "padding samples are appended only after the last batch of the file", "padding can be written in the middle of the file", key="padding")


def _launch_stmt(outer, fan):
    par = {}
    for n in ast.walk(outer.node):
        for c in ast.iter_child_nodes(n):
            par[c] = n
    st = fan
    while not isinstance(st, ast.stmt):
        st = par[st]
    return st


def d5_closure(ctx):
    ctx.rule("D5", "every variable the worker reads from the enclosing function is bound on each path that launches it, under the conditions of the read")
    from sa.closure import binding_gaps
    repo = ctx.repo
    outer, worker, fan = _worker(repo)
    gaps, analysed = binding_gaps(outer.node, worker.node, _launch_stmt(outer, fan), outer.file)
    nread = sum(a[1] for a in analysed)
    if len(analysed) < 10:
        raise AnalysisError(f"{worker.qualname}: only {len(analysed)} free variables found (expected the batch constants, tables and files of the enclosing function)")
    bad = {}
    for v, r, W, D in gaps:
        bad.setdefault(v, []).append((r, W, D))
    for v, n, nb in analysed:
        g = bad.get(v)
        ctx.check(not g, worker, g[0][0] if g else worker.node, f"`{v}`: {n} reads, bound {nb if isinstance(nb, str) else str(nb) + ' time(s)'} in the enclosing function",
                  "a free variable of the worker is bound whenever the worker reads it",
                  (f"`{v}` is read by the worker under condition [{g[0][1]}] but bound by the enclosing function only under [{g[0][2]}]: with that option off the worker raises "
                   f"NameError (cannot access free variable) before the first batch - no output is produced") if g else "", key=f"free:{v}", name_free=True)
    ctx.note(f"{len(analysed)} free variables, {nread} reads related to their bindings")
    from sa.closure import optional_resource_gaps
    ogaps, oan = optional_resource_gaps(worker.node)
    obad = {}
    for v, r, W, D in ogaps:
        obad.setdefault(v, []).append((r, W, D))
    for v, n, cond in oan:
        g = obad.get(v)
        ctx.check(not g, worker, g[0][0] if g else worker.node, f"`{v}` is None unless [{cond}]: {n} uses look into it",
                  "a resource that exists only with an option is used only with that option",
                  (f"`{v}` is None unless [{g[0][2]}] but is indexed / dereferenced under [{g[0][1]}]: with the option off the worker raises TypeError "
                   "('NoneType' object ...) in its first batch - no output is produced") if g else "", key=f"optional:{v}", name_free=True)


def d6_progress(ctx):
    ctx.rule("D6", "the batch loop advances: the stride NBATCH - 2*TAPER is positive for every accepted batch size")
    repo = ctx.repo
    outer, worker, fan = _worker(repo)
    lp = _loop(worker)
    wdef = next((s for s in outer.node.body if s is worker.node), None)
    results = []
    for given in (True, False):
        facts = Facts()

        def assume(t, given=given):
            if isinstance(t, ast.Name) and t.id == "nbatch":
                return given
            if isinstance(t, ast.Name) and t.id in ("nprocesses", "nc_out", "compute_rms"):
                return True
            return None
        ev = Evaluator(facts=facts, resolve=lambda e: repo.resolve_expr(outer, e), assume=assume)
        sx = SymExec(ev, on_undecided="havoc")
        guards = []   # (polynomial P, strict) : P > 0 (strict) or P >= 0 holds when the worker is launched
        for s in outer.node.body:
            if s is wdef:
                break
            if isinstance(s, ast.Expr) and isinstance(s.value, ast.Constant):
                continue
            tests = []
            if isinstance(s, ast.Assert):
                tests = conjuncts(s.test, True)
            elif isinstance(s, ast.If) and not s.orelse and s.body and isinstance(s.body[-1], ast.Raise):
                tests = conjuncts(s.test, False)
            for t, pol in tests:
                if not (isinstance(t, ast.Compare) and len(t.ops) == 1 and isinstance(t.ops[0], (ast.Lt, ast.LtE, ast.Gt, ast.GtE))):
                    continue
                try:
                    l_, r_ = ev.ev(t.left), ev.ev(t.comparators[0])
                except Undecided:
                    continue
                op = type(t.ops[0])
                if not pol:
                    op = {ast.Lt: ast.GtE, ast.LtE: ast.Gt, ast.Gt: ast.LtE, ast.GtE: ast.Lt}[op]
                if op in (ast.Gt, ast.GtE):
                    guards.append((l_ - r_, op is ast.Gt, t))
                else:
                    guards.append((r_ - l_, op is ast.Lt, t))
            if tests:
                continue
            try:
                sx.step(s)
            except Undecided:
                pass
        facts.int_syms |= {"nbatch", "NBATCH", "SAMPLES_TAPER"}
        env = ev.env
        it = _run_iteration(repo, worker, env, facts, False, False)
        S = it["stride"]
        if isinstance(lp, ast.For):
            try:
                S = Evaluator(env=dict(env), facts=facts.copy(), resolve=lambda x: repo.resolve_expr(worker, x)).ev(_range_of(worker, lp)[2])
            except Undecided as e_:
                raise AnalysisError(f"stride of the batch range not evaluable: {e_}")
        why = None
        c = S.const_value()
        if c is not None:
            ok = c > 0
            why = f"stride {c}"
        else:
            ok = False
            for P, strict, t in guards:
                mons = [m for m in P.t if m]
                if not mons:
                    continue
                m0 = mons[0]
                pm, sm = P.t.get(m0), S.t.get(m0)
                if not sm or not pm:
                    continue
                k = sm / pm
                if k <= 0:
                    continue
                rest = (S - Poly.const(k) * P).const_value()
                if rest is None:
                    continue
                # P > 0 (integers: P >= 1)  ->  S = k*P + rest >= k + rest ;  P >= 0 -> S >= rest
                low = (k if (strict and facts.is_integer(P)) else 0) + rest
                if low > 0 or (strict and low >= 0 and not facts.is_integer(P)) or (strict and rest >= 0):
                    ok = True
                    why = f"`{src(t)}` gives stride = {S} > 0"
                    break
        results.append((given, ok, S, why))
    for given, ok, S, why in results:
        case = "a caller-supplied nbatch" if given else "the default batch size"
        ctx.check(ok, outer, lp, f"{case}: {why or 'stride ' + str(S)}", "each batch starts a positive number of samples after the previous one",
                  f"for {case} nothing establishes that the batch stride {S} is positive: with nbatch <= 2 * SAMPLES_TAPER the loop "
                  "never reaches the end of the recording - it rewrites the same batch (or walks backwards) and appends to the output until the disk is full",
                  key=f"progress:{'given' if given else 'default'}", name_free=True)


def dS_shared(ctx):
    from sa.common import rule_no_shared_mutation
    rule_no_shared_mutation(ctx, "DS", ['ibldsp.voltage.decompress_destripe_cbin', 'ibldsp.voltage.decompress_destripe_cbin.my_function'],
                            'a later batch is processed with tables an earlier batch modified: output depends on batch order / worker count')


def run(ctx):
    ctx.run(dS_shared)
    ctx.run(d1_tiling)
    ctx.run(d2_sync)
    ctx.run(d3_qc)
    ctx.run(d4_fanout)
    ctx.run(d5_closure)
    ctx.run(d6_progress)
