"""C07 - Fourier time shift is an exact, composable delay (partial claim: structural clauses)."""
import ast

from sa.algebra import Evaluator, Poly, Undecided
from sa.calls import bind
from sa.cfg import CFG, conjuncts
from sa.common import expand_name, returns_of, resolved_calls, shared_kind, shared_returning, value_alternatives
from sa.defuse import DefUse, loc_name
from sa.model import AnalysisError, AnchorMissing, const_value, src, walk_function
from sa.struct import call_name, find, kwarg, norm

EXPLANATION = (
    "Partial claim. Decides structural necessary conditions of C07 in fourier.fshift: (D1) every in-place operation "
    "targets a freshly allocated array on the path taken for real input; the alias of the caller's array exists only on the "
    "complex-input path, so a real input is never mutated; (D2) the inverse transform receives the original length and the "
    "shift axis, and the result is cast back to the input dtype before being returned; (D3) non-scalar shifts are reshaped to "
    "the input's shape with the shift axis set to 1 (one shift per trace); (D4) the phase ramp comes from a unit impulse at "
    "index 1 transformed along the shift axis and enters as exp(+1j * angle * s) (positive s delays); wave_shift_corrmax "
    "re-aligns with the negated reported shift. Integer shift == roll, additivity, sub-sample accuracy and the estimator's "
    "accuracy are numerical and NOT decided."
    ' (D6) when a shift is applied in two parts - whole samples by np.roll and the remainder by the phase ramp - the rounding of the whole part (trunc / floor / round) and the remainder expression (s % 1 = s - floor(s); fmod; s - whole) agree, so that the parts add up for negative non-integer shifts.'
    ' (D3/D4 as built) the phase factor is evaluated on a path-sensitive substitution model: every factor of the exponent gets a layout (scalar / along the shift axis / per trace / 1-D / column) relative to the array it multiplies (the spectrum, or its (-1, nbins) view which is only valid when the path condition entails that the axis is last); the impulse or analytic ramp is normalised on the substituted exponent; (D1) no in-place statement acts on a value sharing storage with the shift argument.'
    ' (D6 roll-only) a path that returns np.roll(w, round(s)) needs a path condition establishing that s is exactly a whole number (s == round(s)); np.isclose has a relative tolerance and is reported.'
    ' (D4 as built) library helpers called inside the analytic ramp are evaluated with their arguments substituted.'
)
ASSUMPTIONS = [
    "scipy.fft.rfft / irfft return fresh arrays; x *= y mutates x in place; np.put writes in place (model table)",
    "irfft(X, n, axis) returns n samples along axis",
]

FN = "ibldsp.fourier.fshift"
FRESH = ("rfft", "fft", "zeros", "zeros_like", "ones", "empty", "array", "copy", "astype", "real", "irfft", "ifft", "exp")


class _EvJ(Evaluator):
    def ev(self, e):
        if isinstance(e, ast.Constant) and isinstance(e.value, complex):
            return Poly.sym("J") * Poly.const(e.value.imag)
        if isinstance(e, ast.Call) and call_name(e) == "angle":
            return Poly.sym("ANGLE")
        if isinstance(e, ast.Subscript):
            # h["sample_shift"][:, np.newaxis] and friends: broadcasting views of the same values
            base = e
            while isinstance(base, ast.Subscript) and not (isinstance(base.slice, ast.Constant)):
                base = base.value
            if base is not e:
                return self.ev(base)
        return super().ev(e)


def d1_no_mutation(ctx):
    ctx.rule("D1", "in-place operations in fshift only touch fresh arrays when the input is real")
    repo = ctx.repo
    fi = repo.fn(FN)
    du = DefUse(fi.node)
    cfg = du.cfg
    param = fi.params[0]
    shared = shared_returning(repo)
    muts = []
    for n in walk_function(fi.node):
        if isinstance(n, ast.AugAssign):
            base = n.target
            while isinstance(base, ast.Subscript):
                base = base.value
            if loc_name(base):
                muts.append((n, loc_name(base)))
        elif isinstance(n, ast.Assign) and isinstance(n.targets[0], ast.Subscript):
            base = n.targets[0]
            while isinstance(base, ast.Subscript):
                base = base.value
            if loc_name(base):
                muts.append((n, loc_name(base)))
        elif isinstance(n, ast.Expr) and isinstance(n.value, ast.Call) and call_name(n.value) in ("put", "copyto", "fill", "sort", "place", "putmask"):
            a = n.value.args[0] if n.value.args and call_name(n.value) in ("put", "copyto", "place", "putmask") else getattr(n.value.func, "value", None)
            if a is not None and loc_name(a):
                muts.append((n, loc_name(a)))
    if not muts:
        ctx.note("fshift has no in-place operation")
    for n, var in muts:
        defs = du.strong_reaching(var, n)
        bad = []
        for d in defs:
            if d.kind == "param":
                if d.var == param:
                    bad.append(("param", d))
                continue
            v = d.value
            if v is None:
                continue
            if shared_kind(repo, fi, du, v, d.stmt, shared) == "array":
                bad.append(("view of the memoised result of a cached helper", d))
                continue
            alias = loc_name(v) == param or (isinstance(v, ast.Attribute) and v.attr in ("T", "real") and loc_name(v.value) == param) \
                or (isinstance(v, ast.Subscript) and loc_name(v.value) == param and isinstance(v.slice, (ast.Slice, ast.Tuple)))
            if alias:
                gs = []
                for t, pol in cfg.guards(d.node):
                    gs += conjuncts(t, pol)
                complex_only = any(loc_name(t) == "do_fft" and not pol for t, pol in gs)
                if not complex_only:
                    bad.append(("alias", d))
        memo = [k for k, d in bad if k.startswith("view of the memoised")]
        ctx.check(not bad, fi, n, n, f"target `{var}` is a fresh array whenever the input is real",
                  (f"`{src(n)[:70]}` modifies in place a {memo[0]}: the cached array is shared between calls, so one call's shift scales the phase ramp of every later "
                   "call with the same length (shifts no longer add up; a zero shift disables all later shifts)") if memo else
                  f"`{src(n)[:70]}` can modify the caller's array `{param}` in place (through {[(k, src(d.stmt)[:40] if d.stmt else 'parameter') for k, d in bad]}) for real input",
                  key="mut:" + var)
    args_untouched(ctx, fi, [p_ for p_ in fi.params if p_ != param])
    # do_fft is the negation of "input is complex"
    dd = [d for d in du.defs if d.var == "do_fft" and d.kind == "assign"]
    ok = bool(dd) and "iscomplex" in src(dd[0].value) and ("invert" in src(dd[0].value) or "not " in src(dd[0].value) or "~" in src(dd[0].value))
    ctx.check(ok, fi, dd[0].stmt if dd else fi.node, dd[0].stmt if dd else "do_fft", "the transform path is taken exactly for real input", "do_fft is not `input is not complex`", key="do_fft")


def args_untouched(ctx, fi, others, rule=None):
    """No in-place statement of `fi` may act on a value that can share the storage of one of the parameters `others`, on any path."""
    try:
        paths = _sym_paths(fi.node.body, _PathRec(), [4000], need_exp=False)
    except Undecided as e:
        raise AnalysisError(f"{fi.qualname}: paths not enumerable ({e})")
    seen = set()
    for pth in paths:
        for cur, st in pth.inplace:
            who = _may_alias(cur, others)
            if who is None or id(st) in seen:
                continue
            seen.add(id(st))
            ctx.violation(fi, st, st, f"`{src(st)[:70]}` acts in place on `{src(cur)[:80]}`, which shares the storage of the caller's `{who}` whenever no conversion is needed "
                          f"(an ndarray of the requested dtype): the caller's {who} are overwritten, so the NEXT call made with the same vector (one trace header reused "
                          "over batches, AP then LF) applies different shifts", key="mut-arg:" + who, name_free=True, rule=rule)
    if not seen:
        ctx.ok(fi, fi.node, "in-place statements", f"no in-place statement acts on a value sharing storage with {others}", key="mut-arg", rule=rule)


DTYPE_PRESERVING = ("roll", "copy", "flip", "flipud", "fliplr", "ascontiguousarray", "squeeze", "reshape", "transpose", "take", "ravel")


def _dtype_source(e):
    """x for roll(x, ..) / x.copy() / ... : calls whose result has the dtype of their (first) array argument."""
    while isinstance(e, ast.Call) and call_name(e) in DTYPE_PRESERVING:
        if isinstance(e.func, ast.Attribute) and not (isinstance(e.func.value, ast.Name) and e.func.value.id in ("np", "numpy", "gp", "scipy")):
            e = e.func.value
        elif e.args:
            e = e.args[0]
        else:
            break
    return e


def d2_restore(ctx):
    ctx.rule("D2", "irfft gets (ns, axis); result cast to the input dtype on the real path and returned")
    repo = ctx.repo
    fi = repo.fn(FN)
    du = DefUse(fi.node)
    cfg = du.cfg
    irs = [c for c in find(fi.node, ast.Call, nested=False) if call_name(c) in ("irfft",)]
    if not irs:
        raise AnchorMissing("fshift: irfft not found")
    c = irs[0]
    n = kwarg(c, "n") or (c.args[1] if len(c.args) > 1 else None)
    ax = kwarg(c, "axis")
    ctx.check(n is not None and loc_name(n) == "ns" and ax is not None and loc_name(ax) == "axis", fi, c, c, "inverse transform restores ns samples along the shift axis",
              f"`{src(c)}`: inverse transform is not told (ns, axis): odd lengths or axis 0 come back with the wrong shape", key="irfft")
    fw = [x for x in find(fi.node, ast.Call, nested=False) if call_name(x) == "rfft" and x.args and loc_name(x.args[0]) == fi.params[0]]
    ctx.check(bool(fw) and loc_name(kwarg(fw[0], "axis")) == "axis", fi, fw[0] if fw else fi.node, fw[0] if fw else "rfft", "forward transform runs along the shift axis",
              "forward transform is not along the shift axis", key="rfft-axis")
    # every value the function can return that went through the inverse transform is `<...>.astype(<input>.dtype)`
    rets = returns_of(fi.node)
    n_real = 0
    for r in rets:
        if r.value is None:
            continue
        for gs, v in value_alternatives(du, r.value, r, keep=("ns", "axis")):
            if not any(call_name(x) == "irfft" for x in find(v, ast.Call)):
                continue
            n_real += 1
            okc = isinstance(v, ast.Call) and call_name(v) == "astype" and len(v.args) == 1 and isinstance(v.args[0], ast.Attribute) and v.args[0].attr == "dtype" \
                and loc_name(_dtype_source(v.args[0].value)) == fi.params[0]
            ctx.check(okc, fi, r, v, "real results are cast back to the input dtype and returned",
                      "the result is not cast back to the input's dtype (float32 in, float64 out)", key="dtype")
    if n_real == 0:
        ctx.violation(fi, fi.node, "return", "no returned value goes through the inverse transform: the real path is not restored", key="dtype")
    nd = [d for d in du.defs if d.var == "ns" and d.kind == "assign"]
    ctx.check(bool(nd) and norm(nd[0].value) == norm(ast.parse("ns or w.shape[axis]", mode="eval").body), fi, nd[0].stmt if nd else fi.node, nd[0].stmt if nd else "ns",
              "ns defaults to the length along the shift axis", "ns is not `ns or w.shape[axis]`", key="ns")


# ---------------------------------------------------------------------------------------------------------------------
# path-sensitive model of the phase factor: exp(<exponent>) with every local substituted away, one record per path
# ---------------------------------------------------------------------------------------------------------------------
import copy as _copy


class _SubstEnv(ast.NodeTransformer):
    def __init__(self, env):
        self.env = env

    def visit_Name(self, node):
        if isinstance(node.ctx, ast.Load) and node.id in self.env:
            return _copy.deepcopy(self.env[node.id])
        return node

    def visit_Lambda(self, node):
        return node

    def visit_ListComp(self, node):
        return node
    visit_GeneratorExp = visit_SetComp = visit_DictComp = visit_ListComp


def _sub(env, e):
    return _SubstEnv(env).visit(_copy.deepcopy(e))


def _setitem(base, idx, val):
    return ast.Call(func=ast.Name(id="__setitem", ctx=ast.Load()), args=[base, idx, val], keywords=[])


class _PathRec:
    def __init__(self):
        self.env = {}
        self.assume = []     # (substituted test, polarity)
        self.exps = []       # (exp call substituted, original call)
        self.inplace = []    # (substituted value of the target before the in-place statement, statement)
        self.sites = []      # (original exp call, substituted multiplication target or None, substituted statement value, assumptions)
        self.done = False

    def fork(self):
        r = _PathRec()
        r.env = dict(self.env)
        r.assume = list(self.assume)
        r.exps = list(self.exps)
        r.inplace = list(self.inplace)
        r.sites = list(self.sites)
        return r


def _sym_paths(stmts, path, budget, need_exp=True):
    """Substitution-based symbolic execution of a loop-free statement list. -> list of _PathRec"""
    paths = [path]
    for st in stmts:
        nxt = []
        for pth in paths:
            if pth.done:
                nxt.append(pth)
                continue
            budget[0] -= 1
            if budget[0] < 0:
                raise Undecided("too many paths")
            for c in find(st, ast.Call) if not isinstance(st, (ast.If, ast.For, ast.While, ast.With, ast.Try)) else []:
                if call_name(c) == "exp":
                    pth.exps.append((_sub(pth.env, c), c))
                    if isinstance(st, ast.AugAssign) and isinstance(st.op, ast.Mult):
                        tgt = st.target
                        tv = _sub(pth.env, ast.Name(id=tgt.id, ctx=ast.Load())) if isinstance(tgt, ast.Name) else \
                            _sub(pth.env, _copy.deepcopy(tgt)) if isinstance(tgt, ast.Subscript) else None
                        if tv is not None:
                            for n_ in ast.walk(tv):
                                if hasattr(n_, "ctx"):
                                    n_.ctx = ast.Load()
                        pth.sites.append((c, tv, _sub(pth.env, st.value), list(pth.assume)))
                    elif isinstance(st, ast.Assign):
                        pth.sites.append((c, None, _sub(pth.env, st.value), list(pth.assume)))
            if isinstance(st, ast.Assign) and len(st.targets) == 1:
                t = st.targets[0]
                if isinstance(t, ast.Name):
                    pth.env[t.id] = _sub(pth.env, st.value)
                elif isinstance(t, ast.Subscript) and isinstance(t.value, ast.Name):
                    base = pth.env.get(t.value.id, ast.Name(id=t.value.id, ctx=ast.Load()))
                    pth.inplace.append((base, st))
                    pth.env[t.value.id] = _setitem(base, _sub(pth.env, t.slice), _sub(pth.env, st.value))
                elif isinstance(t, ast.Tuple) and isinstance(st.value, ast.Tuple) and len(t.elts) == len(st.value.elts) and all(isinstance(x, ast.Name) for x in t.elts):
                    vals = [_sub(pth.env, v) for v in st.value.elts]
                    for x, v in zip(t.elts, vals):
                        pth.env[x.id] = v
                else:
                    for n in ast.walk(t):
                        if isinstance(n, ast.Name):
                            pth.env.pop(n.id, None)
                nxt.append(pth)
            elif isinstance(st, ast.AugAssign) and isinstance(st.target, ast.Name):
                cur = pth.env.get(st.target.id, ast.Name(id=st.target.id, ctx=ast.Load()))
                pth.inplace.append((cur, st))
                pth.env[st.target.id] = ast.BinOp(left=cur, op=st.op, right=_sub(pth.env, st.value))
                nxt.append(pth)
            elif isinstance(st, ast.If):
                ok, tv = const_value(st.test)
                t = _sub(pth.env, st.test)
                for pol, body in ((True, st.body), (False, st.orelse)):
                    if ok and bool(tv) != pol:
                        continue
                    q = pth.fork()
                    q.assume.append((t, pol))
                    nxt += _sym_paths(body, q, budget, need_exp)
            elif isinstance(st, (ast.Return, ast.Raise)):
                pth.done = True
                nxt.append(pth)
            elif isinstance(st, ast.For) and need_exp and any(call_name(c) == "exp" for c in find(st, ast.Call)) and not st.orelse:
                # one generic iteration: the loop targets are unknown values, what the body binds stays visible
                for n in ast.walk(st.target):
                    if isinstance(n, ast.Name):
                        pth.env[n.id] = ast.Name(id="__loop_" + n.id, ctx=ast.Load())
                nxt += _sym_paths(st.body, pth, budget, need_exp)
            elif isinstance(st, (ast.For, ast.While, ast.With, ast.Try)):
                if need_exp and any(call_name(c) == "exp" for c in find(st, ast.Call)):
                    raise Undecided(f"phase factor inside a {type(st).__name__} block")
                # names assigned in the block are unknown afterwards; in-place statements inside it act on what the names held on entry
                # (or on what the block itself bound them to: then the value is local to the block and taken as written)
                stored = {n.id for n in ast.walk(st) if isinstance(n, ast.Name) and isinstance(n.ctx, ast.Store)}
                for n in ast.walk(st):
                    if isinstance(n, ast.AugAssign) and isinstance(n.target, ast.Name):
                        pth.inplace.append((pth.env.get(n.target.id, ast.Name(id=n.target.id, ctx=ast.Load())), n))
                    elif isinstance(n, ast.Assign) and isinstance(n.targets[0], ast.Subscript) and isinstance(n.targets[0].value, ast.Name):
                        b = n.targets[0].value.id
                        pth.inplace.append((pth.env.get(b, ast.Name(id=b, ctx=ast.Load())), n))
                for v in stored:
                    pth.env[v] = ast.Name(id="__unknown_" + v, ctx=ast.Load())
                nxt.append(pth)
            else:
                nxt.append(pth)
        paths = nxt
    return paths


def _scalar_test(t, sp):
    """Does the (substituted) test `t` being TRUE say the shifts are scalar ('scalar') or an array ('array')?  None: unrelated."""
    if isinstance(t, ast.UnaryOp) and isinstance(t.op, ast.Not):
        r = _scalar_test(t.operand, sp)
        return {"scalar": "array", "array": "scalar"}.get(r)
    mentions = any(isinstance(n, ast.Name) and n.id == sp for n in ast.walk(t))
    if not mentions:
        return None
    if isinstance(t, ast.Call) and call_name(t) == "isscalar":
        return "scalar"
    if isinstance(t, ast.Call) and call_name(t) == "invert" and t.args:
        return {"scalar": "array", "array": "scalar"}.get(_scalar_test(t.args[0], sp))

    def is_ndim(e):
        return (isinstance(e, ast.Attribute) and e.attr == "ndim") or (isinstance(e, ast.Call) and call_name(e) == "ndim")
    if is_ndim(t):
        return "array"
    if isinstance(t, ast.Compare) and len(t.ops) == 1 and is_ndim(t.left):
        ok, v = const_value(t.comparators[0])
        if ok:
            op = t.ops[0]
            if (isinstance(op, ast.Gt) and v == 0) or (isinstance(op, ast.GtE) and v == 1) or (isinstance(op, ast.NotEq) and v == 0):
                return "array"
            if (isinstance(op, ast.Eq) and v == 0) or (isinstance(op, ast.Lt) and v == 1) or (isinstance(op, ast.LtE) and v == 0):
                return "scalar"
    return None


_WRAP = ("array", "asarray", "asanyarray", "astype", "atleast_1d", "float64", "float32", "copy", "ascontiguousarray")


def _unit_axis_shape(e, params):
    """Is `e` a shape equal to the data's shape with the shift axis set to 1?  (w.shape and the spectrum's shape differ only along that axis.)"""
    if not (isinstance(e, ast.Call) and call_name(e) == "__setitem" and len(e.args) == 3):
        return False
    base, idx, val = e.args
    if not (loc_name(idx) == "axis" and const_value(val) == (True, 1)):
        return False
    while isinstance(base, ast.Call) and call_name(base) in ("list", "array", "asarray", "tuple") and base.args:
        base = base.args[0]
    return _is_data_shape(base, params)


def _is_data(e, params):
    """the input array or its spectrum along the shift axis"""
    if isinstance(e, ast.Name) and e.id == params[0]:
        return True
    if isinstance(e, ast.IfExp):
        return _is_data(e.body, params) and _is_data(e.orelse, params)
    if isinstance(e, ast.Call) and call_name(e) in ("rfft",) and e.args and loc_name(kwarg(e, "axis")) == "axis":
        return _is_data(e.args[0], params)
    return False


def _is_data_shape(e, params):
    return isinstance(e, ast.Attribute) and e.attr == "shape" and _is_data(e.value, params)


def _shape_len_vec(e, params, depth=0):
    """an integer vector with one entry per dimension of the data (its values do not matter)"""
    if depth > 6:
        return False
    while isinstance(e, ast.Call) and call_name(e) in ("list", "array", "asarray", "copy") and (e.args or isinstance(e.func, ast.Attribute)):
        e = e.args[0] if e.args else e.func.value
    if _is_data_shape(e, params):
        return True
    if isinstance(e, ast.Call) and call_name(e) == "__setitem":
        return _shape_len_vec(e.args[0], params, depth + 1)
    if isinstance(e, ast.BinOp) and isinstance(e.op, (ast.Add, ast.Mult, ast.Sub)) and isinstance(e.right, ast.Constant) and not isinstance(e.left, ast.List):
        return _shape_len_vec(e.left, params, depth + 1)
    return False


def _axis_only_shape(e, params):
    """Is `e` a shape that is 1 everywhere except along the shift axis?"""
    if not (isinstance(e, ast.Call) and call_name(e) == "__setitem" and len(e.args) == 3):
        return False
    base, idx, val = e.args
    if loc_name(idx) != "axis":
        return False
    while isinstance(base, ast.Call) and call_name(base) in ("list", "array", "asarray") and base.args:
        base = base.args[0]
    if isinstance(base, ast.BinOp) and isinstance(base.op, ast.Add) and const_value(base.right) == (True, 1) and isinstance(base.left, ast.BinOp) \
            and isinstance(base.left.op, ast.Mult) and const_value(base.left.right) == (True, 0):
        return _shape_len_vec(base.left.left, params)   # array(w.shape) * 0 + 1
    if isinstance(base, ast.BinOp) and isinstance(base.op, ast.Mult):
        lst, n = (base.left, base.right) if isinstance(base.left, ast.List) else (base.right, base.left)
        if isinstance(lst, ast.List) and len(lst.elts) == 1 and const_value(lst.elts[0]) == (True, 1):
            return isinstance(n, ast.Attribute) and n.attr == "ndim" and _is_data(n.value, params) or \
                (isinstance(n, ast.Call) and call_name(n) == "len" and n.args and _is_data_shape(n.args[0], params))
    if isinstance(base, ast.Call) and call_name(base) in ("ones", "ones_like") and base.args:
        a = base.args[0]
        return (isinstance(a, ast.Attribute) and a.attr == "ndim" and _is_data(a.value, params)) or _is_data_shape(a, params) \
            or (isinstance(a, ast.Call) and call_name(a) == "len" and a.args and _is_data_shape(a.args[0], params))
    return False


def _shift_term(exponent, sp):
    """The maximal wrapper chain (array / reshape / astype / [..., None]) around the shift parameter inside the exponent.
    -> list of (outermost node, [reshape shape args], [index expressions])"""
    parents = {}
    for par in ast.walk(exponent):
        for ch in ast.iter_child_nodes(par):
            parents[id(ch)] = par
    out = []
    for n in ast.walk(exponent):
        if isinstance(n, ast.Name) and n.id == sp and isinstance(n.ctx, ast.Load):
            cur, shapes, subs = n, [], []
            while True:
                par = parents.get(id(cur))
                if isinstance(par, ast.Call) and call_name(par) in _WRAP and ((par.args and par.args[0] is cur) or (isinstance(par.func, ast.Attribute) and par.func.value is cur)):
                    cur = par
                elif isinstance(par, ast.Attribute) and par.value is cur and isinstance(parents.get(id(par)), ast.Call) and parents[id(par)].func is par:
                    call = parents[id(par)]
                    if par.attr == "reshape":
                        shapes.append(call.args[0] if len(call.args) == 1 else ast.Tuple(elts=list(call.args), ctx=ast.Load()))
                        cur = call
                    elif par.attr in _WRAP:
                        cur = call
                    else:
                        break
                elif isinstance(par, ast.Call) and call_name(par) == "reshape" and len(par.args) >= 2 and par.args[0] is cur:
                    shapes.append(par.args[1])
                    cur = par
                elif isinstance(par, ast.Call) and call_name(par) == "expand_dims" and par.args and par.args[0] is cur:
                    shapes.append(par)
                    cur = par
                elif isinstance(par, ast.Subscript) and par.value is cur:
                    subs.append(par.slice)
                    cur = par
                else:
                    break
            # a use inside a test of the shift itself (ndim / isscalar) is not part of the value
            par = parents.get(id(cur))
            if isinstance(par, ast.Attribute) and par.attr in ("ndim", "shape", "size", "dtype"):
                continue
            if isinstance(par, ast.Call) and call_name(par) in ("isscalar", "ndim", "size", "shape"):
                continue
            out.append((cur, shapes, subs))
    return out


_VIEW_METHODS = ("reshape", "ravel", "squeeze", "view", "transpose", "swapaxes")
_NOCOPY_FUNCS = ("asarray", "asanyarray", "atleast_1d", "atleast_2d", "ascontiguousarray", "reshape", "ravel", "squeeze", "transpose", "broadcast_to", "expand_dims")


def _may_alias(e, params):
    """Parameter whose storage the value `e` can share (numpy model: asarray / reshape / basic indexing / astype(copy=False) return the
    argument's own buffer when no conversion is needed; np.array copies unless copy=False)."""
    if isinstance(e, ast.Name):
        return e.id if e.id in params else None
    if isinstance(e, ast.IfExp):
        return _may_alias(e.body, params) or _may_alias(e.orelse, params)
    if isinstance(e, ast.Attribute) and e.attr in ("T", "real", "imag", "flat"):
        return _may_alias(e.value, params)
    if isinstance(e, ast.Subscript):
        return _may_alias(e.value, params) if isinstance(e.slice, (ast.Slice, ast.Tuple, ast.Constant)) else None
    if isinstance(e, ast.Call):
        nm = call_name(e)
        if nm == "__setitem":
            return _may_alias(e.args[0], params)
        meth = isinstance(e.func, ast.Attribute) and not (isinstance(e.func.value, ast.Name) and e.func.value.id in ("np", "numpy", "scipy"))
        cp = kwarg(e, "copy")
        if meth and nm in _VIEW_METHODS:
            return _may_alias(e.func.value, params)
        if meth and nm == "astype":
            return _may_alias(e.func.value, params) if (cp is not None and const_value(cp) == (True, False)) else None
        if not meth and nm == "array" and e.args:
            return _may_alias(e.args[0], params) if (cp is not None and const_value(cp) in ((True, False), (True, None))) else None
        if not meth and nm in _NOCOPY_FUNCS and e.args:
            return _may_alias(e.args[0], params)
    return None


# ---- layout calculus: which axis does every factor of the phase exponent vary along, relative to the array it multiplies -------------
L_SCALAR, L_ALONG, L_TRACE, L_VEC, L_COL, L_RAW = "scalar", "along-axis", "per-trace", "1-D", "column", "unshaped shifts"


def _mentions(e, names):
    return any(isinstance(n, ast.Name) and n.id in names for n in ast.walk(e))


def _strip_rows(e):
    """x[a:b] / x[a:b, :] -> x (a block of rows of a two-dimensional layout keeps the layout)"""
    while isinstance(e, ast.Subscript) and (isinstance(e.slice, ast.Slice) or (isinstance(e.slice, ast.Tuple) and e.slice.elts and isinstance(e.slice.elts[0], ast.Slice)
                                                                              and all(isinstance(x, ast.Slice) and x.lower is None and x.upper is None for x in e.slice.elts[1:]))):
        e = e.value
    return e


def _reshape_parts(e):
    """(receiver, shape) of x.reshape(shape) / np.reshape(x, shape) else None"""
    if isinstance(e, ast.Call) and call_name(e) == "reshape":
        if isinstance(e.func, ast.Attribute) and not (isinstance(e.func.value, ast.Name) and e.func.value.id in ("np", "numpy")):
            shp = e.args[0] if len(e.args) == 1 else ast.Tuple(elts=list(e.args), ctx=ast.Load())
            return e.func.value, shp
        if len(e.args) >= 2:
            return e.args[0], e.args[1]
    return None


def _axis_only(shp, params):
    """shape that is 1 everywhere except along the shift axis (the entry along the axis is free: -1, ns, nbins)"""
    return _axis_only_shape(shp, params)


def _is_col(shp):
    return isinstance(shp, ast.Tuple) and len(shp.elts) == 2 and const_value(shp.elts[0]) == (True, -1) and const_value(shp.elts[1]) == (True, 1)


def _layout(e, params, scalar_path):
    """Layout of one factor of the exponent."""
    sp = params[1]
    e = _strip_rows(e) if _mentions(e, [sp]) else e
    rp = _reshape_parts(e)
    if rp is not None:
        inner, shp = rp
        if _axis_only(shp, params):
            li = _layout(inner, params, scalar_path)
            return L_ALONG if li in (L_VEC, L_ALONG) else (L_SCALAR if li == L_SCALAR else None)
        if _unit_axis_shape(shp, params):
            li = _layout(inner, params, scalar_path)
            return L_TRACE if li in (L_RAW, L_TRACE, L_COL) else None
        if _is_col(shp):
            li = _layout(inner, params, scalar_path)
            return L_COL if li in (L_RAW, L_COL) else None
        return None
    if isinstance(e, ast.Name) and e.id == sp:
        return L_SCALAR if scalar_path else L_RAW
    if isinstance(e, ast.Call) and call_name(e) in _WRAP + ("float",) and (e.args or isinstance(e.func, ast.Attribute)):
        inner = e.args[0] if e.args and not (isinstance(e.func, ast.Attribute) and not (isinstance(e.func.value, ast.Name) and e.func.value.id in ("np", "numpy"))) else e.func.value
        return _layout(inner, params, scalar_path)
    if isinstance(e, ast.UnaryOp):
        return _layout(e.operand, params, scalar_path)
    if isinstance(e, ast.Call) and call_name(e) in ("angle", "real", "imag", "conj", "unwrap"):
        return _layout(e.args[0], params, scalar_path) if e.args else None
    if isinstance(e, ast.Call) and call_name(e) in ("rfft", "fft"):
        a = e.args[0] if e.args else None
        ax = kwarg(e, "axis")
        if a is None:
            return None
        la = _layout(a, params, scalar_path)
        if la == L_ALONG and loc_name(ax) == "axis":
            return L_ALONG
        if la == L_VEC and ax is None:
            return L_VEC
        return None
    if isinstance(e, ast.Call) and call_name(e) == "__setitem":
        return _layout(e.args[0], params, scalar_path)
    if isinstance(e, ast.Call) and call_name(e) in ("zeros", "ones", "empty") and e.args:
        shp = e.args[0]
        if _axis_only(shp, params):
            return L_ALONG
        if not isinstance(shp, (ast.Tuple, ast.List)) and not _mentions(shp, [params[0]]) or (isinstance(shp, ast.BoolOp)):
            return L_VEC   # zeros(ns): one-dimensional
        return None
    if isinstance(e, ast.Call) and call_name(e) in ("arange", "linspace", "rfftfreq"):
        return L_VEC
    if isinstance(e, ast.BinOp) and isinstance(e.op, (ast.Mult, ast.Div, ast.Add, ast.Sub, ast.FloorDiv, ast.Mod)):
        ls = [_layout(x, params, scalar_path) for x in (e.left, e.right)]
        if None in ls:
            return None
        ls = [x for x in ls if x != L_SCALAR]
        if not ls:
            return L_SCALAR
        return ls[0] if len(set(ls)) == 1 else "mixed:" + "+".join(sorted(set(ls)))
    if not _mentions(e, [sp, params[0]]) and not any(isinstance(n, ast.Call) and call_name(n) in ("zeros", "ones", "arange", "linspace", "rfft", "fft", "rfftfreq")
                                                    for n in ast.walk(e)):
        return L_SCALAR
    return None


def _factors(e):
    if isinstance(e, ast.BinOp) and isinstance(e.op, ast.Mult):
        return _factors(e.left) + _factors(e.right)
    if isinstance(e, ast.BinOp) and isinstance(e.op, ast.Div):
        return _factors(e.left) + [e.right]
    if isinstance(e, ast.UnaryOp) and isinstance(e.op, ast.USub):
        return _factors(e.operand)
    return [e]


def _axis_last_entailed(assume):
    """Do the branch assumptions of the path entail that the shift axis is the last one?"""
    from sa import guards as GD
    at = GD.Atoms()
    fs = [GD.formula(t, at, pol) for t, pol in assume]
    if not fs:
        return False
    pc = GD.And(*fs) if len(fs) > 1 else fs[0]
    goals = []
    for k, ex in at.exprs.items():
        if isinstance(ex, ast.Compare) and len(ex.ops) == 1 and loc_name(ex.left) == "axis" and isinstance(ex.ops[0], ast.In) and isinstance(ex.comparators[0], (ast.Tuple, ast.List, ast.Set)):
            vals = ex.comparators[0].elts
            if all(const_value(v) == (True, -1) or (isinstance(v, ast.BinOp) and isinstance(v.op, ast.Sub) and const_value(v.right) == (True, 1) and src(v.left).endswith(".ndim"))
                   for v in vals):
                goals.append(GD.Atom(k))
        if isinstance(ex, ast.Compare) and len(ex.ops) == 1 and isinstance(ex.ops[0], ast.Eq):
            a, b = ex.left, ex.comparators[0]
            for x, y in ((a, b), (b, a)):
                if loc_name(x) == "axis" and (const_value(y) == (True, -1) or (isinstance(y, ast.BinOp) and isinstance(y.op, ast.Sub) and const_value(y.right) == (True, 1)
                                                                                and src(y.left).endswith(".ndim"))):
                    goals.append(GD.Atom(k))
    if not goals:
        return False
    goal = GD.Or(*goals) if len(goals) > 1 else goals[0]
    return GD.entails(pc, goal) is True


def model_layout(ctx, repo, fi):
    """D3 on the layout model. For every phase factor on every path: the bin-dependent ramp varies ALONG the shift axis of the array it
    multiplies and the per-trace shifts vary along all the OTHER axes. Raises Undecided when a factor's layout is not understood."""
    params = fi.params
    sp = params[1]
    paths = _sym_paths(fi.node.body, _PathRec(), [4000])
    sites = []
    seen = set()
    for pth in paths:
        for orig, tgt, val, assume in pth.sites:
            key = (id(orig), tuple(sorted((src(t), pol) for t, pol in assume)))
            if key in seen:
                continue
            seen.add(key)
            sites.append((orig, tgt, val, assume))
    if not sites:
        raise Undecided("no phase factor multiplies the spectrum")
    results = []
    for orig, tgt, val, assume in sites:
        kinds = set()
        for t, pol in assume:
            k = _scalar_test(t, sp)
            if k is not None:
                kinds.add(k if pol else {"scalar": "array", "array": "scalar"}[k])
        scalar_path = "scalar" in kinds and "array" not in kinds
        # locate the exp call inside the statement value and the reshape that may wrap it
        expc = [c for c in ast.walk(val) if isinstance(c, ast.Call) and call_name(c) == "exp"]
        if len(expc) != 1:
            raise Undecided("several exp() calls in one statement")
        expc = expc[0]
        outer_shape = None
        if val is not expc:
            rp = _reshape_parts(val)
            if rp is not None and rp[0] is expc:
                outer_shape = rp[1]
            elif isinstance(val, ast.BinOp) and isinstance(val.op, ast.Mult) and tgt is None:
                other = val.left if val.right is expc or (_reshape_parts(val.right) or [None])[0] is expc else val.right
                side = val.right if other is val.left else val.left
                tgt = other
                if side is not expc:
                    outer_shape = _reshape_parts(side)[1]
            else:
                raise Undecided(f"phase factor used as `{src(val)[:60]}`")
        if tgt is None:
            raise Undecided("phase factor does not multiply the spectrum in place")
        # target layout
        t0 = _strip_rows(tgt)
        flat = False
        rp = _reshape_parts(t0)
        if rp is not None and _is_data(rp[0], params):
            shp = rp[1]
            if isinstance(shp, ast.Tuple) and len(shp.elts) == 2 and const_value(shp.elts[0]) == (True, -1):
                flat = True
            else:
                raise Undecided(f"spectrum viewed as `{src(t0)[:60]}`")
        elif not _is_data(t0, params):
            raise Undecided(f"phase factor multiplies `{src(t0)[:60]}`")
        last = _axis_last_entailed(assume)
        facs = _factors(expc.args[0])
        lays = []
        for f in facs:
            lf = _layout(f, params, scalar_path)
            if lf is None:
                raise Undecided(f"layout of `{src(f)[:60]}` not understood")
            lays.append((f, lf))
        results.append((orig, flat, last, scalar_path, outer_shape, lays))
    n = 0
    for orig, flat, last, scalar_path, outer_shape, lays in results:
        if flat and not last:
            n += 1
            ctx.violation(fi, orig, orig, "the spectrum is laid out as (-1, number of bins) rows - which is the per-trace layout only when the shift axis is the LAST one - on a "
                          "path that `axis` other than the last can reach: for a shift along axis 0 (time first) the ramps multiply across the wrong dimension",
                          key="flat-view", name_free=True)
            continue
        for f, lf in lays:
            if lf == L_SCALAR:
                continue
            n += 1
            is_shift = _mentions(f, [sp])
            if lf.startswith("mixed"):
                raise Undecided(f"factor `{src(f)[:60]}` mixes layouts")
            if is_shift:
                if scalar_path:
                    ctx.ok(fi, orig, orig, "scalar shift: nothing to broadcast", key="broadcast")
                    continue
                good = (lf == L_COL) if flat else (lf == L_TRACE)
                ctx.check(good, fi, orig, orig, "each trace receives its own shift (shift vector shaped like the data with the shift axis set to 1)",
                          f"on the path taken for per-trace shifts the shift vector enters the phase as `{src(f)[:70].replace('__setitem', 'setitem')}` ({lf}), not shaped like the data "
                          "with the shift axis set to 1: the shifts are broadcast along the wrong axis", key="broadcast", name_free=True)
            else:
                eff = lf
                if outer_shape is not None and lf == L_VEC and scalar_path and _axis_only(outer_shape, params):
                    eff = L_ALONG
                good = eff == L_ALONG or (eff == L_VEC and (flat or last))
                ctx.check(good, fi, orig, orig, "the phase ramp varies along the shift axis of the array it multiplies",
                          f"the bin-dependent ramp `{src(f)[:70].replace('__setitem', 'setitem')}` is {eff}: it broadcasts along the LAST axis whatever `axis` is, so a shift along "
                          "any other axis multiplies the wrong dimension by the ramp", key="ramp-axis", name_free=True)
    if n == 0:
        raise Undecided("nothing evaluated")


def phase_model(repo, fi):
    """-> [(path, substituted exp call, original exp call)] for every path that reaches the phase factor"""
    budget = [4000]
    paths = _sym_paths(fi.node.body, _PathRec(), budget)
    out = []
    for pth in paths:
        for sub, orig in pth.exps:
            out.append((pth, sub, orig))
    return out


def model_broadcast(ctx, repo, fi):
    """D3 on the model: on every path on which the shifts can be an array, the shift term that enters the exponent is reshaped to the
    data's shape with the shift axis set to 1."""
    params = fi.params
    sp = params[1] if len(params) > 1 else "s"
    recs = phase_model(repo, fi)
    if not recs:
        raise Undecided("no path reaches an exp() phase factor")
    n = 0
    for pth, sub, orig in recs:
        kinds = {_scalar_test(t, sp) if pol else {"scalar": "array", "array": "scalar", None: None}[_scalar_test(t, sp)] for t, pol in pth.assume}
        if "scalar" in kinds and "array" not in kinds:
            continue  # shifts are a scalar on this path: nothing to broadcast
        terms = _shift_term(sub.args[0], sp)
        if not terms:
            raise Undecided("the shift parameter does not enter the exponent on a path")
        for node, shapes, subs in terms:
            n += 1
            if subs and not shapes:
                raise Undecided(f"shift term `{src(node)[:60]}` is oriented by indexing")
            ok = bool(shapes) and _unit_axis_shape(shapes[-1], params)
            why = "is never reshaped" if not shapes else f"is reshaped to `{src(shapes[-1])[:80].replace('__setitem', 'setitem')}`"
            ctx.check(ok, fi, orig, orig, "each trace receives its own shift (shift vector shaped like the data with the shift axis set to 1)",
                      f"on the path taken for per-trace shifts the shift vector {why}, not to the data's shape with the shift axis set to 1: "
                      "the shifts are broadcast along the wrong axis", key="broadcast", name_free=True)
    if n == 0:
        raise Undecided("no path on which the shifts can be an array reaches the phase factor")


def d3_broadcast(ctx):
    ctx.rule("D3", "non-scalar s is reshaped to w.shape with [axis] = 1")
    repo = ctx.repo
    fi = repo.fn(FN)
    try:
        model_layout(ctx, repo, fi)
        return
    except Undecided as e:
        ctx.note(f"D3: layout model undecided ({e}); falling back to the reshape pattern")
        ctx.results[:] = [r for r in ctx.results if r.rule != "D3"]
    cfg = CFG(fi.node)
    du = DefUse(fi.node, cfg)
    # every s.reshape(<shape var>) : the shape var must be array(w.shape) with [axis] = 1 stored before, and the call must sit on the non-scalar path
    sp = fi.params[1] if len(fi.params) > 1 else "s"
    rs = []   # (call, shape argument)
    for c in find(fi.node, ast.Call, nested=False):
        if call_name(c) != "reshape":
            continue
        if isinstance(c.func, ast.Attribute) and loc_name(c.func.value) == sp and c.args:
            rs.append((c, c.args[0]))                      # s.reshape(shape)
        elif len(c.args) >= 2 and loc_name(c.args[0]) == sp:
            rs.append((c, c.args[1]))                      # np.reshape(s, shape)
    if not rs:
        # no reshape of the parameter itself: decide on the path-sensitive model of the exponent (the shifts may be copied / converted first)
        try:
            model_broadcast(ctx, repo, fi)
        except Undecided as e:
            raise AnalysisError(f"fshift: how the shifts enter the phase factor is not understood ({e})")
        return
    from sa import guards as GD
    for c, sharg in rs:
        shp = loc_name(sharg)
        ok = shp is not None
        detail = ""
        if ok:
            sd = [d for d in du.reaching(shp, c) if d.kind == "assign"]
            ok = bool(sd) and all(d.value is not None and f"{fi.params[0]}.shape" in src(d.value) for d in sd)
            st = [n for n in walk_function(fi.node) if isinstance(n, ast.Assign) and isinstance(n.targets[0], ast.Subscript) and loc_name(n.targets[0].value) == shp
                  and loc_name(n.targets[0].slice) == "axis" and const_value(n.value) == (True, 1)]
            ok = ok and bool(st) and any(cfg.must_pass([cfg.node_for(x)], cfg.node_for(c)) and all(cfg.reachable(d.node, cfg.node_for(x)) or d.node.id == cfg.node_for(x).id for d in sd)
                                         for x in st)
            if not st:
                detail = f"{shp}[axis] = 1 is missing"
        # the reshape sits on the path taken for non-scalar shifts: np.isscalar(s) is false there (directly or through a flag holding it)
        at = GD.Atoms()
        pc = GD.path_condition(cfg, cfg.node_for(c), at)
        nonscalar = False
        for k in GD.atoms_of(pc):
            a = at.exprs.get(k)
            a = expand_name(du, a, c) if isinstance(a, ast.Name) else a
            if isinstance(a, ast.Call) and call_name(a) == "isscalar" and a.args and loc_name(a.args[0]) == sp and GD.entails(pc, GD.Not(GD.Atom(k))) is True:
                nonscalar = True
        ctx.check(ok and nonscalar, fi, c, c, "each trace receives its own shift (broadcast across the shift axis)",
                  f"per-trace shifts are not reshaped to w.shape with the shift axis set to 1 ({detail or 'shape / guard not as required'}): shifts are broadcast along the wrong axis", key="broadcast",
                  name_free=True)


def d4_sign(ctx):
    ctx.rule("D4", "phase factor exp(+1j * angle(rfft(impulse at 1)) * s); wave_shift_corrmax resyncs with the negated shift")
    repo = ctx.repo
    fi = repo.fn(FN)
    du = DefUse(fi.node)
    exps = [c for c in find(fi.node, ast.Call, nested=False) if call_name(c) == "exp"]
    if not exps:
        raise AnchorMissing("fshift: exp() phase factor not found")
    ev = _EvJ(resolve=lambda e: repo.resolve_expr(fi, e))
    try:
        p = ev.ev(exps[0].args[0])
    except Undecided as e:
        raise AnalysisError(f"fshift: phase expression not evaluable: {e}")
    want = Poly.sym("J") * Poly.sym("ANGLE") * Poly.sym("s")
    if p != want and "ANGLE" not in p.canon():
        if _model_impulse_ramp(ctx, repo, fi, want):
            return _resync(ctx, repo, fi)
        _analytic_ramp(ctx, repo, fi, du, exps[0])
        return _resync(ctx, repo, fi)
    ctx.check(p == want, fi, exps[0], f"exponent = {p}", "positive s delays the signal (phase = +angle of a one-sample delay times s)",
              f"phase exponent normalises to {p}, expected {want}: the shift direction or scale is wrong", key="phase")
    ang = [c for c in find(exps[0], ast.Call) if call_name(c) == "angle"]
    # provenance of the angle's argument: rfft(IMP, axis=axis) - written in place or held in a local (possibly IMP's own name) - with IMP = zeros(SHP), np.put(IMP, 1, 1)
    ok = False
    puts = []
    imp = None
    if ang and ang[0].args:
        a0 = ang[0].args[0]
        cands = []
        if isinstance(a0, ast.Call) and call_name(a0) == "rfft":
            cands = [a0]
        elif isinstance(a0, ast.Name):
            cands = [d.value for d in du.defs if d.var == a0.id and d.kind == "assign" and isinstance(d.value, ast.Call) and call_name(d.value) == "rfft"]
        for rf in cands:
            if rf.args and loc_name(kwarg(rf, "axis")) == "axis" and isinstance(rf.args[0], ast.Name):
                imp = rf.args[0].id
                puts = [c for c in find(fi.node, ast.Call, nested=False) if call_name(c) == "put" and c.args and loc_name(c.args[0]) == imp]
                zdefs = [d for d in du.defs if d.var == imp and d.kind == "assign" and isinstance(d.value, ast.Call) and call_name(d.value) == "zeros"]
                ok = bool(puts) and len(puts[0].args) >= 3 and const_value(puts[0].args[1]) == (True, 1) and const_value(puts[0].args[2]) == (True, 1) and bool(zdefs)
                if ok:
                    break
    ctx.check(ok, fi, puts[0] if puts else fi.node, puts[0] if puts else "np.put(dephas, 1, 1)", "ramp = angle of the rfft (along axis) of a unit impulse at sample 1",
              "the phase ramp is not the transform of a unit impulse at index 1 along the shift axis", key="impulse", name_free=True)
    # the impulse vector is ns long along the shift axis: zeros(SHP) with SHP[axis] = ns stored before
    okshape = False
    shp = []
    if imp:
        for d in [d for d in du.defs if d.var == imp and d.kind == "assign" and isinstance(d.value, ast.Call) and call_name(d.value) == "zeros"]:
            sn = loc_name(d.value.args[0]) if d.value.args else None
            shp = [n for n in walk_function(fi.node) if isinstance(n, ast.Assign) and isinstance(n.targets[0], ast.Subscript) and loc_name(n.targets[0].value) == sn
                   and loc_name(n.targets[0].slice) == "axis" and (loc_name(n.value) == "ns" or (isinstance(n.value, ast.BoolOp) and isinstance(n.value.op, ast.Or)
                                                                                                        and loc_name(n.value.values[0]) == "ns" and "shape[axis]" in src(n.value.values[1])))]
            okshape = bool(shp) and any(du.cfg.must_pass([du.cfg.node_for(x)], d.node) for x in shp)
    ctx.check(okshape, fi, shp[0] if shp else fi.node, shp[0] if shp else "shape[axis] = ns",
              "impulse vector has ns samples along the shift axis and 1 elsewhere", "impulse vector is not ns long along the shift axis", key="impulse-shape", name_free=True)
    _resync(ctx, repo, fi)


def _resync(ctx, repo, fi):
    fw = repo.fn("ibldsp.waveforms.wave_shift_corrmax")
    duw = DefUse(fw.node)
    calls = resolved_calls(repo, fw, FN)
    rets = returns_of(fw.node)
    ok = False
    if calls and rets and isinstance(rets[-1].value, ast.Tuple):
        rep = loc_name(rets[-1].value.elts[1])
        b = bind(calls[0], fi)
        s = b.bound.get("s")
        ok = isinstance(s, ast.UnaryOp) and isinstance(s.op, ast.USub) and loc_name(s.operand) == rep and loc_name(b.bound.get("w")) == "spike2"
    ctx.check(ok, fw, calls[0] if calls else fw.node, calls[0] if calls else "fshift(spike2, -shift)", "the copy is re-aligned by undoing the reported shift",
              "wave_shift_corrmax does not resynchronise spike2 with the negation of the shift it reports", key="resync")
    sd = [d for d in duw.defs if d.var == (loc_name(rets[-1].value.elts[1]) if rets and isinstance(rets[-1].value, ast.Tuple) else "") and d.kind == "assign"]
    if sd:
        ev2 = Evaluator(resolve=lambda e: repo.resolve_expr(fw, e))
        ev2.facts.int_syms |= {"sig_len"}
        p = ev2.ev(sd[0].value)
        c = p.coeff("ipeak")
        ctx.check(c == -1 and "floor" in p.canon() or "floordiv" in p.canon(), fw, sd[0].stmt, f"shift = {p}", "reported shift = -(peak lag - centre of the 'same' correlation)",
                  f"reported shift normalises to {p}: sign or centre of the correlation peak is wrong", key="reported")


class _ShiftToName(ast.NodeTransformer):
    """wrapper chains around the shift parameter (array / reshape / row blocks) -> the bare name: they do not change values"""

    def __init__(self, sp):
        self.sp = sp

    def generic_visit(self, node):
        node = super().generic_visit(node)
        cur = node
        while True:
            if isinstance(cur, ast.Call) and call_name(cur) in _WRAP + ("reshape",):
                inner = cur.func.value if isinstance(cur.func, ast.Attribute) and not (isinstance(cur.func.value, ast.Name) and cur.func.value.id in ("np", "numpy")) \
                    else (cur.args[0] if cur.args else None)
            elif isinstance(cur, ast.Subscript) and isinstance(cur.slice, (ast.Slice, ast.Tuple)):
                inner = cur.value
            else:
                break
            if inner is None:
                break
            cur = inner
        if isinstance(cur, ast.Name) and cur.id == self.sp and cur is not node:
            return ast.Name(id=self.sp, ctx=ast.Load())
        return node


def _model_impulse_ramp(ctx, repo, fi, want):
    """The exponent, with every local substituted, is 1j * angle(rfft(unit impulse at 1)) * s on every path.  -> False when the
    substituted exponent has no angle() term (the ramp is analytic)."""
    try:
        paths = _sym_paths(fi.node.body, _PathRec(), [4000])
    except Undecided:
        return False
    sites = [(orig, val) for pth in paths for orig, tgt, val, assume in pth.sites]
    if not sites or not all(any(isinstance(c, ast.Call) and call_name(c) == "angle" for c in ast.walk(val)) for _, val in sites):
        return False
    seen = set()
    for orig, val in sites:
        expc = [c for c in ast.walk(val) if isinstance(c, ast.Call) and call_name(c) == "exp"][0]
        k = src(expc)
        if k in seen:
            continue
        seen.add(k)
        ex = _ShiftToName(fi.params[1]).visit(_copy.deepcopy(expc.args[0]))
        # reshape of the ramp does not change values either
        class _R(ast.NodeTransformer):
            def visit_Call(self, node):
                self.generic_visit(node)
                rp = _reshape_parts(node)
                return rp[0] if rp is not None else node
        ex = _R().visit(ex)
        ev = _EvJ(resolve=lambda e: repo.resolve_expr(fi, e))
        try:
            pp = ev.ev(ex)
        except Undecided as e:
            raise AnalysisError(f"fshift: phase expression not evaluable: {e}")
        ctx.check(pp == want, fi, orig, f"exponent = {pp}", "positive s delays the signal (phase = +angle of a one-sample delay times s)",
                  f"phase exponent normalises to {pp}, expected {want}: the shift direction or scale is wrong", key="phase", name_free=True)
        for ang in [c for c in ast.walk(expc) if isinstance(c, ast.Call) and call_name(c) == "angle"]:
            a0 = ang.args[0] if ang.args else None
            rp = _reshape_parts(a0) if a0 is not None else None
            a0 = rp[0] if rp is not None else a0
            ok = False
            oklen = False
            if isinstance(a0, ast.Call) and call_name(a0) == "rfft" and a0.args:
                imp = a0.args[0]
                ax = kwarg(a0, "axis")
                if isinstance(imp, ast.Call) and call_name(imp) == "__setitem" and const_value(imp.args[1]) == (True, 1) and const_value(imp.args[2]) == (True, 1) \
                        and isinstance(imp.args[0], ast.Call) and call_name(imp.args[0]) == "zeros" and imp.args[0].args:
                    ok = True
                    shp = imp.args[0].args[0]
                    one_d = not isinstance(shp, (ast.Tuple, ast.List)) and not (isinstance(shp, ast.Call) and call_name(shp) == "__setitem")
                    if one_d:
                        # zeros(ns): one-dimensional impulse, transformed along its only axis
                        oklen = ax is None and (loc_name(shp) == "ns" or (isinstance(shp, ast.BoolOp) and loc_name(shp.values[0]) == "ns")
                                                or (isinstance(shp, ast.Call) and call_name(shp) == "int" and "ns" in src(shp)))
                    else:
                        oklen = loc_name(ax) == "axis" and isinstance(shp, ast.Call) and call_name(shp) == "__setitem" and loc_name(shp.args[1]) == "axis" \
                            and (loc_name(shp.args[2]) == "ns" or (isinstance(shp.args[2], ast.BoolOp) and loc_name(shp.args[2].values[0]) == "ns"))
            if not ok:
                return _fallback_undecided(orig)
            ctx.ok(fi, orig, orig, "ramp = angle of the rfft of a unit impulse at sample 1", key="impulse")
            ctx.check(oklen, fi, orig, orig, "impulse vector has ns samples along the transformed axis", "impulse vector is not ns long along the transformed axis",
                      key="impulse-shape", name_free=True)
    return True


def _fallback_undecided(orig):
    raise AnalysisError(f"fshift: provenance of the phase ramp in `{src(orig)[:60]}` not understood")


class _Rat:
    """num/den of polynomials: enough to compare analytic phase ramps exactly (a/b == c/d iff a*d == b*c)."""

    def __init__(self, num, den=None):
        self.n, self.d = num, den if den is not None else Poly.const(1)

    def __add__(self, o):
        return _Rat(self.n * o.d + o.n * self.d, self.d * o.d)

    def __sub__(self, o):
        return _Rat(self.n * o.d - o.n * self.d, self.d * o.d)

    def __mul__(self, o):
        return _Rat(self.n * o.n, self.d * o.d)

    def __truediv__(self, o):
        return _Rat(self.n * o.d, self.d * o.n)

    def __neg__(self):
        return _Rat(-self.n, self.d)

    def same(self, o):
        return self.n * o.d == o.n * self.d

    def __repr__(self):
        return f"({self.n})/({self.d})"


_RAMP = {"repo": None, "fi": None, "env": []}


def _ramp_eval(e, r, du, at, depth=0):
    """Evaluate an analytic phase expression to a rational function of N (= ns), K (bin index), PI, J, s, with ns // 2 = (N - r)/2."""
    N, K = Poly.sym("N"), Poly.sym("K")
    if depth > 12:
        raise Undecided("expansion too deep")
    rec = lambda x: _ramp_eval(x, r, du, at, depth + 1)  # noqa: E731
    if isinstance(e, ast.Constant):
        if isinstance(e.value, complex):
            return _Rat(Poly.sym("J") * Poly.const(e.value.imag))
        if isinstance(e.value, (int, float)):
            return _Rat(Poly.const(e.value))
    if isinstance(e, ast.Name):
        if _RAMP["env"] and e.id in _RAMP["env"][-1]:
            return _RAMP["env"][-1][e.id]
        if e.id == "ns":
            return _Rat(N)
        if e.id == "s":
            return _Rat(Poly.sym("s"))
        if e.id == "pi":
            return _Rat(Poly.sym("PI"))
        v = expand_name(du, e, at) if du is not None else e
        if v is not e:
            return rec(v)
        raise Undecided(f"name {e.id}")
    if isinstance(e, ast.BoolOp) and isinstance(e.op, ast.Or) and len(e.values) == 2 and loc_name(e.values[0]) == "ns" \
            and isinstance(e.values[1], ast.Subscript) and loc_name(e.values[1].slice) == "axis" and src(e.values[1].value).endswith(".shape"):
        return _Rat(N)  # ns = ns or w.shape[axis]
    if isinstance(e, ast.Attribute) and e.attr == "pi":
        return _Rat(Poly.sym("PI"))
    if isinstance(e, ast.UnaryOp) and isinstance(e.op, ast.USub):
        return -rec(e.operand)
    if isinstance(e, ast.BinOp):
        if isinstance(e.op, ast.FloorDiv) and isinstance(e.right, ast.Constant) and e.right.value == 2 and rec(e.left).same(_Rat(N)):
            return _Rat(N - Poly.const(r), Poly.const(2))
        a, b = rec(e.left), rec(e.right)
        if isinstance(e.op, ast.Add):
            return a + b
        if isinstance(e.op, ast.Sub):
            return a - b
        if isinstance(e.op, ast.Mult):
            return a * b
        if isinstance(e.op, ast.Div):
            return a / b
    if isinstance(e, ast.Subscript) and isinstance(e.value, ast.Call) and call_name(e.value) == "__setitem" and len(e.value.args) == 3 and norm(e.value.args[1]) == norm(e.slice):
        return rec(e.value.args[2])      # x[k] right after x[k] = v
    if isinstance(e, ast.Call):
        nm = call_name(e)
        if nm in ("int",) and len(e.args) == 1:
            return rec(e.args[0])
        if nm == "angle" and e.args and du is not None:
            # angle(rfft(IMP)) with IMP = zeros(n); np.put(IMP, 1, 1): the phase of a one-sample delay, bin k of an n-point rfft has angle -2*pi*k/n
            a0 = expand_name(du, e.args[0], at)
            if isinstance(a0, ast.Call) and call_name(a0) == "rfft" and a0.args and isinstance(a0.args[0], ast.Name):
                imp = a0.args[0].id
                zd = [d for d in du.defs if d.var == imp and d.kind == "assign" and isinstance(d.value, ast.Call) and call_name(d.value) == "zeros" and d.value.args]
                puts = [c for c in find(du.fn, ast.Call) if call_name(c) == "put" and len(c.args) >= 3 and loc_name(c.args[0]) == imp
                        and const_value(c.args[1]) == (True, 1) and const_value(c.args[2]) == (True, 1)]
                n_r = kwarg(a0, "n") or (a0.args[1] if len(a0.args) > 1 else None)
                if len(zd) == 1 and puts and n_r is None and not isinstance(zd[0].value.args[0], (ast.Tuple, ast.List)):
                    n = rec(zd[0].value.args[0])
                    if not n.same(_Rat(N)):
                        raise Undecided(f"impulse of {n} samples, not ns")
                    return _Rat(Poly.const(-2) * Poly.sym("PI") * K) / n
        if nm in ("reshape", "astype", "copy") and isinstance(e.func, ast.Attribute) and not (isinstance(e.func.value, ast.Name) and e.func.value.id in ("np", "numpy")):
            return rec(e.func.value)
        if nm in _WRAP + ("reshape", "float", "expand_dims") and e.args:
            return rec(e.args[0])
        if nm == "arange" and len(e.args) == 1 and isinstance(e.args[0], ast.Subscript) and loc_name(e.args[0].slice) == "axis" \
                and isinstance(e.args[0].value, ast.Attribute) and e.args[0].value.attr == "shape" and _is_spectrum(e.args[0].value.value):
            return _Rat(K)  # one value per bin of the spectrum along the shift axis
        if nm == "arange" and len(e.args) == 1:
            n = rec(e.args[0])
            if not n.same(_Rat(N - Poly.const(r), Poly.const(2)) + _Rat(Poly.const(1))):
                raise Undecided(f"arange over {n} bins is not the rfft length ns//2 + 1")
            return _Rat(K)
        if nm == "linspace" and len(e.args) >= 3:
            a, b, n = rec(e.args[0]), rec(e.args[1]), rec(e.args[2])
            if not n.same(_Rat(N - Poly.const(r), Poly.const(2)) + _Rat(Poly.const(1))):
                raise Undecided(f"linspace over {n} points is not the rfft length ns//2 + 1")
            return a + (b - a) * _Rat(K) / (n - _Rat(Poly.const(1)))
        if nm == "rfftfreq" and e.args:
            return _Rat(K) / rec(e.args[0])
        # a helper of the library (possibly memoised): its single returned expression with the arguments substituted
        repo_, fi_ = _RAMP["repo"], _RAMP["fi"]
        q = repo_.resolve_expr(fi_, e.func) if repo_ is not None else None
        if q in getattr(repo_, "functions", {}) and not e.keywords and depth < 10:
            h = repo_.functions[q]
            rets = returns_of(h.node)
            if len(rets) == 1 and rets[0].value is not None and len(h.params) == len(e.args):
                frame = {p_: rec(a_) for p_, a_ in zip(h.params, e.args)}
                _RAMP["env"].append(frame)
                try:
                    return _ramp_eval(rets[0].value, r, DefUse(h.node), rets[0], depth + 1)
                finally:
                    _RAMP["env"].pop()
    raise Undecided(f"cannot evaluate {src(e)[:60]}")


def _is_spectrum(e):
    """rfft(w, axis=axis), or the input itself on the path where it already is a spectrum"""
    if isinstance(e, ast.IfExp):
        return _is_spectrum(e.body) or _is_spectrum(e.orelse)
    return isinstance(e, ast.Call) and call_name(e) == "rfft" and loc_name(kwarg(e, "axis")) == "axis"


def _bin_vectors(exponent):
    """arange(...) terms of the exponent with the shape they are given: [(arange call, reshape shape or None)]"""
    parents = {}
    for par in ast.walk(exponent):
        for ch in ast.iter_child_nodes(par):
            parents[id(ch)] = par
    out = []
    for n in ast.walk(exponent):
        if isinstance(n, ast.Call) and call_name(n) in ("arange", "rfftfreq", "linspace"):
            shp = None
            par = parents.get(id(n))
            if isinstance(par, ast.Attribute) and par.attr == "reshape" and isinstance(parents.get(id(par)), ast.Call):
                c = parents[id(par)]
                shp = c.args[0] if len(c.args) == 1 else ast.Tuple(elts=list(c.args), ctx=ast.Load())
            elif isinstance(par, ast.Call) and call_name(par) == "reshape" and len(par.args) >= 2 and par.args[0] is n:
                shp = par.args[1]
            out.append((n, shp))
    return out


def _analytic_ramp(ctx, repo, fi, du, exp_call):
    """The phase ramp is written analytically: bin k of an rfft of length ns must get phase -2*pi*k/ns, for both parities of ns."""
    verdicts = {}
    _RAMP["repo"], _RAMP["fi"], _RAMP["env"] = repo, fi, []
    want = _Rat(Poly.sym("J") * Poly.const(-2) * Poly.sym("PI") * Poly.sym("K") * Poly.sym("s"), Poly.sym("N"))
    try:
        recs = phase_model(repo, fi)
    except Undecided as e:
        raise AnalysisError(f"fshift: analytic phase expression not evaluable: {e}")
    exponents = [(sub.args[0], None) for _, sub, orig in recs if orig is exp_call] or [(exp_call.args[0], du)]
    for par, r in (("even", 0), ("odd", 1)):
        oks, gots = [], []
        for ex, d in exponents:
            try:
                got = _ramp_eval(ex, r, d, exp_call)
            except Undecided as e:
                raise AnalysisError(f"fshift: analytic phase expression not evaluable: {e}")
            oks.append(got.same(want))
            gots.append(got)
        bad_i = [i for i, o in enumerate(oks) if not o]
        verdicts[par] = (not bad_i, gots[bad_i[0]] if bad_i else gots[0])
    bad = [k for k, (ok, _) in verdicts.items() if not ok]
    ctx.check(not bad, fi, exp_call, f"analytic phase: even ns -> {verdicts['even'][1]} ; odd ns -> {verdicts['odd'][1]}",
              "analytic ramp gives bin k the phase -2*pi*k/ns for even and odd lengths",
              f"analytic phase ramp is wrong for {' and '.join(bad)} lengths: bin k gets {verdicts[bad[0]][1] if bad else ''} (N = ns) instead of -2*pi*k*s/ns "
              "(for odd ns the last rfft bin is not Nyquist): every shift on such an axis is scaled", key="phase", name_free=True)


def _argmax_offset(du, e, at, depth=6):
    """Describe an index expression relative to the arg-max index: (offset, clipped) when it is imax + offset (possibly clipped to the
    array bounds), None when it is something else."""
    if depth <= 0:
        return None
    if isinstance(e, ast.Name):
        ds = du.strong_reaching(e.id, at)
        if len(ds) == 1 and ds[0].kind == "assign" and ds[0].value is not None and ds[0].unpack_index is None:
            return _argmax_offset(du, ds[0].value, ds[0].stmt, depth - 1)
        return None
    if isinstance(e, ast.Call) and call_name(e) == "argmax":
        return (0, False)
    if isinstance(e, ast.Call) and call_name(e) in ("clip", "maximum", "minimum") and e.args:
        inner = [a for a in e.args if _argmax_offset(du, a, at, depth - 1) is not None]
        if len(inner) == 1:
            off, _ = _argmax_offset(du, inner[0], at, depth - 1)
            return (off, True)
        return None
    if isinstance(e, ast.BinOp) and isinstance(e.op, (ast.Add, ast.Sub)):
        l, r = _argmax_offset(du, e.left, at, depth - 1), const_value(e.right)
        if l is not None and r[0] and isinstance(r[1], int):
            return (l[0] + (r[1] if isinstance(e.op, ast.Add) else -r[1]), l[1])
        # imax + np.array([[-1], [0], [1]]) : a stencil; described by its element when subscripted (below)
        return None
    if isinstance(e, ast.Subscript):
        ok, k = const_value(e.slice)
        base = e.value
        if isinstance(base, ast.Name):
            ds = du.strong_reaching(base.id, at)
            if len(ds) == 1 and ds[0].value is not None:
                base, at = ds[0].value, ds[0].stmt
        clipped = False
        while isinstance(base, ast.Call) and call_name(base) in ("clip", "maximum", "minimum") and base.args:
            clipped = True
            base = base.args[0]
        if ok and isinstance(k, int) and isinstance(base, ast.BinOp) and isinstance(base.op, ast.Add):
            l = _argmax_offset(du, base.left, at, depth - 1)
            offs = [c.value for c in find(base.right, ast.Constant) if isinstance(c.value, int)] if isinstance(base.right, ast.Call) else None
            negs = []
            if isinstance(base.right, ast.Call) and base.right.args:
                for x in ast.walk(base.right.args[0]):
                    if isinstance(x, ast.UnaryOp) and isinstance(x.op, ast.USub) and isinstance(x.operand, ast.Constant):
                        negs.append(-x.operand.value)
                    elif isinstance(x, ast.Constant) and isinstance(x.value, int):
                        negs.append(x.value)
                # constants under a unary minus were collected twice (as -c and c): keep source order of the literal
                seq = []
                for x in ast.walk(base.right.args[0]):
                    pass
                txt = src(base.right.args[0]).replace("[", " ").replace("]", " ").replace(",", " ").split()
                try:
                    seq = [int(t) for t in txt]
                except ValueError:
                    seq = []
                if l is not None and seq and -len(seq) <= k < len(seq):
                    return (l[0] + seq[k], clipped or l[1])
            _ = offs
        return None
    return None


TRUNC = ("int", "trunc", "fix")
FLOOR = ("floor",)


def _round_kind(e, var):
    """How an expression turns the shift `var` into whole samples: 'trunc' | 'floor' | 'round' | 'ceil' | None."""
    cur = e
    kind = None
    while isinstance(cur, ast.Call) and cur.args:
        nm = call_name(cur)
        if nm in ("int", "float", "int32", "int64", "asarray", "array"):
            # int() of an already rounded value keeps that rounding; int() directly on the shift truncates
            inner = cur.args[0]
            if nm == "int" and loc_name(inner) == var:
                return "trunc"
            cur = inner
            continue
        if nm in ("trunc", "fix"):
            kind = kind or "trunc"
        elif nm == "floor":
            kind = kind or "floor"
        elif nm in ("round", "rint", "around"):
            kind = kind or "round"
        elif nm == "ceil":
            kind = kind or "ceil"
        else:
            return None
        cur = cur.args[0]
    if isinstance(cur, ast.BinOp) and isinstance(cur.op, ast.FloorDiv) and loc_name(cur.left) == var and const_value(cur.right) == (True, 1):
        return kind or "floor"
    if loc_name(cur) == var:
        return kind
    return None


def _remainder_kind(e, var, whole):
    """Which whole part an expression for the remaining fractional shift presupposes: s % 1 = s - floor(s); fmod(s, 1) = s - trunc(s); s - W = that of W."""
    if isinstance(e, ast.BinOp) and isinstance(e.op, ast.Mod) and loc_name(e.left) == var and const_value(e.right) == (True, 1):
        return "floor"
    if isinstance(e, ast.Call) and e.args and len(e.args) >= 2 and loc_name(e.args[0]) == var and const_value(e.args[1]) == (True, 1):
        if call_name(e) in ("mod", "remainder"):
            return "floor"
        if call_name(e) == "fmod":
            return "trunc"
    if isinstance(e, ast.BinOp) and isinstance(e.op, ast.Sub) and loc_name(e.left) == var:
        if whole is not None and norm(e.right) == norm(whole):
            return "same"
        return _round_kind(e.right, var)
    return None


def d6_whole_fraction(ctx):
    ctx.rule("D6", "a shift applied in two parts - whole samples by np.roll, the rest by the phase ramp - adds up to the requested shift (the rounding of the whole "
                   "part and the remainder agree for negative non-integer shifts too)")
    repo = ctx.repo
    fi = repo.fn(FN)
    du = DefUse(fi.node)
    sp = fi.params[1] if len(fi.params) > 1 else "s"
    rolls = [c for c in find(fi.node, ast.Call, nested=False) if call_name(c) == "roll" and len(c.args) >= 2]
    if not rolls:
        ctx.ok(fi, fi.node, "no np.roll in fshift", "the whole shift goes through the phase ramp", key="split:none")
        return
    for c in rolls:
        k = c.args[1]
        if not any(isinstance(n, ast.Name) and n.id == sp for n in ast.walk(k)):
            continue
        wk = _round_kind(k, sp)
        st = du.cfg.node_for(c).stmt
        if isinstance(st, ast.Return) and st.value is c:
            # the whole shift is applied as a roll and returned: right exactly when the shift IS a whole number on this path
            from sa import guards as GD
            at_ = GD.Atoms()
            pc_ = GD.path_condition(du.cfg, du.cfg.node_for(c), at_)
            exact = approx = None
            for k_ in GD.atoms_of(pc_):
                e_ = at_.exprs.get(k_)
                if e_ is None or GD.entails(pc_, GD.Atom(k_)) is not True:
                    continue
                t_ = src(e_).replace(" ", "")
                if isinstance(e_, ast.Compare) and len(e_.ops) == 1 and isinstance(e_.ops[0], ast.Eq) and sp in t_ and any(w in t_ for w in ("round(", "int(", "floor(", "rint(", "%1")):
                    exact = e_
                if isinstance(e_, ast.Call) and call_name(e_) == "is_integer" and sp in t_:
                    exact = e_
                if isinstance(e_, ast.Call) and call_name(e_) in ("isclose", "allclose") and sp in t_:
                    approx = e_
            if exact is not None:
                ctx.ok(fi, c, c, f"roll-only path taken when `{src(exact)[:50]}`: the shift is a whole number of samples there", key="split:roll-only")
            elif approx is not None:
                ctx.violation(fi, c, c, f"the shift is applied as a pure roll by `{src(k)}` whenever `{src(approx)[:60]}`: that test has a RELATIVE tolerance (rtol * |s|), so a shift "
                              "such as 2046.984 or 300.002 counts as whole and its fractional part is dropped - the output is a roll instead of the analytic delay, and shifts no "
                              "longer compose", key="split:roll-only", name_free=True)
            else:
                ctx.violation(fi, c, c, f"the shift is applied as a pure roll by `{src(k)}` on a path that does not establish that the shift is a whole number of samples "
                              f"(guards: {GD.show(pc_)[:140]})", key="split:roll-only", name_free=True)
            continue
        # the remainder: the value bound to the shift by the same statement (tuple assignment) or by the next assignment to it
        rem = None
        if isinstance(st, ast.Assign) and isinstance(st.targets[0], ast.Tuple) and isinstance(st.value, ast.Tuple) and len(st.targets[0].elts) == len(st.value.elts):
            for t, v in zip(st.targets[0].elts, st.value.elts):
                if loc_name(t) == sp:
                    rem = v
        if rem is None:
            later = [d for d in du.defs if d.var == sp and d.kind in ("assign", "aug") and d.stmt is not None and du.cfg.reachable(du.cfg.node_for(c), d.node)]
            if later and later[0].kind == "assign":
                rem = later[0].value
            elif later and isinstance(later[0].stmt, ast.AugAssign) and isinstance(later[0].stmt.op, ast.Sub):
                rem = ast.BinOp(left=ast.Name(id=sp, ctx=ast.Load()), op=ast.Sub(), right=later[0].stmt.value)
                if isinstance(later[0].stmt.op, ast.Mod):
                    rem = ast.BinOp(left=ast.Name(id=sp, ctx=ast.Load()), op=ast.Mod(), right=later[0].stmt.value)
        if rem is None:
            ctx.violation(fi, c, c, f"`{src(c)}` applies whole samples of the shift but the shift handed to the phase ramp is not reduced: the whole part is applied twice",
                          key="split:no-remainder", name_free=True)
            continue
        rk = _remainder_kind(rem, sp, k)
        if wk is None or rk is None:
            raise AnalysisError(f"fshift: whole / fractional split `{src(k)}` + `{src(rem)}` not understood")
        ok = rk == "same" or rk == wk
        ctx.check(ok, fi, st, f"roll by {src(k)} ; remainder {src(rem)}", "whole part and remainder add up to the shift for every sign",
                  f"the whole part `{src(k)}` rounds {'toward zero' if wk == 'trunc' else wk} but the remainder `{src(rem)}` is the shift minus its {rk}: for a negative non-integer shift "
                  f"(e.g. -2.5 -> roll by {'-2' if wk == 'trunc' else '-3'}, remainder {'+0.5' if rk == 'floor' else '-0.5'}) the two parts are one whole sample apart from the request",
                  key="split", name_free=True)


def d5_parabolic_edges(ctx):
    ctx.rule("D5", "parabolic_max falls back to the raw sample exactly when the arg-max is the first or the last sample (imax == 0 | imax == ns - 1)")
    repo = ctx.repo
    fi = repo.fn("ibldsp.utils.parabolic_max")
    du = DefUse(fi.node)
    ors = [c for c in find(fi.node, ast.Call, nested=False) if call_name(c) in ("logical_or", "bitwise_or") and len(c.args) == 2
           and all(isinstance(a, ast.Compare) and len(a.ops) == 1 and isinstance(a.ops[0], ast.Eq) for a in c.args)]
    if not ors:
        raise AnchorMissing("parabolic_max: edge mask `first sample or last sample` not found")
    m = ors[0]
    st = du.cfg.node_for(m).stmt
    sides = []
    for cmp_ in m.args:
        d = _argmax_offset(du, cmp_.left, st)
        if d is None:
            raise AnalysisError(f"parabolic_max: edge test operand `{src(cmp_.left)}` is not understood relative to the arg-max index")
        sides.append((d, cmp_))
    for (off, clipped), cmp_ in sides:
        ctx.check(off == 0, fi, cmp_, cmp_, "the edge test is taken on the arg-max index itself",
                  f"`{src(cmp_)}` tests the {'clipped ' if clipped else ''}index arg-max{off:+d}, not the arg-max: a maximum on the second / penultimate sample is treated as an edge, "
                  "the parabolic interpolation is skipped there and the delay estimate snaps to an integer (error up to half a sample)", key="edge:" + norm(cmp_.comparators[0])[:30])
    # positions as normal forms over the length of the last axis (held in a local or written as x.shape[-1])
    class EL(Evaluator):
        def ev(self, e):
            if isinstance(e, ast.Subscript) and src(e).replace(" ", "") in (f"{fi.params[0]}.shape[-1]", f"{fi.params[0]}.shape[{fi.params[0]}.ndim-1]"):
                return Poly.sym("NS")
            if isinstance(e, ast.Name):
                v = expand_name(du, e, st)
                if v is not e:
                    return self.ev(v)
            return super().ev(e)
    try:
        pos = sorted((EL().ev(c.comparators[0]) for _, c in sides), key=lambda p_: p_.canon())
    except Undecided as ex:
        raise AnalysisError(f"parabolic_max: edge positions not evaluable: {ex}")
    want = sorted([Poly.const(0), Poly.sym("NS") - Poly.const(1)], key=lambda p_: p_.canon())
    ctx.check(pos == want, fi, m, m, "edges are sample 0 and sample ns - 1", f"edge positions are {[str(p_) for p_ in pos]}, expected 0 and ns - 1", key="edge-positions")


def run(ctx):
    ctx.run(d5_parabolic_edges)
    ctx.run(d6_whole_fraction)
    ctx.run(d1_no_mutation)
    ctx.run(d2_restore)
    ctx.run(d3_broadcast)
    ctx.run(d4_sign)
