"""C07 - Fourier time shift is an exact, composable delay (partial claim: structural clauses)."""
import ast

from sa.algebra import Evaluator, Poly, Undecided
from sa.calls import bind
from sa.cfg import CFG, conjuncts
from sa.common import expand_name, returns_of, resolved_calls, shared_kind, shared_returning, value_alternatives
from sa.defuse import DefUse, loc_name
from sa.model import AnalysisError, AnchorMissing, const_value, src, walk_function
from sa.struct import call_name, find, kwarg, norm

EXPLANATION = (
    "Partial claim. Decides structural necessary conditions of C07 in fourier.fshift: (D1) every in-place operation "
    "targets a freshly allocated array on the path taken for real input; the alias of the caller's array exists only on the "
    "complex-input path, so a real input is never mutated; (D2) the inverse transform receives the original length and the "
    "shift axis, and the result is cast back to the input dtype before being returned; (D3) non-scalar shifts are reshaped to "
    "the input's shape with the shift axis set to 1 (one shift per trace); (D4) the phase ramp comes from a unit impulse at "
    "index 1 transformed along the shift axis and enters as exp(+1j * angle * s) (positive s delays); wave_shift_corrmax "
    "re-aligns with the negated reported shift. Integer shift == roll, additivity, sub-sample accuracy and the estimator's "
    "accuracy are numerical and NOT decided."
    ' (D6) when a shift is applied in two parts - whole samples by np.roll and the remainder by the phase ramp - the rounding of the whole part (trunc / floor / round) and the remainder expression (s % 1 = s - floor(s); fmod; s - whole) agree, so that the parts add up for negative non-integer shifts.'
)
ASSUMPTIONS = [
    "scipy.fft.rfft / irfft return fresh arrays; x *= y mutates x in place; np.put writes in place (model table)",
    "irfft(X, n, axis) returns n samples along axis",
]

FN = "ibldsp.fourier.fshift"
FRESH = ("rfft", "fft", "zeros", "zeros_like", "ones", "empty", "array", "copy", "astype", "real", "irfft", "ifft", "exp")


class _EvJ(Evaluator):
    def ev(self, e):
        if isinstance(e, ast.Constant) and isinstance(e.value, complex):
            return Poly.sym("J") * Poly.const(e.value.imag)
        if isinstance(e, ast.Call) and call_name(e) == "angle":
            return Poly.sym("ANGLE")
        if isinstance(e, ast.Subscript):
            # h["sample_shift"][:, np.newaxis] and friends: broadcasting views of the same values
            base = e
            while isinstance(base, ast.Subscript) and not (isinstance(base.slice, ast.Constant)):
                base = base.value
            if base is not e:
                return self.ev(base)
        return super().ev(e)


def d1_no_mutation(ctx):
    ctx.rule("D1", "in-place operations in fshift only touch fresh arrays when the input is real")
    repo = ctx.repo
    fi = repo.fn(FN)
    du = DefUse(fi.node)
    cfg = du.cfg
    param = fi.params[0]
    shared = shared_returning(repo)
    muts = []
    for n in walk_function(fi.node):
        if isinstance(n, ast.AugAssign):
            base = n.target
            while isinstance(base, ast.Subscript):
                base = base.value
            if loc_name(base):
                muts.append((n, loc_name(base)))
        elif isinstance(n, ast.Assign) and isinstance(n.targets[0], ast.Subscript):
            base = n.targets[0]
            while isinstance(base, ast.Subscript):
                base = base.value
            if loc_name(base):
                muts.append((n, loc_name(base)))
        elif isinstance(n, ast.Expr) and isinstance(n.value, ast.Call) and call_name(n.value) in ("put", "copyto", "fill", "sort", "place", "putmask"):
            a = n.value.args[0] if n.value.args and call_name(n.value) in ("put", "copyto", "place", "putmask") else getattr(n.value.func, "value", None)
            if a is not None and loc_name(a):
                muts.append((n, loc_name(a)))
    if not muts:
        ctx.note("fshift has no in-place operation")
    for n, var in muts:
        defs = du.strong_reaching(var, n)
        bad = []
        for d in defs:
            if d.kind == "param":
                if d.var == param:
                    bad.append(("param", d))
                continue
            v = d.value
            if v is None:
                continue
            if shared_kind(repo, fi, du, v, d.stmt, shared) == "array":
                bad.append(("view of the memoised result of a cached helper", d))
                continue
            alias = loc_name(v) == param or (isinstance(v, ast.Attribute) and v.attr in ("T", "real") and loc_name(v.value) == param) \
                or (isinstance(v, ast.Subscript) and loc_name(v.value) == param and isinstance(v.slice, (ast.Slice, ast.Tuple)))
            if alias:
                gs = []
                for t, pol in cfg.guards(d.node):
                    gs += conjuncts(t, pol)
                complex_only = any(loc_name(t) == "do_fft" and not pol for t, pol in gs)
                if not complex_only:
                    bad.append(("alias", d))
        memo = [k for k, d in bad if k.startswith("view of the memoised")]
        ctx.check(not bad, fi, n, n, f"target `{var}` is a fresh array whenever the input is real",
                  (f"`{src(n)[:70]}` modifies in place a {memo[0]}: the cached array is shared between calls, so one call's shift scales the phase ramp of every later "
                   "call with the same length (shifts no longer add up; a zero shift disables all later shifts)") if memo else
                  f"`{src(n)[:70]}` can modify the caller's array `{param}` in place (through {[(k, src(d.stmt)[:40] if d.stmt else 'parameter') for k, d in bad]}) for real input",
                  key="mut:" + var)
    # do_fft is the negation of "input is complex"
    dd = [d for d in du.defs if d.var == "do_fft" and d.kind == "assign"]
    ok = bool(dd) and "iscomplex" in src(dd[0].value) and ("invert" in src(dd[0].value) or "not " in src(dd[0].value) or "~" in src(dd[0].value))
    ctx.check(ok, fi, dd[0].stmt if dd else fi.node, dd[0].stmt if dd else "do_fft", "the transform path is taken exactly for real input", "do_fft is not `input is not complex`", key="do_fft")


DTYPE_PRESERVING = ("roll", "copy", "flip", "flipud", "fliplr", "ascontiguousarray", "squeeze", "reshape", "transpose", "take", "ravel")


def _dtype_source(e):
    """x for roll(x, ..) / x.copy() / ... : calls whose result has the dtype of their (first) array argument."""
    while isinstance(e, ast.Call) and call_name(e) in DTYPE_PRESERVING:
        if isinstance(e.func, ast.Attribute) and not (isinstance(e.func.value, ast.Name) and e.func.value.id in ("np", "numpy", "gp", "scipy")):
            e = e.func.value
        elif e.args:
            e = e.args[0]
        else:
            break
    return e


def d2_restore(ctx):
    ctx.rule("D2", "irfft gets (ns, axis); result cast to the input dtype on the real path and returned")
    repo = ctx.repo
    fi = repo.fn(FN)
    du = DefUse(fi.node)
    cfg = du.cfg
    irs = [c for c in find(fi.node, ast.Call, nested=False) if call_name(c) in ("irfft",)]
    if not irs:
        raise AnchorMissing("fshift: irfft not found")
    c = irs[0]
    n = kwarg(c, "n") or (c.args[1] if len(c.args) > 1 else None)
    ax = kwarg(c, "axis")
    ctx.check(n is not None and loc_name(n) == "ns" and ax is not None and loc_name(ax) == "axis", fi, c, c, "inverse transform restores ns samples along the shift axis",
              f"`{src(c)}`: inverse transform is not told (ns, axis): odd lengths or axis 0 come back with the wrong shape", key="irfft")
    fw = [x for x in find(fi.node, ast.Call, nested=False) if call_name(x) == "rfft" and x.args and loc_name(x.args[0]) == fi.params[0]]
    ctx.check(bool(fw) and loc_name(kwarg(fw[0], "axis")) == "axis", fi, fw[0] if fw else fi.node, fw[0] if fw else "rfft", "forward transform runs along the shift axis",
              "forward transform is not along the shift axis", key="rfft-axis")
    # every value the function can return that went through the inverse transform is `<...>.astype(<input>.dtype)`
    rets = returns_of(fi.node)
    n_real = 0
    for r in rets:
        if r.value is None:
            continue
        for gs, v in value_alternatives(du, r.value, r, keep=("ns", "axis")):
            if not any(call_name(x) == "irfft" for x in find(v, ast.Call)):
                continue
            n_real += 1
            okc = isinstance(v, ast.Call) and call_name(v) == "astype" and len(v.args) == 1 and isinstance(v.args[0], ast.Attribute) and v.args[0].attr == "dtype" \
                and loc_name(_dtype_source(v.args[0].value)) == fi.params[0]
            ctx.check(okc, fi, r, v, "real results are cast back to the input dtype and returned",
                      "the result is not cast back to the input's dtype (float32 in, float64 out)", key="dtype")
    if n_real == 0:
        ctx.violation(fi, fi.node, "return", "no returned value goes through the inverse transform: the real path is not restored", key="dtype")
    nd = [d for d in du.defs if d.var == "ns" and d.kind == "assign"]
    ctx.check(bool(nd) and norm(nd[0].value) == norm(ast.parse("ns or w.shape[axis]", mode="eval").body), fi, nd[0].stmt if nd else fi.node, nd[0].stmt if nd else "ns",
              "ns defaults to the length along the shift axis", "ns is not `ns or w.shape[axis]`", key="ns")


def d3_broadcast(ctx):
    ctx.rule("D3", "non-scalar s is reshaped to w.shape with [axis] = 1")
    repo = ctx.repo
    fi = repo.fn(FN)
    cfg = CFG(fi.node)
    du = DefUse(fi.node, cfg)
    # every s.reshape(<shape var>) : the shape var must be array(w.shape) with [axis] = 1 stored before, and the call must sit on the non-scalar path
    sp = fi.params[1] if len(fi.params) > 1 else "s"
    rs = []   # (call, shape argument)
    for c in find(fi.node, ast.Call, nested=False):
        if call_name(c) != "reshape":
            continue
        if isinstance(c.func, ast.Attribute) and loc_name(c.func.value) == sp and c.args:
            rs.append((c, c.args[0]))                      # s.reshape(shape)
        elif len(c.args) >= 2 and loc_name(c.args[0]) == sp:
            rs.append((c, c.args[1]))                      # np.reshape(s, shape)
    if not rs:
        ctx.violation(fi, fi.node, "s.reshape(<w.shape with [axis] = 1>)", "per-trace shifts are never reshaped for broadcasting along the non-shift axes", key="broadcast", name_free=True)
        return
    from sa import guards as GD
    for c, sharg in rs:
        shp = loc_name(sharg)
        ok = shp is not None
        detail = ""
        if ok:
            sd = [d for d in du.reaching(shp, c) if d.kind == "assign"]
            ok = bool(sd) and all(d.value is not None and f"{fi.params[0]}.shape" in src(d.value) for d in sd)
            st = [n for n in walk_function(fi.node) if isinstance(n, ast.Assign) and isinstance(n.targets[0], ast.Subscript) and loc_name(n.targets[0].value) == shp
                  and loc_name(n.targets[0].slice) == "axis" and const_value(n.value) == (True, 1)]
            ok = ok and bool(st) and any(cfg.must_pass([cfg.node_for(x)], cfg.node_for(c)) and all(cfg.reachable(d.node, cfg.node_for(x)) or d.node.id == cfg.node_for(x).id for d in sd)
                                         for x in st)
            if not st:
                detail = f"{shp}[axis] = 1 is missing"
        # the reshape sits on the path taken for non-scalar shifts: np.isscalar(s) is false there (directly or through a flag holding it)
        at = GD.Atoms()
        pc = GD.path_condition(cfg, cfg.node_for(c), at)
        nonscalar = False
        for k in GD.atoms_of(pc):
            a = at.exprs.get(k)
            a = expand_name(du, a, c) if isinstance(a, ast.Name) else a
            if isinstance(a, ast.Call) and call_name(a) == "isscalar" and a.args and loc_name(a.args[0]) == sp and GD.entails(pc, GD.Not(GD.Atom(k))) is True:
                nonscalar = True
        ctx.check(ok and nonscalar, fi, c, c, "each trace receives its own shift (broadcast across the shift axis)",
                  f"per-trace shifts are not reshaped to w.shape with the shift axis set to 1 ({detail or 'shape / guard not as required'}): shifts are broadcast along the wrong axis", key="broadcast",
                  name_free=True)


def d4_sign(ctx):
    ctx.rule("D4", "phase factor exp(+1j * angle(rfft(impulse at 1)) * s); wave_shift_corrmax resyncs with the negated shift")
    repo = ctx.repo
    fi = repo.fn(FN)
    du = DefUse(fi.node)
    exps = [c for c in find(fi.node, ast.Call, nested=False) if call_name(c) == "exp"]
    if not exps:
        raise AnchorMissing("fshift: exp() phase factor not found")
    ev = _EvJ(resolve=lambda e: repo.resolve_expr(fi, e))
    try:
        p = ev.ev(exps[0].args[0])
    except Undecided as e:
        raise AnalysisError(f"fshift: phase expression not evaluable: {e}")
    want = Poly.sym("J") * Poly.sym("ANGLE") * Poly.sym("s")
    if p != want and "ANGLE" not in p.canon():
        return _analytic_ramp(ctx, repo, fi, du, exps[0])
    ctx.check(p == want, fi, exps[0], f"exponent = {p}", "positive s delays the signal (phase = +angle of a one-sample delay times s)",
              f"phase exponent normalises to {p}, expected {want}: the shift direction or scale is wrong", key="phase")
    ang = [c for c in find(exps[0], ast.Call) if call_name(c) == "angle"]
    # provenance of the angle's argument: rfft(IMP, axis=axis) - written in place or held in a local (possibly IMP's own name) - with IMP = zeros(SHP), np.put(IMP, 1, 1)
    ok = False
    puts = []
    imp = None
    if ang and ang[0].args:
        a0 = ang[0].args[0]
        cands = []
        if isinstance(a0, ast.Call) and call_name(a0) == "rfft":
            cands = [a0]
        elif isinstance(a0, ast.Name):
            cands = [d.value for d in du.defs if d.var == a0.id and d.kind == "assign" and isinstance(d.value, ast.Call) and call_name(d.value) == "rfft"]
        for rf in cands:
            if rf.args and loc_name(kwarg(rf, "axis")) == "axis" and isinstance(rf.args[0], ast.Name):
                imp = rf.args[0].id
                puts = [c for c in find(fi.node, ast.Call, nested=False) if call_name(c) == "put" and c.args and loc_name(c.args[0]) == imp]
                zdefs = [d for d in du.defs if d.var == imp and d.kind == "assign" and isinstance(d.value, ast.Call) and call_name(d.value) == "zeros"]
                ok = bool(puts) and len(puts[0].args) >= 3 and const_value(puts[0].args[1]) == (True, 1) and const_value(puts[0].args[2]) == (True, 1) and bool(zdefs)
                if ok:
                    break
    ctx.check(ok, fi, puts[0] if puts else fi.node, puts[0] if puts else "np.put(dephas, 1, 1)", "ramp = angle of the rfft (along axis) of a unit impulse at sample 1",
              "the phase ramp is not the transform of a unit impulse at index 1 along the shift axis", key="impulse", name_free=True)
    # the impulse vector is ns long along the shift axis: zeros(SHP) with SHP[axis] = ns stored before
    okshape = False
    shp = []
    if imp:
        for d in [d for d in du.defs if d.var == imp and d.kind == "assign" and isinstance(d.value, ast.Call) and call_name(d.value) == "zeros"]:
            sn = loc_name(d.value.args[0]) if d.value.args else None
            shp = [n for n in walk_function(fi.node) if isinstance(n, ast.Assign) and isinstance(n.targets[0], ast.Subscript) and loc_name(n.targets[0].value) == sn
                   and loc_name(n.targets[0].slice) == "axis" and loc_name(n.value) == "ns"]
            okshape = bool(shp) and any(du.cfg.must_pass([du.cfg.node_for(x)], d.node) for x in shp)
    ctx.check(okshape, fi, shp[0] if shp else fi.node, shp[0] if shp else "shape[axis] = ns",
              "impulse vector has ns samples along the shift axis and 1 elsewhere", "impulse vector is not ns long along the shift axis", key="impulse-shape", name_free=True)
    fw = repo.fn("ibldsp.waveforms.wave_shift_corrmax")
    duw = DefUse(fw.node)
    calls = resolved_calls(repo, fw, FN)
    rets = returns_of(fw.node)
    ok = False
    if calls and rets and isinstance(rets[-1].value, ast.Tuple):
        rep = loc_name(rets[-1].value.elts[1])
        b = bind(calls[0], fi)
        s = b.bound.get("s")
        ok = isinstance(s, ast.UnaryOp) and isinstance(s.op, ast.USub) and loc_name(s.operand) == rep and loc_name(b.bound.get("w")) == "spike2"
    ctx.check(ok, fw, calls[0] if calls else fw.node, calls[0] if calls else "fshift(spike2, -shift)", "the copy is re-aligned by undoing the reported shift",
              "wave_shift_corrmax does not resynchronise spike2 with the negation of the shift it reports", key="resync")
    sd = [d for d in duw.defs if d.var == (loc_name(rets[-1].value.elts[1]) if rets and isinstance(rets[-1].value, ast.Tuple) else "") and d.kind == "assign"]
    if sd:
        ev2 = Evaluator(resolve=lambda e: repo.resolve_expr(fw, e))
        ev2.facts.int_syms |= {"sig_len"}
        p = ev2.ev(sd[0].value)
        c = p.coeff("ipeak")
        ctx.check(c == -1 and "floor" in p.canon() or "floordiv" in p.canon(), fw, sd[0].stmt, f"shift = {p}", "reported shift = -(peak lag - centre of the 'same' correlation)",
                  f"reported shift normalises to {p}: sign or centre of the correlation peak is wrong", key="reported")


class _Rat:
    """num/den of polynomials: enough to compare analytic phase ramps exactly (a/b == c/d iff a*d == b*c)."""

    def __init__(self, num, den=None):
        self.n, self.d = num, den if den is not None else Poly.const(1)

    def __add__(self, o):
        return _Rat(self.n * o.d + o.n * self.d, self.d * o.d)

    def __sub__(self, o):
        return _Rat(self.n * o.d - o.n * self.d, self.d * o.d)

    def __mul__(self, o):
        return _Rat(self.n * o.n, self.d * o.d)

    def __truediv__(self, o):
        return _Rat(self.n * o.d, self.d * o.n)

    def __neg__(self):
        return _Rat(-self.n, self.d)

    def same(self, o):
        return self.n * o.d == o.n * self.d

    def __repr__(self):
        return f"({self.n})/({self.d})"


def _ramp_eval(e, r, du, at, depth=0):
    """Evaluate an analytic phase expression to a rational function of N (= ns), K (bin index), PI, J, s, with ns // 2 = (N - r)/2."""
    N, K = Poly.sym("N"), Poly.sym("K")
    if depth > 12:
        raise Undecided("expansion too deep")
    rec = lambda x: _ramp_eval(x, r, du, at, depth + 1)  # noqa: E731
    if isinstance(e, ast.Constant):
        if isinstance(e.value, complex):
            return _Rat(Poly.sym("J") * Poly.const(e.value.imag))
        if isinstance(e.value, (int, float)):
            return _Rat(Poly.const(e.value))
    if isinstance(e, ast.Name):
        if e.id == "ns":
            return _Rat(N)
        if e.id == "s":
            return _Rat(Poly.sym("s"))
        if e.id == "pi":
            return _Rat(Poly.sym("PI"))
        v = expand_name(du, e, at)
        if v is not e:
            return rec(v)
        raise Undecided(f"name {e.id}")
    if isinstance(e, ast.Attribute) and e.attr == "pi":
        return _Rat(Poly.sym("PI"))
    if isinstance(e, ast.UnaryOp) and isinstance(e.op, ast.USub):
        return -rec(e.operand)
    if isinstance(e, ast.BinOp):
        if isinstance(e.op, ast.FloorDiv) and isinstance(e.left, ast.Name) and e.left.id == "ns" and isinstance(e.right, ast.Constant) and e.right.value == 2:
            return _Rat(N - Poly.const(r), Poly.const(2))
        a, b = rec(e.left), rec(e.right)
        if isinstance(e.op, ast.Add):
            return a + b
        if isinstance(e.op, ast.Sub):
            return a - b
        if isinstance(e.op, ast.Mult):
            return a * b
        if isinstance(e.op, ast.Div):
            return a / b
    if isinstance(e, ast.Call):
        nm = call_name(e)
        if nm in ("reshape", "astype") and isinstance(e.func, ast.Attribute):
            return rec(e.func.value)
        if nm == "arange" and len(e.args) == 1:
            n = rec(e.args[0])
            if not n.same(_Rat(N - Poly.const(r), Poly.const(2)) + _Rat(Poly.const(1))):
                raise Undecided(f"arange over {n} bins is not the rfft length ns//2 + 1")
            return _Rat(K)
        if nm == "linspace" and len(e.args) >= 3:
            a, b, n = rec(e.args[0]), rec(e.args[1]), rec(e.args[2])
            if not n.same(_Rat(N - Poly.const(r), Poly.const(2)) + _Rat(Poly.const(1))):
                raise Undecided(f"linspace over {n} points is not the rfft length ns//2 + 1")
            return a + (b - a) * _Rat(K) / (n - _Rat(Poly.const(1)))
        if nm == "rfftfreq" and e.args:
            return _Rat(K) / rec(e.args[0])
    raise Undecided(f"cannot evaluate {src(e)[:60]}")


def _analytic_ramp(ctx, repo, fi, du, exp_call):
    """The phase ramp is written analytically: bin k of an rfft of length ns must get phase -2*pi*k/ns, for both parities of ns."""
    verdicts = {}
    want = _Rat(Poly.sym("J") * Poly.const(-2) * Poly.sym("PI") * Poly.sym("K") * Poly.sym("s"), Poly.sym("N"))
    for par, r in (("even", 0), ("odd", 1)):
        try:
            got = _ramp_eval(exp_call.args[0], r, du, exp_call)
        except Undecided as e:
            raise AnalysisError(f"fshift: analytic phase expression not evaluable: {e}")
        verdicts[par] = (got.same(want), got)
    bad = [k for k, (ok, _) in verdicts.items() if not ok]
    ctx.check(not bad, fi, exp_call, f"analytic phase: even ns -> {verdicts['even'][1]} ; odd ns -> {verdicts['odd'][1]}",
              "analytic ramp gives bin k the phase -2*pi*k/ns for even and odd lengths",
              f"analytic phase ramp is wrong for {' and '.join(bad)} lengths: bin k gets {verdicts[bad[0]][1] if bad else ''} (N = ns) instead of -2*pi*k*s/ns "
              "(for odd ns the last rfft bin is not Nyquist): every shift on such an axis is scaled", key="phase")


def _argmax_offset(du, e, at, depth=6):
    """Describe an index expression relative to the arg-max index: (offset, clipped) when it is imax + offset (possibly clipped to the
    array bounds), None when it is something else."""
    if depth <= 0:
        return None
    if isinstance(e, ast.Name):
        ds = du.strong_reaching(e.id, at)
        if len(ds) == 1 and ds[0].kind == "assign" and ds[0].value is not None and ds[0].unpack_index is None:
            return _argmax_offset(du, ds[0].value, ds[0].stmt, depth - 1)
        return None
    if isinstance(e, ast.Call) and call_name(e) == "argmax":
        return (0, False)
    if isinstance(e, ast.Call) and call_name(e) in ("clip", "maximum", "minimum") and e.args:
        inner = [a for a in e.args if _argmax_offset(du, a, at, depth - 1) is not None]
        if len(inner) == 1:
            off, _ = _argmax_offset(du, inner[0], at, depth - 1)
            return (off, True)
        return None
    if isinstance(e, ast.BinOp) and isinstance(e.op, (ast.Add, ast.Sub)):
        l, r = _argmax_offset(du, e.left, at, depth - 1), const_value(e.right)
        if l is not None and r[0] and isinstance(r[1], int):
            return (l[0] + (r[1] if isinstance(e.op, ast.Add) else -r[1]), l[1])
        # imax + np.array([[-1], [0], [1]]) : a stencil; described by its element when subscripted (below)
        return None
    if isinstance(e, ast.Subscript):
        ok, k = const_value(e.slice)
        base = e.value
        if isinstance(base, ast.Name):
            ds = du.strong_reaching(base.id, at)
            if len(ds) == 1 and ds[0].value is not None:
                base, at = ds[0].value, ds[0].stmt
        clipped = False
        while isinstance(base, ast.Call) and call_name(base) in ("clip", "maximum", "minimum") and base.args:
            clipped = True
            base = base.args[0]
        if ok and isinstance(k, int) and isinstance(base, ast.BinOp) and isinstance(base.op, ast.Add):
            l = _argmax_offset(du, base.left, at, depth - 1)
            offs = [c.value for c in find(base.right, ast.Constant) if isinstance(c.value, int)] if isinstance(base.right, ast.Call) else None
            negs = []
            if isinstance(base.right, ast.Call) and base.right.args:
                for x in ast.walk(base.right.args[0]):
                    if isinstance(x, ast.UnaryOp) and isinstance(x.op, ast.USub) and isinstance(x.operand, ast.Constant):
                        negs.append(-x.operand.value)
                    elif isinstance(x, ast.Constant) and isinstance(x.value, int):
                        negs.append(x.value)
                # constants under a unary minus were collected twice (as -c and c): keep source order of the literal
                seq = []
                for x in ast.walk(base.right.args[0]):
                    pass
                txt = src(base.right.args[0]).replace("[", " ").replace("]", " ").replace(",", " ").split()
                try:
                    seq = [int(t) for t in txt]
                except ValueError:
                    seq = []
                if l is not None and seq and -len(seq) <= k < len(seq):
                    return (l[0] + seq[k], clipped or l[1])
            _ = offs
        return None
    return None


TRUNC = ("int", "trunc", "fix")
FLOOR = ("floor",)


def _round_kind(e, var):
    """How an expression turns the shift `var` into whole samples: 'trunc' | 'floor' | 'round' | 'ceil' | None."""
    cur = e
    kind = None
    while isinstance(cur, ast.Call) and cur.args:
        nm = call_name(cur)
        if nm in ("int", "float", "int32", "int64", "asarray", "array"):
            # int() of an already rounded value keeps that rounding; int() directly on the shift truncates
            inner = cur.args[0]
            if nm == "int" and loc_name(inner) == var:
                return "trunc"
            cur = inner
            continue
        if nm in ("trunc", "fix"):
            kind = kind or "trunc"
        elif nm == "floor":
            kind = kind or "floor"
        elif nm in ("round", "rint", "around"):
            kind = kind or "round"
        elif nm == "ceil":
            kind = kind or "ceil"
        else:
            return None
        cur = cur.args[0]
    if isinstance(cur, ast.BinOp) and isinstance(cur.op, ast.FloorDiv) and loc_name(cur.left) == var and const_value(cur.right) == (True, 1):
        return kind or "floor"
    if loc_name(cur) == var:
        return kind
    return None


def _remainder_kind(e, var, whole):
    """Which whole part an expression for the remaining fractional shift presupposes: s % 1 = s - floor(s); fmod(s, 1) = s - trunc(s); s - W = that of W."""
    if isinstance(e, ast.BinOp) and isinstance(e.op, ast.Mod) and loc_name(e.left) == var and const_value(e.right) == (True, 1):
        return "floor"
    if isinstance(e, ast.Call) and e.args and len(e.args) >= 2 and loc_name(e.args[0]) == var and const_value(e.args[1]) == (True, 1):
        if call_name(e) in ("mod", "remainder"):
            return "floor"
        if call_name(e) == "fmod":
            return "trunc"
    if isinstance(e, ast.BinOp) and isinstance(e.op, ast.Sub) and loc_name(e.left) == var:
        if whole is not None and norm(e.right) == norm(whole):
            return "same"
        return _round_kind(e.right, var)
    return None


def d6_whole_fraction(ctx):
    ctx.rule("D6", "a shift applied in two parts - whole samples by np.roll, the rest by the phase ramp - adds up to the requested shift (the rounding of the whole "
                   "part and the remainder agree for negative non-integer shifts too)")
    repo = ctx.repo
    fi = repo.fn(FN)
    du = DefUse(fi.node)
    sp = fi.params[1] if len(fi.params) > 1 else "s"
    rolls = [c for c in find(fi.node, ast.Call, nested=False) if call_name(c) == "roll" and len(c.args) >= 2]
    if not rolls:
        ctx.ok(fi, fi.node, "no np.roll in fshift", "the whole shift goes through the phase ramp", key="split:none")
        return
    for c in rolls:
        k = c.args[1]
        if not any(isinstance(n, ast.Name) and n.id == sp for n in ast.walk(k)):
            continue
        wk = _round_kind(k, sp)
        st = du.cfg.node_for(c).stmt
        # the remainder: the value bound to the shift by the same statement (tuple assignment) or by the next assignment to it
        rem = None
        if isinstance(st, ast.Assign) and isinstance(st.targets[0], ast.Tuple) and isinstance(st.value, ast.Tuple) and len(st.targets[0].elts) == len(st.value.elts):
            for t, v in zip(st.targets[0].elts, st.value.elts):
                if loc_name(t) == sp:
                    rem = v
        if rem is None:
            later = [d for d in du.defs if d.var == sp and d.kind in ("assign", "aug") and d.stmt is not None and du.cfg.reachable(du.cfg.node_for(c), d.node)]
            if later and later[0].kind == "assign":
                rem = later[0].value
            elif later and isinstance(later[0].stmt, ast.AugAssign) and isinstance(later[0].stmt.op, ast.Sub):
                rem = ast.BinOp(left=ast.Name(id=sp, ctx=ast.Load()), op=ast.Sub(), right=later[0].stmt.value)
                if isinstance(later[0].stmt.op, ast.Mod):
                    rem = ast.BinOp(left=ast.Name(id=sp, ctx=ast.Load()), op=ast.Mod(), right=later[0].stmt.value)
        if rem is None:
            ctx.violation(fi, c, c, f"`{src(c)}` applies whole samples of the shift but the shift handed to the phase ramp is not reduced: the whole part is applied twice",
                          key="split:no-remainder", name_free=True)
            continue
        rk = _remainder_kind(rem, sp, k)
        if wk is None or rk is None:
            raise AnalysisError(f"fshift: whole / fractional split `{src(k)}` + `{src(rem)}` not understood")
        ok = rk == "same" or rk == wk
        ctx.check(ok, fi, st, f"roll by {src(k)} ; remainder {src(rem)}", "whole part and remainder add up to the shift for every sign",
                  f"the whole part `{src(k)}` rounds {'toward zero' if wk == 'trunc' else wk} but the remainder `{src(rem)}` is the shift minus its {rk}: for a negative non-integer shift "
                  f"(e.g. -2.5 -> roll by {'-2' if wk == 'trunc' else '-3'}, remainder {'+0.5' if rk == 'floor' else '-0.5'}) the two parts are one whole sample apart from the request",
                  key="split", name_free=True)


def d5_parabolic_edges(ctx):
    ctx.rule("D5", "parabolic_max falls back to the raw sample exactly when the arg-max is the first or the last sample (imax == 0 | imax == ns - 1)")
    repo = ctx.repo
    fi = repo.fn("ibldsp.utils.parabolic_max")
    du = DefUse(fi.node)
    ors = [c for c in find(fi.node, ast.Call, nested=False) if call_name(c) in ("logical_or", "bitwise_or") and len(c.args) == 2
           and all(isinstance(a, ast.Compare) and len(a.ops) == 1 and isinstance(a.ops[0], ast.Eq) for a in c.args)]
    if not ors:
        raise AnchorMissing("parabolic_max: edge mask `first sample or last sample` not found")
    m = ors[0]
    st = du.cfg.node_for(m).stmt
    sides = []
    for cmp_ in m.args:
        d = _argmax_offset(du, cmp_.left, st)
        if d is None:
            raise AnalysisError(f"parabolic_max: edge test operand `{src(cmp_.left)}` is not understood relative to the arg-max index")
        sides.append((d, cmp_))
    for (off, clipped), cmp_ in sides:
        ctx.check(off == 0, fi, cmp_, cmp_, "the edge test is taken on the arg-max index itself",
                  f"`{src(cmp_)}` tests the {'clipped ' if clipped else ''}index arg-max{off:+d}, not the arg-max: a maximum on the second / penultimate sample is treated as an edge, "
                  "the parabolic interpolation is skipped there and the delay estimate snaps to an integer (error up to half a sample)", key="edge:" + norm(cmp_.comparators[0])[:30])
    # positions as normal forms over the length of the last axis (held in a local or written as x.shape[-1])
    class EL(Evaluator):
        def ev(self, e):
            if isinstance(e, ast.Subscript) and src(e).replace(" ", "") in (f"{fi.params[0]}.shape[-1]", f"{fi.params[0]}.shape[{fi.params[0]}.ndim-1]"):
                return Poly.sym("NS")
            if isinstance(e, ast.Name):
                v = expand_name(du, e, st)
                if v is not e:
                    return self.ev(v)
            return super().ev(e)
    try:
        pos = sorted((EL().ev(c.comparators[0]) for _, c in sides), key=lambda p_: p_.canon())
    except Undecided as ex:
        raise AnalysisError(f"parabolic_max: edge positions not evaluable: {ex}")
    want = sorted([Poly.const(0), Poly.sym("NS") - Poly.const(1)], key=lambda p_: p_.canon())
    ctx.check(pos == want, fi, m, m, "edges are sample 0 and sample ns - 1", f"edge positions are {[str(p_) for p_ in pos]}, expected 0 and ns - 1", key="edge-positions")


def run(ctx):
    ctx.run(d5_parabolic_edges)
    ctx.run(d6_whole_fraction)
    ctx.run(d1_no_mutation)
    ctx.run(d2_restore)
    ctx.run(d3_broadcast)
    ctx.run(d4_sign)
