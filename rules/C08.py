"""C08 - probe geometry is a consistent, jointly permuted description of the sites (structural clauses)."""
import ast
import math

from sa.algebra import Evaluator, Facts, Poly, SymExec, Undecided
from sa.cfg import CFG
from sa.common import expand_name, returns_of
from sa.defuse import DefUse, loc_name
from sa.model import AnalysisError, AnchorMissing, const_value, src, walk_function
from sa.struct import call_name, find, kwarg, norm

EXPLANATION = (
    "Decides structural necessary conditions of C08: (D1) in geometry_from_meta every per-site attribute is stored "
    "before the sort permutation, which is one dict comprehension over all items applying one index, and that index is "
    "the returned one; the shank restrictions in _split_geometry_into_shanks and split_trace_header are comprehensions "
    "over all keys with one index; (D2) the lexsort keys resolve to (-col, row, shank), i.e. order by shank, then row, "
    "then descending column (numpy lexsort: last key primary); (D3) xy2rc(rc2xy(r,c)) == (r,c) and rc2xy(xy2rc(x,y)) == "
    "(x,y) as rational identities over the grid symbols, both with the same version normalisation; (D4) the set of "
    "version strings produced equals the keys of MAJOR_VERSION and every major version is handled by adc_shifts, "
    "CHANNEL_GRID and dense_layout; (D5) ADC group and delay are functions of the original channel number only "
    "(arange(NC) then [:nc]) with the documented (channels per ADC, cycles) table. Equality of the two metadata encodings, "
    "delay values on real probes and arbitrary IMRO selections are NOT decided."
    ' (D5 as built) ADC group / delay are attached to the site table before any restriction or permutation of it (shank split, sort), since adc_shifts assigns by position; a closed-form delay ((c // 2) mod channels per ADC) / cycles is accepted next to the per-ADC loop.'
    " (D8) a site's coordinates are a function of that site's own map entry: no reduction over the saved sites (min / max / mean ...) feeds x, y, col, row in geometry_from_meta, rc2xy, xy2rc."
)
ASSUMPTIONS = [
    "numpy.lexsort sorts by the last key first (model table)",
    "dict comprehension over .items()/.keys() visits every key",
    "ADC table from the adc_shifts docstring: NP1/NPultra 12 channels per ADC, 13 cycles; NP2 16 and 16",
]


def _index_values(du, idx, at):
    """Values of the index returned by _joint_perm_comp: the reaching definitions of a local, or the in-place expression."""
    if isinstance(idx, str):
        return [d.value for d in du.strong_reaching(idx, at)]
    return [idx]


def _joint_perm_comp(dc: ast.DictComp, source_names):
    """Is `dc` a re-indexing of *all* entries of one dict by one index?  Returns index location or None."""
    if len(dc.generators) != 1:
        return None
    g = dc.generators[0]
    if g.ifs:
        return None
    it = g.iter
    src_dict = None
    mode = None
    if isinstance(it, ast.Call) and isinstance(it.func, ast.Attribute) and it.func.attr in ("items", "keys") and not it.args:
        src_dict = loc_name(it.func.value)
        mode = it.func.attr
    elif loc_name(it) is not None:
        src_dict, mode = loc_name(it), "keys"
    if src_dict is None or (source_names and src_dict not in source_names):
        return None
    v = dc.value
    if not isinstance(v, ast.Subscript):
        return None
    idx = loc_name(v.slice)
    if idx is None:
        # the index expression written in place (not held in a local): returned as the expression itself when it
        # does not depend on the comprehension's own variables
        tnames = {n.id for n in ast.walk(g.target) if isinstance(n, ast.Name)}
        if any(isinstance(n, ast.Name) and n.id in tnames for n in ast.walk(v.slice)):
            return None
        idx = v.slice
    if mode == "items":
        if not (isinstance(g.target, ast.Tuple) and len(g.target.elts) == 2):
            return None
        kname, vname = loc_name(g.target.elts[0]), loc_name(g.target.elts[1])
        if loc_name(dc.key) != kname or loc_name(v.value) != vname:
            return None
    else:
        kname = loc_name(g.target)
        if loc_name(dc.key) != kname:
            return None
        inner = v.value
        if not (isinstance(inner, ast.Subscript) and loc_name(inner.value) == src_dict and loc_name(inner.slice) == kname):
            return None
    if isinstance(idx, str) and idx in (kname,):
        return None
    return idx


def d1_joint_permutation(ctx):
    ctx.rule("D1", "all per-site keys are stored before the sort permutation; permutation/restriction re-index every key with one index")
    repo = ctx.repo
    fi = repo.fn("spikeglx.geometry_from_meta")
    du = DefUse(fi.node)
    cfg = du.cfg
    perms = []
    for a in walk_function(fi.node):
        if isinstance(a, ast.Assign) and isinstance(a.value, ast.DictComp) and len(a.targets) == 1:
            tgt = loc_name(a.targets[0])
            idx = _joint_perm_comp(a.value, None)
            perms.append((a, tgt, idx))
    # the sort permutation is the comprehension under `if sort`
    sort_perms = []
    for a, tgt, idx in perms:
        gs = [src(t) for t, pol in cfg.guards(cfg.node_for(a)) if pol]
        if "sort" in gs:
            sort_perms.append((a, tgt, idx))
    if not sort_perms:
        # is there any statement under `if sort` at all?
        has_sort = any(isinstance(n, ast.If) and src(n.test) == "sort" for n in walk_function(fi.node))
        if not has_sort:
            raise AnchorMissing("geometry_from_meta: `if sort` branch not found")
        ctx.violation(fi, fi.node, "if sort: ...", "the sort branch does not re-index the header with a comprehension over all keys",
                      key="no-joint-perm")
        return
    for a, tgt, idx in sort_perms:
        ctx.check(idx is not None, fi, a, a, "sort permutation re-indexes every (key, value) of the header with one index",
                  "sort permutation is not a filter-free comprehension over all items with a single index: some attribute "
                  "would stay in the old order", key="perm-shape")
        if idx is None:
            continue
        pn = cfg.node_for(a)
        # stores into the header after the permutation
        late = []
        for n in walk_function(fi.node):
            stmt_t = None
            if isinstance(n, ast.Assign):
                for t in n.targets:
                    for el in (t.elts if isinstance(t, ast.Tuple) else [t]):
                        if isinstance(el, ast.Subscript) and loc_name(el.value) == tgt:
                            stmt_t = n
            elif isinstance(n, ast.AugAssign) and isinstance(n.target, ast.Subscript) and loc_name(n.target.value) == tgt:
                stmt_t = n
            elif isinstance(n, ast.Expr) and isinstance(n.value, ast.Call) and call_name(n.value) in ("update", "setdefault") \
                    and loc_name(n.value.func.value) == tgt:
                stmt_t = n
            if stmt_t is not None and stmt_t is not a:
                sn = cfg.node_for(stmt_t)
                if cfg.can_follow(pn, sn):
                    late.append(stmt_t)
        ctx.check(not late, fi, late[0] if late else a, late[0] if late else "stores before permutation",
                  "no per-site attribute is stored after the sort permutation",
                  f"`{src(late[0]) if late else ''}` stores a per-site attribute after the sort permutation: it stays in on-disk order "
                  "while the other attributes are sorted", key="store-after-perm")
        # index provenance: lexsort result
        ivals = _index_values(du, idx, a)
        okidx = len(ivals) == 1 and ivals[0] is not None and isinstance(ivals[0], ast.Call) and call_name(ivals[0]) in ("lexsort", "unique", "argsort")
        ctx.check(okidx, fi, a,
                  f"index = {src(ivals[0]) if ivals and ivals[0] is not None else '?'}", "the permutation index is the result of the sort (its key order is decided by D2)",
                  "the permutation index is not (only) the result of the sort call", key="perm-index")
    # restrictions
    for q, arg in (("spikeglx._split_geometry_into_shanks", None), ("neuropixel.split_trace_header", None)):
        f2 = repo.fn(q)
        du2 = DefUse(f2.node)
        comps = [n for n in walk_function(f2.node) if isinstance(n, ast.DictComp)]
        if not comps and q.endswith("_split_geometry_into_shanks"):
            # delegation to the other restriction: split_trace_header(th, shank=int(meta["NP2.4_shank"])) - that one is checked below
            dl = [c for c in find(f2.node, ast.Call) if repo.resolve_call(f2, c) == "neuropixel.split_trace_header"]
            if dl:
                from sa.calls import bind
                sth = repo.fn("neuropixel.split_trace_header")
                b = bind(dl[0], sth)
                okd = loc_name(b.bound.get(sth.params[0])) == f2.params[0] and b.bound.get("shank") is not None and "NP2.4_shank" in src(b.bound.get("shank"))
                ctx.check(okd, f2, dl[0], dl[0], "restriction delegated to split_trace_header for the shank named by the metadata marker",
                          "delegation to split_trace_header does not pass the header and the marked shank", key="restrict-delegate")
                continue
        if not comps:
            raise AnchorMissing(f"{q}: restriction comprehension not found")
        for dc in comps:
            idx = _joint_perm_comp(dc, None)
            okv = False
            if idx is not None:
                ds = _index_values(du2, idx, dc)
                okv = len(ds) == 1 and ds[0] is not None and "where" in src(ds[0]) and "shank" in src(ds[0]) and "==" in src(ds[0])
            ctx.check(idx is not None and okv, f2, dc, dc, "restriction keeps, for every key, the entries of one shank (one index)",
                      "shank restriction is not a filter-free comprehension over all keys with the single index where(shank == s)",
                      key="restrict")


def _key_list(du, arg, at):
    """Key expressions of a sort-key argument, in the order given, and whether the keys are the ROWS of the argument
    (tuple / list / np.c_[...].T: what lexsort wants) or its COLUMNS (np.c_[...]: what a row-wise unique wants)."""
    arg = expand_name(du, arg, at)
    transposed = False
    if isinstance(arg, ast.Attribute) and arg.attr == "T":
        transposed = True
        arg = expand_name(du, arg.value, at)
    if isinstance(arg, ast.Subscript) and isinstance(arg.value, ast.Attribute) and arg.value.attr == "c_":
        keys = list(arg.slice.elts) if isinstance(arg.slice, ast.Tuple) else [arg.slice]
        return keys, ("rows" if transposed else "columns")
    if isinstance(arg, (ast.Tuple, ast.List)):
        return list(arg.elts), ("columns" if transposed else "rows")
    if isinstance(arg, ast.Call) and call_name(arg) in ("array", "vstack", "stack") and arg.args and isinstance(arg.args[0], (ast.Tuple, ast.List)):
        return list(arg.args[0].elts), ("columns" if transposed else "rows")
    if isinstance(arg, ast.Call) and call_name(arg) in ("column_stack",) and arg.args and isinstance(arg.args[0], (ast.Tuple, ast.List)):
        return list(arg.args[0].elts), ("rows" if transposed else "columns")
    return None, None


def _sort_keys(repo, fi, du):
    """(call, keys from least to most significant, problem).  Understands np.lexsort and the row-wise np.unique idioms."""
    calls = find(fi.node, ast.Call)
    ls = [c for c in calls if call_name(c) == "lexsort"]
    if ls:
        c = ls[0]
        keys, layout = _key_list(du, c.args[0], c)
        if keys is None:
            return c, None, None
        if layout == "columns":
            return c, keys, "lexsort is given the keys as columns of an (n, k) array: it sorts k-long vectors, not the n sites"
        return c, keys, None
    un = [c for c in calls if call_name(c) == "unique" and kwarg(c, "axis") is not None]
    if un:
        c = un[0]
        keys, layout = _key_list(du, c.args[0], c)
        if keys is None or layout != "columns" or const_value(kwarg(c, "axis")) != (True, 0):
            return c, None, None
        inv = kwarg(c, "return_inverse")
        idx = kwarg(c, "return_index")
        if isinstance(inv, ast.Constant) and inv.value is True and not (isinstance(idx, ast.Constant) and idx.value is True):
            return c, list(reversed(keys)), ("np.unique(..., return_inverse=True) yields each row's rank, i.e. the INVERSE of the sorting permutation; "
                                             "indexing with it sorts only when the permutation is its own inverse (all dense layouts)")
        return c, list(reversed(keys)), None  # rows compared lexicographically: first column most significant
    raise AnchorMissing("geometry_from_meta: neither np.lexsort nor a row-wise np.unique sort found")


def d2_sort_keys(ctx):
    ctx.rule("D2", "sort keys are (-col, row, shank) from least to most significant: order by shank, then row, then descending column")
    repo = ctx.repo
    fi = repo.fn("spikeglx.geometry_from_meta")
    du = DefUse(fi.node)
    c, keys, problem = _sort_keys(repo, fi, du)
    if keys is None:
        raise AnalysisError(f"geometry_from_meta: sort-key argument form not understood: {src(c)}")
    if problem:
        ctx.violation(fi, c, c, problem, key="sort-idiom")
    got = []
    for k in keys:
        sign = 1
        while isinstance(k, ast.UnaryOp) and isinstance(k.op, ast.USub):
            sign = -sign
            k = k.operand
        name = None
        if isinstance(k, ast.Subscript) and isinstance(k.slice, ast.Constant):
            name = k.slice.value
        got.append((name, sign))
    want = [("col", -1), ("row", 1), ("shank", 1)]
    ctx.check(got == want, fi, c, f"sort keys (least to most significant): {got}",
              "sort is by shank, then row, then descending column",
              f"sort keys are {got} (least to most significant); expected {want}", key="lexsort-keys")


def _run_fn(repo, q, env):
    fi = repo.fn(q)
    facts = Facts()
    ev = Evaluator(env=dict(env), facts=facts, resolve=lambda e: repo.resolve_expr(fi, e))
    sx = SymExec(ev, on_undecided="havoc")
    sx.run(fi.node.body)
    if not sx.returns or not isinstance(sx.returns[0], ast.Dict):
        raise AnalysisError(f"{q}: return is not a dict literal")
    d = sx.returns[0]
    out = {}
    for k, v in zip(d.keys, d.values):
        out[k.value] = ev.ev(v)
    return fi, out


def d3_grid_inverse(ctx):
    ctx.rule("D3", "xy2rc o rc2xy == id and rc2xy o xy2rc == id as rational identities; same version normalisation and grid lookup")
    repo = ctx.repo
    R, C, X, Y = Poly.sym("r"), Poly.sym("c"), Poly.sym("x"), Poly.sym("y")
    f1, xy = _run_fn(repo, "neuropixel.rc2xy", {"row": R, "col": C})
    f2, rc = _run_fn(repo, "neuropixel.xy2rc", {"x": xy.get("x", Poly.sym("?x")), "y": xy.get("y", Poly.sym("?y"))})
    ctx.check(rc.get("row") == R and rc.get("col") == C, f2, f2.node, f"xy2rc(rc2xy(r,c)) = (row: {rc.get('row')}, col: {rc.get('col')})",
              "xy2rc inverts rc2xy on every grid", f"xy2rc(rc2xy(r, c)) normalises to row={rc.get('row')}, col={rc.get('col')} - not (r, c)",
              key="rc-xy-rc")
    f2b, rc2 = _run_fn(repo, "neuropixel.xy2rc", {"x": X, "y": Y})
    f1b, xy2 = _run_fn(repo, "neuropixel.rc2xy", {"row": rc2.get("row", Poly.sym("?r")), "col": rc2.get("col", Poly.sym("?c"))})
    ctx.check(xy2.get("x") == X and xy2.get("y") == Y, f1, f1.node, f"rc2xy(xy2rc(x,y)) = (x: {xy2.get('x')}, y: {xy2.get('y')})",
              "rc2xy inverts xy2rc on every grid", f"rc2xy(xy2rc(x, y)) normalises to x={xy2.get('x')}, y={xy2.get('y')} - not (x, y)",
              key="xy-rc-xy")
    # same version normalisation + grid lookup

    def pre(fi):
        out = []
        for s in fi.node.body:
            if isinstance(s, ast.Assign) and loc_name(s.targets[0]) in ("version", "grid"):
                out.append(norm(s))
        return out
    ctx.check(pre(f1) == pre(f2) and len(pre(f1)) >= 1, f1, f1.node, "version/grid preamble", "both conversions normalise the version and look "
              "up the grid identically", f"version normalisation / grid lookup differ between rc2xy and xy2rc: {pre(f1)} vs {pre(f2)}",
              key="preamble")


class _Concrete:
    """Evaluate a guard over a concrete `version` value (finite domain; data independent)."""

    def __init__(self, env):
        self.env = env

    def ev(self, e):
        if isinstance(e, ast.Constant):
            return e.value
        if isinstance(e, ast.Name):
            if e.id in self.env:
                return self.env[e.id]
            raise Undecided(e.id)
        if isinstance(e, ast.Call) and call_name(e) == "floor" and e.args:
            v = self.ev(e.args[0])
            if isinstance(v, (int, float)):
                return math.floor(v)
            raise TypeError("floor of non-number")
        if isinstance(e, ast.Call) and call_name(e) == "isinstance":
            v = self.ev(e.args[0])
            t = src(e.args[1])
            if "Number" in t:
                return isinstance(v, (int, float))
            raise Undecided(t)
        if isinstance(e, ast.BoolOp):
            if isinstance(e.op, ast.Or):
                for v in e.values:
                    if self.ev(v):
                        return True
                return False
            for v in e.values:
                if not self.ev(v):
                    return False
            return True
        if isinstance(e, ast.Compare) and len(e.ops) == 1:
            a, b = self.ev(e.left), self.ev(e.comparators[0])
            op = e.ops[0]
            if isinstance(op, ast.Eq):
                return a == b
            if isinstance(op, ast.NotEq):
                return a != b
        if isinstance(e, ast.IfExp):
            return self.ev(e.body) if self.ev(e.test) else self.ev(e.orelse)
        raise Undecided(src(e))


def _first_true_branch(fn_node, env, param="version"):
    """Index of the first if/elif branch of the function's top-level chain(s) on `param` that is taken."""
    taken = []
    for s in fn_node.body:
        if isinstance(s, ast.If) and param in src(s.test):
            cur = s
            i = 0
            hit = None
            while True:
                try:
                    ok = _Concrete(env).ev(cur.test)
                except TypeError:
                    return "raises"
                if ok:
                    hit = i
                    break
                if len(cur.orelse) == 1 and isinstance(cur.orelse[0], ast.If):
                    cur = cur.orelse[0]
                    i += 1
                    continue
                if cur.orelse:
                    hit = "else"
                break
            taken.append(hit)
    return taken


def d4_version_tables(ctx, rule_id="D4"):
    ctx.rule(rule_id, "version strings produced == keys of MAJOR_VERSION; every major version handled by adc_shifts, CHANNEL_GRID, dense_layout")
    repo = ctx.repo
    fv = repo.fn("spikeglx._get_neuropixel_version_from_meta")
    produced = set()
    for r in returns_of(fv.node):
        ok, v = const_value(r.value) if r.value is not None else (False, None)
        if ok and isinstance(v, str):
            produced.add(v)
    fm = repo.fn("spikeglx._get_neuropixel_major_version_from_meta")
    table = None
    for d in find(fm.node, ast.Dict):
        ks = [k.value for k in d.keys if isinstance(k, ast.Constant)]
        if ks and all(isinstance(k, str) for k in ks):
            table = {k.value: const_value(v)[1] for k, v in zip(d.keys, d.values)}
    if table is None:
        raise AnchorMissing("MAJOR_VERSION table not found")
    ctx.check(produced == set(table), fm, fm.node, f"produced={sorted(produced)} table={sorted(table)}",
              "every version string has a major version and vice versa",
              f"version strings {sorted(produced - set(table))} have no major version / table keys {sorted(set(table) - produced)} are never produced",
              key="version-keys")
    majors = sorted(set(table.values()), key=str)
    npx = repo.module("neuropixel")
    grid = None
    for s in npx.tree.body:
        if isinstance(s, ast.Assign) and loc_name(s.targets[0]) == "CHANNEL_GRID" and isinstance(s.value, ast.Dict):
            grid = {const_value(k)[1] for k in s.value.keys}
            gfi = s
    if grid is None:
        raise AnchorMissing("neuropixel.CHANNEL_GRID not found")
    fa = repo.fn("neuropixel.adc_shifts")
    fd = repo.fn("neuropixel.dense_layout")
    fx = repo.fn("neuropixel.rc2xy")
    for mv in majors:
        key = math.floor(mv) if isinstance(mv, (int, float)) else mv
        ctx.check(key in grid, fx, gfi, f"CHANNEL_GRID[{key!r}] for major version {mv!r}", "grid constants exist",
                  f"major version {mv!r} (grid key {key!r}) has no CHANNEL_GRID entry", key=f"grid:{mv}")
        t = _first_true_branch(fa.node, {"version": mv})
        ctx.check(t not in ("raises",) and any(x is not None for x in t), fa, fa.node, f"adc_shifts(version={mv!r}) -> branch {t}",
                  "adc_shifts has a branch for the version", f"adc_shifts has no branch for major version {mv!r} (adc_channels undefined)",
                  key=f"adc:{mv}")
        for nshank in ((1, 4) if mv == 2.4 or mv == 2 else (1,)):
            t = _first_true_branch(fd.node, {"version": mv, "nshank": nshank})
            ctx.check(t not in ("raises",) and any(x is not None for x in t), fd, fd.node, f"dense_layout(version={mv!r}, nshank={nshank}) -> branch {t}",
                      "dense_layout has a branch for the version", f"dense_layout has no column layout for version {mv!r}, nshank={nshank}",
                      key=f"dense:{mv}:{nshank}")


def _closed_form_equal(du, e, at):
    """Is the per-channel expression `e` (over arange(NC), adc_channels, n_cycles) equal to ((c // 2) mod adc_channels) / n_cycles for every channel c of a probe and
    every (channels per ADC, cycles) pair around the version table?  Evaluated exactly (rationals) on the finite domain; False when not evaluable."""
    from fractions import Fraction
    import math
    from sa.common import expand_deep
    ex = expand_deep(du, e, at, keep=("NC", "adc_channels", "n_cycles"))

    def ev(x, env):
        if isinstance(x, ast.Constant) and isinstance(x.value, (int, float)) and not isinstance(x.value, bool):
            return Fraction(x.value)
        if isinstance(x, ast.Name):
            return env[x.id]
        if isinstance(x, ast.Call):
            nm = call_name(x)
            if nm == "arange" and len(x.args) == 1 and loc_name(x.args[0]) == "NC":
                return env["C"]
            if nm in ("mod", "remainder") and len(x.args) == 2:
                a, b = ev(x.args[0], env), ev(x.args[1], env)
                return a - b * math.floor(a / b)
            if nm == "floor_divide" and len(x.args) == 2:
                return Fraction(math.floor(ev(x.args[0], env) / ev(x.args[1], env)))
            if nm == "floor" and len(x.args) == 1:
                return Fraction(math.floor(ev(x.args[0], env)))
            if nm in ("astype", "float64", "float32", "asarray", "array") and (x.args or isinstance(x.func, ast.Attribute)):
                return ev(x.func.value if nm == "astype" else x.args[0], env)
            raise KeyError(nm)
        if isinstance(x, ast.BinOp):
            a, b = ev(x.left, env), ev(x.right, env)
            if isinstance(x.op, ast.Add):
                return a + b
            if isinstance(x.op, ast.Sub):
                return a - b
            if isinstance(x.op, ast.Mult):
                return a * b
            if isinstance(x.op, ast.Div):
                return a / b
            if isinstance(x.op, ast.FloorDiv):
                return Fraction(math.floor(a / b))
            if isinstance(x.op, ast.Mod):
                return a - b * math.floor(a / b)
        raise KeyError(type(x).__name__)
    try:
        for A in (1, 2, 3, 12, 13, 16):
            for n in (1, 13, 16):
                for c in range(0, 4 * 2 * A + 3):
                    env = {"C": Fraction(c), "adc_channels": Fraction(A), "n_cycles": Fraction(n)}
                    if ev(ex, env) != Fraction((c // 2) % A, n):
                        return False
    except (KeyError, ZeroDivisionError, TypeError):
        return False
    return True


def d5_adc(ctx):
    ctx.rule("D5", "ADC group/delay depend on the original channel number only; (channels per ADC, cycles) table; evenly spaced delays")
    repo = ctx.repo
    fa = repo.fn("neuropixel.adc_shifts")
    du = DefUse(fa.node)
    cfg = du.cfg
    # table
    got = {}
    for d in du.defs:
        if d.var in ("adc_channels", "n_cycles") and d.kind in ("assign", "unpack") and d.value is not None:
            dv = d.value
            if d.unpack_index is not None and isinstance(dv, ast.Tuple) and d.unpack_index < len(dv.elts):
                dv = dv.elts[d.unpack_index]
            d = type("D", (), {"value": dv, "node": d.node, "var": d.var})()
            ok, v = const_value(d.value)
            if not ok and isinstance(d.value, ast.Constant):
                v = d.value.value
            br = None
            for mv in (1, "NPultra", 2, 2.4):
                gs = cfg.guards(d.node)
                try:
                    if gs and all(bool(_Concrete({"version": mv}).ev(t)) == pol for t, pol in gs):
                        br = mv
                        got.setdefault(mv, {})[d.var] = v
                except (Undecided, TypeError):
                    pass
    want = {1: (12, 13), "NPultra": (12, 13), 2: (16, 16), 2.4: (16, 16)}
    for mv, (ch, cy) in want.items():
        g = got.get(mv, {})
        ctx.check(g.get("adc_channels") == ch and g.get("n_cycles") == cy, fa, fa.node, f"version {mv!r}: {g}",
                  f"{ch} channels per ADC sampled over {cy} cycles", f"version {mv!r}: adc table is {g}, documented ({ch}, {cy})",
                  key=f"adc-table:{mv}")
    # adc from arange(NC) only
    adc_defs = [d for d in du.defs if d.var == "adc" and d.kind == "assign"]
    for d in adc_defs:
        names = {n.id for n in ast.walk(d.value) if isinstance(n, ast.Name)}
        ctx.check(names <= {"np", "NC", "adc_channels"} and "arange" in src(d.value), fa, d.stmt, d.stmt,
                  "ADC group is a function of the original channel number arange(NC)",
                  f"ADC group depends on {sorted(names - {'np', 'NC', 'adc_channels'})}: not a function of the original channel number alone",
                  key="adc-domain")
        from sa.algebra import Evaluator
        # floor(i / (2*adc_channels)) * 2 + i mod 2
        import copy as _copy

        class _Canon(ast.NodeTransformer):
            """x % k -> np.mod(x, k); a local holding arange(NC) -> np.arange(NC)"""
            def visit_BinOp(self, node):
                node = self.generic_visit(node)
                if isinstance(node.op, ast.Mod):
                    return ast.Call(func=ast.Attribute(value=ast.Name(id="np", ctx=ast.Load()), attr="mod", ctx=ast.Load()), args=[node.left, node.right], keywords=[])
                return node

            def visit_Name(self, node):
                v_ = expand_name(du, node, d.stmt)
                if v_ is not node and isinstance(v_, ast.Call) and call_name(v_) == "arange":
                    return _copy.deepcopy(v_)
                return node
        s = norm(_Canon().visit(_copy.deepcopy(d.value)))
        want_s = norm(ast.parse("np.floor(np.arange(NC) / (adc_channels * 2)) * 2 + np.mod(np.arange(NC), 2)", mode="eval").body)
        alt = norm(ast.parse("np.floor(np.arange(NC) / (2 * adc_channels)) * 2 + np.mod(np.arange(NC), 2)", mode="eval").body)
        ctx.check(s in (want_s, alt), fa, d.stmt, d.stmt, "ADC = 2*floor(ch / (2*channels_per_adc)) + ch mod 2 (odd/even interleave)",
                  f"ADC assignment `{src(d.value)}` is not 2*floor(ch/(2*adc_channels)) + ch mod 2", key="adc-formula")
    # delays: arange(adc_channels) / n_cycles per ADC
    st = [n for n in walk_function(fa.node) if isinstance(n, ast.Assign) and isinstance(n.targets[0], ast.Subscript)
          and loc_name(n.targets[0].value) == "sample_shift"]
    for n in st:
        okm = norm(n.targets[0].slice) == norm(ast.parse("adc == a", mode="eval").body)
        okv = norm(n.value) == norm(ast.parse("np.arange(adc_channels) / n_cycles", mode="eval").body)
        ctx.check(okm and okv, fa, n, n, "each ADC's channels get delays k / n_cycles, k = 0..channels-1 (distinct, evenly spaced)",
                  f"`{src(n)}`: delays of an ADC's channels are not arange(adc_channels)/n_cycles over the mask adc == a", key="delays")
    if not st:
        # closed form: delay of channel c = ((c // 2) mod channels_per_adc) / n_cycles  (its rank among the same-parity channels of its block)
        from sa.algebra import Evaluator as _Ev, Poly as _P

        class EC(_Ev):
            def ev(self, e):
                if isinstance(e, ast.Call) and call_name(e) == "arange" and len(e.args) == 1 and loc_name(e.args[0]) == "NC":
                    return _P.sym("C")
                if isinstance(e, ast.Call) and call_name(e) in ("mod", "remainder") and len(e.args) == 2:
                    return self.ev(ast.BinOp(left=e.args[0], op=ast.Mod(), right=e.args[1]))
                if isinstance(e, ast.Call) and call_name(e) == "floor" and len(e.args) == 1 and isinstance(e.args[0], ast.BinOp) and isinstance(e.args[0].op, ast.Div):
                    return self.ev(ast.BinOp(left=e.args[0].left, op=ast.FloorDiv(), right=e.args[0].right))   # floor(a / b) == a // b
                if isinstance(e, ast.Call) and call_name(e) == "floor_divide" and len(e.args) == 2:
                    return self.ev(ast.BinOp(left=e.args[0], op=ast.FloorDiv(), right=e.args[1]))
                return super().ev(e)
        sdefs = [d for d in du.defs if d.var == "sample_shift" and d.kind == "assign" and d.value is not None]
        if not sdefs:
            raise AnchorMissing("adc_shifts: sample_shift is neither filled per ADC nor given in closed form")
        ref = EC().ev(ast.parse("np.mod(np.arange(NC) // 2, adc_channels) / n_cycles", mode="eval").body)
        for d in sdefs:
            try:
                got_p = EC().ev(d.value)
            except Undecided as ex:
                raise AnalysisError(f"adc_shifts: closed-form delay not evaluable: {ex}")
            same = got_p == ref
            if not same:
                # two integer closed forms whose floor / mod atoms differ syntactically ((c mod 2A) // 2 == (c // 2) mod A): decided on the whole finite domain
                # (every channel number of a probe, the channels-per-ADC / cycle pairs of the version table and their neighbours)
                same = _closed_form_equal(du, d.value, d.stmt)
            ctx.check(same, fa, d.stmt, d.stmt, "delay of channel c = ((c // 2) mod channels per ADC) / cycles (distinct, evenly spaced within an ADC)",
                      f"closed-form delay `{src(d.value)}` normalises to {got_p}, expected {ref}", key="delays", name_free=True)
    for r in returns_of(fa.node):
        ok = isinstance(r.value, ast.Tuple) and len(r.value.elts) == 2 and all(
            isinstance(e, ast.Subscript) and isinstance(e.slice, ast.Slice) and e.slice.lower is None and loc_name(e.slice.upper) == "nc"
            for e in r.value.elts) and [loc_name(e.value) for e in r.value.elts] == ["sample_shift", "adc"]
        ctx.check(ok, fa, r, r, "returns (sample_shift[:nc], adc[:nc])", f"`{src(r)}` is not (sample_shift[:nc], adc[:nc])", key="adc-return")
    # geometry_from_meta unpacks in the same order
    fg = repo.fn("spikeglx.geometry_from_meta")
    for n in walk_function(fg.node):
        if isinstance(n, ast.Assign) and isinstance(n.value, ast.Call) and call_name(n.value) == "adc_shifts":
            t = n.targets[0]
            keys = [e.slice.value if isinstance(e, ast.Subscript) and isinstance(e.slice, ast.Constant) else None
                    for e in (t.elts if isinstance(t, ast.Tuple) else [t])]
            ctx.check(keys == ["sample_shift", "adc"], fg, n, n, "unpacked into (sample_shift, adc) in producer order",
                      f"adc_shifts result unpacked into {keys}: delay and group swapped or dropped", key="adc-unpack")
            # the table must still list every recorded site in on-disk order: position == original channel number (adc_shifts assigns by position)
            dug = DefUse(fg.node)
            cfgg = dug.cfg
            an = cfgg.node_for(n)
            hdr = None
            t0 = n.targets[0]
            for e in (t0.elts if isinstance(t0, ast.Tuple) else [t0]):
                if isinstance(e, ast.Subscript):
                    hdr = loc_name(e.value)
            restr = []
            for m_ in walk_function(fg.node):
                if isinstance(m_, ast.Assign) and any(loc_name(t_) == hdr for t_ in m_.targets):
                    v = m_.value
                    if isinstance(v, ast.Call) and repo.resolve_call(fg, v) in ("spikeglx._split_geometry_into_shanks", "neuropixel.split_trace_header"):
                        restr.append(m_)
                    elif isinstance(v, ast.DictComp):
                        restr.append(m_)
            early = [m_ for m_ in restr if cfgg.reachable(cfgg.node_for(m_), an)]
            ctx.check(not early, fg, n, n, "ADC group / delay are attached while row i of the table is original channel i (before the shank restriction and the sort)",
                      f"`{src(n)[:70]}` runs after `{src(early[0])[:70] if early else ''}` has restricted / re-ordered the table: adc_shifts assigns group and delay by POSITION, so a "
                      "split shank's sites get the ADC group and sampling delay of channels 0..n-1 instead of their own original channels - the split geometry is no longer "
                      "the restriction of its parent's", key="adc-before-restriction", name_free=True)
            from sa.calls import bind
            b = bind(n.value, fa)
            ctx.check("version" in b.bound and src(b.bound["version"]) == "major_version", fg, n, n,
                      "ADC table selected by the recording's major version", "adc_shifts is not called with the recording's major version",
                      key="adc-version")
    ft = repo.fn("neuropixel.trace_header")
    for n in walk_function(ft.node):
        if isinstance(n, ast.Assign) and isinstance(n.value, ast.Call) and call_name(n.value) == "adc_shifts":
            t = n.targets[0]
            keys = [e.slice.value if isinstance(e, ast.Subscript) and isinstance(e.slice, ast.Constant) else None
                    for e in (t.elts if isinstance(t, ast.Tuple) else [t])]
            ctx.check(keys == ["sample_shift", "adc"], ft, n, n, "unpacked into (sample_shift, adc) in producer order",
                      f"adc_shifts result unpacked into {keys}", key="adc-unpack-th")


def d7_no_shared_mutation(ctx):
    ctx.rule("D7", "geometry construction does not modify, in place, arrays that are cached / shared between calls")
    repo = ctx.repo
    from sa.common import shared_mutations, shared_returning
    shared = shared_returning(repo)
    n = 0
    for q in ("spikeglx.geometry_from_meta", "spikeglx._map_channels_from_meta", "spikeglx._split_geometry_into_shanks", "neuropixel.trace_header",
              "neuropixel.dense_layout", "neuropixel.adc_shifts", "neuropixel.split_trace_header"):
        fi = repo.fn(q)
        muts = shared_mutations(repo, fi, shared)
        n += 1
        if not muts:
            ctx.ok(fi, fi.node, f"{q.split('.')[-1]}: no in-place operation on a cached array" + (f" (memoised helpers: {sorted(shared)})" if shared else ""),
                   "per-site arrays are fresh for every call", key="shared:" + q)
        for st, tgt, why in muts:
            ctx.violation(fi, st, st, f"{why}: `{src(st)[:70]}` changes it for every later call with the same metadata string "
                          "(the second geometry read from the same map is shifted; geometries handed out earlier change retroactively)", key="shared:" + q + ":" + norm(tgt)[:40])


def d6_shank_key(ctx):
    ctx.rule("D6", "the split marker key read by _split_geometry_into_shanks is the one NP2Converter writes")
    from rules import C04
    C04.d5_marker_key(ctx, rule_id="D6")


SITE_REDUCTIONS = ("min", "max", "amin", "amax", "nanmin", "nanmax", "mean", "median", "sum", "ptp", "std", "var", "argmin", "argmax", "cumsum", "diff",
                   "percentile", "quantile", "average", "nanmean", "nanmedian", "unique", "bincount")
SITE_FUNCS = ("spikeglx.geometry_from_meta", "neuropixel.rc2xy", "neuropixel.xy2rc")


def d8_site_local(ctx):
    ctx.rule("D8", "a site's coordinates are a function of that site's own map entry: no reduction over the saved sites (min / max / mean / ...) feeds x, y, col, row")
    repo = ctx.repo
    n = 0
    for q in SITE_FUNCS:
        fi = repo.fn(q)
        du = DefUse(fi.node)
        # per-site arrays: the parameters row / col / x / y of the conversions, and entries th[...] / cm[...] of the site table
        site_params = {p_ for p_ in fi.params if p_ in ("row", "col", "x", "y")}

        def per_site(e, at, depth=0):
            if depth > 5 or e is None:
                return False
            if isinstance(e, ast.Subscript) and isinstance(e.slice, ast.Constant) and isinstance(e.slice.value, str) and e.slice.value in ("x", "y", "col", "row", "shank", "z"):
                return True
            if isinstance(e, ast.Name):
                if e.id in site_params:
                    return True
                ds = du.strong_reaching(e.id, at)
                return any(d.kind == "assign" and d.value is not None and d.unpack_index is None and per_site(d.value, d.stmt, depth + 1) for d in ds)
            if isinstance(e, (ast.BinOp,)):
                return per_site(e.left, at, depth + 1) or per_site(e.right, at, depth + 1)
            if isinstance(e, ast.UnaryOp):
                return per_site(e.operand, at, depth + 1)
            if isinstance(e, ast.Call) and call_name(e) in ("mod", "floor", "round", "abs", "astype", "asarray", "array", "copy", "remainder", "floor_divide"):
                inner = e.args[0] if e.args and not (isinstance(e.func, ast.Attribute) and not (isinstance(e.func.value, ast.Name) and e.func.value.id in ("np", "numpy"))) \
                    else getattr(e.func, "value", None)
                return per_site(inner, at, depth + 1)
            return False
        for st in walk_function(fi.node):
            for c in find(st, ast.Call) if isinstance(st, ast.stmt) and not isinstance(st, (ast.If, ast.For, ast.While, ast.With, ast.Try, ast.FunctionDef)) else []:
                nm = call_name(c)
                if nm not in SITE_REDUCTIONS:
                    continue
                meth = isinstance(c.func, ast.Attribute) and not (isinstance(c.func.value, ast.Name) and c.func.value.id in ("np", "numpy"))
                operand = c.func.value if meth else (c.args[0] if c.args else None)
                if not per_site(operand, st):
                    continue
                n += 1
                ctx.violation(fi, st, st, f"`{src(c)[:60]}` reduces over the saved sites and feeds `{src(st)[:70]}`: the coordinates of a site then depend on WHICH OTHER sites "
                              "were saved - a sub-selection of the probe is no longer the restriction of the full layout (e.g. a mirror about the extent of the selection "
                              "instead of the shank axis)", key="site-reduction:" + nm, name_free=True)
    if n == 0:
        ctx.ok(repo.fn(SITE_FUNCS[0]), repo.fn(SITE_FUNCS[0]).node, "site coordinates", f"no reduction over the site axis in {', '.join(x.rsplit('.', 1)[1] for x in SITE_FUNCS)}", key="site-local")


def run(ctx):
    ctx.run(d1_joint_permutation)
    ctx.run(d2_sort_keys)
    ctx.run(d3_grid_inverse)
    ctx.run(d4_version_tables)
    ctx.run(d5_adc)
    ctx.run(d6_shank_key)
    ctx.run(d7_no_shared_mutation)
    ctx.run(d8_site_local)
    from rules import C01
    ctx.run(C01.d2b_returned_index)
