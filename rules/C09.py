"""C09 - metadata parsing, derived acquisition parameters and writing round-trip (structural clauses)."""
import ast
import re

from sa.algebra import Evaluator, Poly, Undecided
from sa import guards as GD
from sa.common import value_alternatives, expand_name, returns_of, resolved_calls
from sa.defuse import DefUse, loc_name
from sa.model import AnalysisError, AnchorMissing, const_value, src, walk_function
from sa.struct import call_name, find, kwarg, norm, string_value

EXPLANATION = (
    "Decides structural necessary conditions of C09 on the current source: (D1) every per-channel conversion vector "
    "built by _conversion_sample2v_from_meta ends with an unscaled all-ones sync segment whose length is the metadata's "
    "sync count and the analog count is nSavedChans minus the sync count; (D2) the AP and LF expressions are the same "
    "formula int2volt / gain and differ only in the IMRO field they read (ap: 4th of 5 captured fields, lf: 5th), NP2 "
    "ap == lf == int2volt/80; int2volt = range / max-int with the range key matching the device; (D3) reader and writer "
    "of the metadata file agree on the key/value separator, the list separator and maxsplit=1, and every value kind "
    "the parser produces has a writer branch; (D4) the probe-generation tables agree (shared with C08); (D5) default "
    "max-int table {NP1: 512, nidq: 32768} and NP2 reading imMaxInt; (D6) sync traces are the last nsync channels; "
    "(D7) stream type / sampling-rate key tables. Numerical values and the full grammar round trip are NOT decided."
    ' (as built) D1 / D2 / D8 are decided on the extracted segment model of the conversion vectors for every small count assignment (NSYNC = 0 and empty nidq categories included; numpy reads x[:-0] as empty); D5 evaluates the max-int lookup as a decision table over (stream, version argument, version found in the metadata) and checks the call sites that pass a version.'
    ' (E9 as built) whole-table text columns (zip(*re.findall(...))) and row tables selected by argsort of the channel column are modelled: a numeric key keeps table order, a text key orders lexicographically (reported as a model finding).'
    ' (DS as built) a parse kept in a module-level cache and handed out as a shallow copy shares its list values: in-place edits of those by NP2Converter / NP2Reconstructor metadata writers are reported; sharing is call-sensitive (a cache flag left off prunes the cached branch).'
    " (D9) a fast path that gives every channel the first IMRO entry's gains must establish uniformity by counting entries with a pattern closed by a literal on both sides; run-time branches of the conversion are explored both ways."
)
ASSUMPTIONS = [
    "SpikeGLX IMRO entry layout for NP1: (chan bank ref apgain lfgain ...) - AP gain is field 3, LF gain field 4 (0-based)",
    "numpy hstack / r_ keep argument order (model table)",
]

FN = "spikeglx._conversion_sample2v_from_meta"


def _resolver(repo, fi):
    return lambda e: repo.resolve_expr(fi, e)


def _dict_values_for_key(fn_node, key):
    out = []
    for d in find(fn_node, ast.Dict):
        for k, v in zip(d.keys, d.values):
            if isinstance(k, ast.Constant) and k.value == key:
                out.append((d, v))
    return out


def _stack_parts(e):
    """Parts of np.hstack((a, b)) / np.r_[a, b] / np.concatenate((a,b)) in order, else None."""
    if isinstance(e, ast.Call) and call_name(e) in ("hstack", "concatenate") and e.args:
        a = e.args[0]
        if isinstance(a, (ast.Tuple, ast.List)):
            return list(a.elts)
    if isinstance(e, ast.Subscript) and isinstance(e.value, ast.Attribute) and e.value.attr in ("r_",):
        s = e.slice
        return list(s.elts) if isinstance(s, ast.Tuple) else [s]
    return None


def _is_plain_ones(repo, fi, du, e, at):
    v = expand_name(du, e, at)
    if isinstance(v, ast.Call) and call_name(v) in ("float32", "array", "astype"):
        v = v.args[0] if v.args else v
    return (isinstance(v, ast.Call) and call_name(v) == "ones"), v


def _count_field(du, arg, at, depth=0):
    """(metadata key, index) that a channel-count expression reads: int(md["snsMnMaXaDw"][3]), np.sum(md[...][3]), or a name unpacked
    from the whole field (n_mn, n_ma, n_xa, n_dw = (int(n) for n in md["snsMnMaXaDw"]))."""
    if depth > 5 or arg is None:
        return None
    if isinstance(arg, ast.Call) and call_name(arg) in ("int", "sum", "float") and arg.args:
        return _count_field(du, arg.args[0], at, depth + 1)
    if isinstance(arg, ast.Subscript):
        ok, k = const_value(arg.slice)
        base = arg.value
        if ok and isinstance(k, int):
            if isinstance(base, ast.Subscript) and isinstance(base.slice, ast.Constant) and isinstance(base.slice.value, str):
                return (base.slice.value, k)
            if isinstance(base, ast.Call) and call_name(base) == "get" and base.args and isinstance(base.args[0], ast.Constant):
                return (base.args[0].value, k)
            if isinstance(base, ast.Name):
                v = expand_name(du, base, at)
                if v is not base:
                    return _count_field(du, ast.Subscript(value=v, slice=arg.slice, ctx=ast.Load()), at, depth + 1)
    if isinstance(arg, ast.Name):
        ds = du.strong_reaching(arg.id, at)
        if len(ds) == 1:
            d = ds[0]
            if d.kind == "unpack" and d.unpack_index is not None and d.value is not None:
                v = d.value
                if isinstance(v, (ast.GeneratorExp, ast.ListComp)):
                    v = v.generators[0].iter
                if isinstance(v, ast.Call) and call_name(v) in ("map", "tuple", "list") and v.args:
                    v = v.args[-1]
                if isinstance(v, ast.Subscript) and isinstance(v.slice, ast.Constant) and isinstance(v.slice.value, str):
                    return (v.slice.value, d.unpack_index)
                if isinstance(v, ast.Call) and call_name(v) == "get" and v.args and isinstance(v.args[0], ast.Constant):
                    return (v.args[0].value, d.unpack_index)
            if d.kind == "assign" and d.value is not None:
                return _count_field(du, d.value, d.stmt, depth + 1)
    return None


# ------------------------------------------------------------------------------------------------ conversion-vector layout (semantic)
DEVICE_CLASSES = {
    "imec-NP2": {"imec": True, "np2": True},
    "imec-NP1": {"imec": True, "np2": False},
    "nidq": {"imec": False, "np2": None},
}


def _class_decide(cls, ext_ref):
    """Truth of a branch test of _conversion_sample2v_from_meta for a device class (None = not a test on the device / generation)."""
    def decide(t):
        if isinstance(t, ast.Name):
            return ext_ref[0].bools.get(t.id) if ext_ref[0] is not None else None
        if isinstance(t, ast.UnaryOp) and isinstance(t.op, ast.Not):
            d = decide(t.operand)
            return None if d is None else not d
        if isinstance(t, ast.BoolOp):
            ds = [decide(v) for v in t.values]
            if isinstance(t.op, ast.And):
                return False if any(d is False for d in ds) else (None if any(d is None for d in ds) else True)
            return True if any(d is True for d in ds) else (None if any(d is None for d in ds) else False)
        if isinstance(t, ast.Call) and call_name(t) == "startswith" and t.args and isinstance(t.args[0], ast.Constant) and t.args[0].value == "NP2":
            return cls["np2"]
        if isinstance(t, ast.Compare) and len(t.ops) == 1 and isinstance(t.left, ast.Call) and call_name(t.left) == "_get_type_from_meta":
            # stream type of the file: 'nidq' for the nidq class, 'ap' / 'lf' for the imec classes
            op, r = t.ops[0], t.comparators[0]
            if isinstance(op, (ast.Eq, ast.NotEq)) and isinstance(r, ast.Constant) and isinstance(r.value, str):
                res = (not cls["imec"]) if r.value == "nidq" else (cls["imec"] if r.value in ("ap", "lf") else False)
                if r.value in ("ap", "lf"):
                    return None   # which of the two imec streams is not a class fact
                return res if isinstance(op, ast.Eq) else not res
            if isinstance(op, (ast.In, ast.NotIn)) and isinstance(r, (ast.List, ast.Tuple, ast.Set)) and all(isinstance(x, ast.Constant) for x in r.elts):
                vals = {x.value for x in r.elts}
                if vals == {"ap", "lf"}:
                    return cls["imec"] if isinstance(op, ast.In) else not cls["imec"]
                if vals == {"nidq"}:
                    return (not cls["imec"]) if isinstance(op, ast.In) else cls["imec"]
            return None
        if isinstance(t, ast.Compare) and len(t.ops) == 1:
            l, op, r = t.left, t.ops[0], t.comparators[0]
            if isinstance(op, (ast.In, ast.NotIn)) and isinstance(l, ast.Constant):
                res = None
                if l.value == "imroTbl":
                    res = cls["imec"]
                elif l.value in ("niMNGain", "niMAGain", "niAiRangeMax"):
                    res = not cls["imec"]
                elif l.value == "NP2":
                    res = cls["np2"]
                if res is None:
                    return None
                return res if isinstance(op, ast.In) else not res
            if isinstance(op, (ast.Eq, ast.NotEq)):
                for a, b in ((l, r), (r, l)):
                    if isinstance(b, ast.Constant) and b.value in ("imec", "nidq") and "typeThis" in src(a):
                        res = cls["imec"] if b.value == "imec" else not cls["imec"]
                        return res if isinstance(op, ast.Eq) else not res
        return None
    return decide


def conversion_layouts(ctx):
    """{class: {stream key: ArrVal}} extracted from the current source, with the extractor (for its value table)."""
    if "conv_layouts" in ctx.shared:
        return ctx.shared["conv_layouts"]
    from sa.segvec import MetaEval, SegExtractor
    repo = ctx.repo
    fi = repo.fn(FN)
    nfields = 5
    group_fields = None
    for c in find(fi.node, ast.Call, lambda c: call_name(c) == "findall"):
        pat = c.args[0] if c.args else None
        if isinstance(pat, ast.Constant) and isinstance(pat.value, str) and "imroTbl" in src(c):
            import re as _re
            try:
                groups = _re.compile(pat.value).groups
            except _re.error:
                groups = 0
            nfields = groups if groups > 1 else pat.value.count("[0-9]*")
            # several groups each capturing ONE of the number fields: the entry has as many fields as number tokens, group k is the field it encloses
            toks, depth, cur, gf = 0, 0, None, []
            i_ = 0
            pv = pat.value
            while i_ < len(pv):
                if pv.startswith("[0-9]*", i_):
                    if depth > 0:
                        cur.append(toks)
                    toks += 1
                    i_ += 6
                    continue
                if pv[i_] == "(":
                    depth += 1
                    cur = []
                elif pv[i_] == ")" and depth > 0:
                    depth -= 1
                    gf.append(cur)
                i_ += 1
            if groups > 1 and all(len(g_) == 1 for g_ in gf) and len(gf) == groups:
                nfields = toks
                group_fields = [g_[0] for g_ in gf]
    from sa.regions import UndecidedBranch
    out = {}
    for cname, cls in DEVICE_CLASSES.items():
        # a branch on a run-time predicate of the metadata (not on the device class) is explored both ways: every arm must build valid vectors
        pending, k = [{}], 0
        while pending:
            choices = pending.pop(0)
            ref = [None]
            ev = MetaEval(resolve=_resolver(repo, fi), nfields=nfields)
            ev.group_fields = group_fields
            base_decide = _class_decide(cls, ref)

            def decide(t, base_decide=base_decide, choices=choices):
                d = base_decide(t)
                if d is None and norm(t) in choices:
                    return choices[norm(t)][0]
                return d
            ex = SegExtractor(ev, decide)
            ref[0] = ex
            ev.decide = ex.decide
            ev.local_functions = {st.name: st for st in fi.node.body if isinstance(st, ast.FunctionDef)}
            try:
                ret = ex.run_function(fi.node.body)
            except UndecidedBranch as ub:
                if len(choices) >= 4:
                    raise
                pending += [dict(choices, **{norm(ub.test): (True, ub.test)}), dict(choices, **{norm(ub.test): (False, ub.test)})]
                continue
            if ret is None:
                raise AnalysisError(f"{FN}: no conversion table is returned for {cname} metadata")
            ex.path_choices = [(src(t), v) for v, t in choices.values()]
            ex.path_tests = [(t, v) for v, t in choices.values()]
            out[cname if k == 0 else f"{cname}#{k}"] = (ret, ex)
            k += 1
    ctx.shared["conv_layouts"] = (out, nfields)
    return out, nfields


def _expected(cname, key, m):
    """[(tag kind, entry index)] per channel for the counts m, in the symbols of sa/segvec.MetaEval."""
    R = Poly.sym("md[imAiRangeMax]") if cname != "nidq" else Poly.sym("md[niAiRangeMax]")
    I = R * Poly.sym("MAXINT").pow(-1)
    one = ("VAL:" + Poly.const(1).canon(), 0)
    if cname == "imec-NP2":
        v = ("VAL:" + (I * Poly.const(80).pow(-1)).canon(), 0)
        return [v] * (m["NC"] - m["NSYNC"]) + [one] * m["NSYNC"]
    if cname == "imec-NP1":
        g = Poly.sym("G3" if key == "ap" else "G4")
        f = "UP:" + (I * g.pow(-1)).canon()
        return [(f, i) for i in range(m["NC"] - m["NSYNC"])] + [one] * m["NSYNC"]
    gains = [I * Poly.sym("md[niMNGain]").pow(-1), I * Poly.sym("md[niMAGain]").pow(-1), I, Poly.const(1)]
    out = []
    for k, gname in enumerate(("MN", "MA", "XA", "DW")):
        out += [("VAL:" + gains[k].canon(), 0)] * m[gname]
    return out


def _layout_mismatches(ctx):
    """[(class, key, counts, position, got, want, part)] for every stream of every device class; part in {'length','analog','sync'}."""
    if "conv_mismatch" in ctx.shared:
        return ctx.shared["conv_mismatch"]
    from sa.regions import models, paint, paint_nodes
    (layouts, nfields) = conversion_layouts(ctx)
    res = []
    nmod = 0
    for cname_v, (ret, ex) in layouts.items():
        cname = cname_v.split("#")[0]
        keys = ("ap", "lf") if cname != "nidq" else ("nidq",)
        for key in keys:
            if key not in ret:
                res.append((cname, key, None, None, None, None, "missing", None))
                continue
            a = ret[key]
            if cname != "nidq":
                ms = models(("NC", "NSYNC"), [lambda m: m["NSYNC"] <= m["NC"] - 1], {"NC": (1, 5), "NSYNC": (0, 2)})
            else:
                ms = models(("MN", "MA", "XA", "DW"), [lambda m: m["MN"] + m["MA"] + m["XA"] + m["DW"] >= 1], {k: (0, 2) for k in ("MN", "MA", "XA", "DW")})
            first = {}
            for m in ms:
                nmod += 1
                env = dict(m)
                if getattr(ex, "path_choices", None):
                    m = dict(m, path=" and ".join(("" if v else "not ") + f"({t[:50]})" for t, v in ex.path_choices))
                if cname == "nidq":
                    env["NC"] = m["MN"] + m["MA"] + m["XA"] + m["DW"]
                    env["NSYNC"] = m["DW"]
                else:
                    env["NAP"] = m["NC"] - m["NSYNC"]
                    env["NLF"] = m["NC"] - m["NSYNC"]
                want = _expected(cname, key, env)
                got = paint(a, env)
                if got is None:
                    raise AnalysisError(f"{FN}: layout of '{key}' ({cname}) not evaluable for counts {m}: length {a.length}")
                nsync = env["NSYNC"]
                if len(got) != len(want):
                    first.setdefault("length", (cname, key, m, None, len(got), len(want), "length", None))
                    continue
                uniform = _uniform_claim(ex)
                for p_ in range(len(want)):
                    g_, w_ = got[p_], want[p_]
                    if uniform and g_[0].startswith("VAL:") and w_[0].startswith("UP:") and g_[0][4:] == w_[0][3:]:
                        continue   # on a path that claims all entries carry the same gains, entry 0's factor is every entry's factor (the claim itself is decided by D9)
                    if got[p_] != want[p_]:
                        part = "sync" if p_ >= len(want) - nsync else "analog"
                        if part not in first:
                            nodes = paint_nodes(a, env) or []
                            first[part] = (cname, key, m, p_, got[p_], want[p_], part, nodes[p_] if p_ < len(nodes) else None)
            res += list(first.values())
    ctx.shared["conv_mismatch"] = (res, nmod)
    return res, nmod


def _show(t):
    if t is None:
        return "?"
    k, i = t
    if k.startswith("UP:"):
        return f"{k[3:]} (IMRO entry {i})"
    return k[4:] if k.startswith("VAL:") else k


def _uniform_claim(ex):
    """The tests taken True on this path that claim `every IMRO entry carries the gains of the first one`: X.count(<pattern with the first entry's fields>) == <number of entries>.
    -> list of the count calls (empty when the path makes no such claim)."""
    out = []
    names = getattr(ex, "entry0_names", set())
    for t, v in getattr(ex, "path_tests", []):
        if not v:
            continue
        for cmp_ in [n for n in ast.walk(t) if isinstance(n, ast.Compare) and len(n.ops) == 1 and isinstance(n.ops[0], ast.Eq)]:
            counts = [c for c in ast.walk(cmp_) if isinstance(c, ast.Call) and call_name(c) == "count" and c.args and isinstance(c.args[0], ast.JoinedStr)
                      and any(isinstance(f, ast.FormattedValue) and loc_name(f.value) in names for f in c.args[0].values)]
            out += counts
    return out


def d9_uniform_fast_path(ctx):
    ctx.rule("D9", "a fast path that gives every channel the first IMRO entry's gains is taken only when every entry carries those gains: the entries are counted with a pattern delimited on both sides")
    (layouts, _) = conversion_layouts(ctx)
    fi = ctx.repo.fn(FN)
    seen = set()
    for cname, (ret, ex) in layouts.items():
        for c in _uniform_claim(ex):
            if id(c) in seen:
                continue
            seen.add(id(c))
            vals = c.args[0].values
            left_ok = isinstance(vals[0], ast.Constant) and isinstance(vals[0].value, str) and vals[0].value != ""
            right_ok = isinstance(vals[-1], ast.Constant) and isinstance(vals[-1].value, str) and vals[-1].value != ""
            ctx.check(left_ok and right_ok, fi, c, c, "the counted pattern is closed by a literal on both sides",
                      f"`{src(c)[:80]}` counts a pattern that " + ("ends" if left_ok else "starts") + " with a number field and no delimiter: a gain of 50 also matches every entry whose gain is 500 "
                      "(or 125 / 1250 ...), so a table that mixes such gains is taken as uniform and every channel converts with the first entry's volts-per-bit - 10x off on the other channels",
                      key="uniform-count", name_free=True)
    if not seen:
        ctx.note("no uniform-gain fast path in the conversion")


def d1_sync_gain(ctx, rule_id="D1"):
    ctx.rule(rule_id, "every conversion vector has one factor per saved channel; the last NSYNC factors are 1 (sync unscaled, last) for every channel / sync count, zero sync channels included")
    repo = ctx.repo
    fi = repo.fn(FN)
    res, nmod = _layout_mismatches(ctx)
    bad = [r for r in res if r[6] in ("length", "sync", "missing")]
    seen = set()
    for cname, key, m, p_, got, want, part, node in bad:
        if part == "missing":
            ctx.violation(fi, fi.node, f"{cname}: '{key}'", f"no '{key}' conversion vector is returned for {cname} metadata", key=f"layout:{cname}:{key}:missing", name_free=True)
        elif part == "length":
            ctx.violation(fi, fi.node, f"{cname} '{key}' counts {m}", f"[{cname}] the '{key}' vector has {got} entries for counts {m}, expected {want} (one per saved channel): "
                          "the per-channel factors no longer line up with the channels", key=f"layout:{cname}:{key}:length", name_free=True)
        else:
            ctx.violation(fi, node if node is not None else fi.node, node if node is not None else f"{cname} '{key}' counts {m}", f"[{cname}] with counts {m} channel {p_} of the '{key}' vector (a sync channel) gets factor {_show(got)} instead of 1",
                          key=f"layout:{cname}:{key}:sync", name_free=True)
        seen.add((cname, key))
    for cname in DEVICE_CLASSES:
        for key in (("ap", "lf") if cname != "nidq" else ("nidq",)):
            if (cname, key) not in seen:
                ctx.ok(fi, fi.node, f"{cname} '{key}'", "one factor per saved channel, sync channels last with factor 1 (all counts in the box, NSYNC = 0 included)", key=f"layout:{cname}:{key}")
    ctx.note(f"conversion-vector layouts evaluated on {nmod} count assignments (NC 1..5 x NSYNC 0..2; nidq categories 0..2 each)")


def _model_findings(ctx, fi):
    """defects established by the value model while extracting the vectors (e.g. rows ordered by a text column)"""
    (layouts, _) = conversion_layouts(ctx)
    seen = set()
    n = 0
    for cname, (ret, ex) in layouts.items():
        for node, msg in getattr(ex, "findings", []):
            if msg in seen:
                continue
            seen.add(msg)
            n += 1
            ctx.violation(fi, node, node, f"[{cname}] {msg}", key="model:" + msg[:40], name_free=True)
    return n


def d_analog_layout(ctx, rule_id):
    """C01's view of D2 + D8: every analog channel gets its own generation / stream / category factor."""
    ctx.rule(rule_id, "analog channels convert with range / max-int / their own gain (NP2: 80; NP1: IMRO AP gain for ap, LF gain for lf, entry i for channel i; "
                      "nidq: category gain), for every channel / sync count")
    fi = ctx.repo.fn(FN)
    res, nmod = _layout_mismatches(ctx)
    bad = [r for r in res if r[6] == "analog"]
    for cname, key, m, p_, got, want, part, node in bad:
        ctx.violation(fi, node if node is not None else fi.node, node if node is not None else f"{cname} '{key}' counts {m}",
                      f"[{cname}] with counts {m} channel {p_} of the '{key}' vector converts with {_show(got)}; expected {_show(want)}",
                      key=f"analog:{cname}:{key}", name_free=True)
    nf = _model_findings(ctx, fi)
    if not bad and not nf:
        ctx.ok(fi, fi.node, "analog factors", "every analog channel carries its own factor", key="analog")


def d2_ap_lf(ctx):
    ctx.rule("D2", "analog factors: NP2 ap == lf == range/max-int/80; NP1 ap = range/max-int/IMRO field 3, lf = field 4 (of 5), entry i for channel i; "
                   "range key matches the device")
    repo = ctx.repo
    fi = repo.fn(FN)
    res, nmod = _layout_mismatches(ctx)
    (layouts, nfields) = conversion_layouts(ctx)
    ctx.check(nfields == 5, fi, fi.node, f"IMRO regex captures {nfields} fields", "IMRO entries are read as (chan bank ref apgain lfgain)",
              f"the IMRO regex captures {nfields} fields per entry, the NP1 layout has 5 leading integer fields", key="imro-fields")
    seen = set()
    for cname, key, m, p_, got, want, part, node in res:
        if part != "analog" or cname == "nidq":
            continue
        ctx.violation(fi, node if node is not None else fi.node, node if node is not None else f"{cname} '{key}' counts {m}", f"[{cname}] with counts {m} channel {p_} of the '{key}' vector converts with {_show(got)}; expected {_show(want)} "
                      f"(G3 = AP gain, G4 = LF gain of the IMRO entry; md[..] = metadata field)", key=f"formula:{cname}:{key}", name_free=True)
        seen.add((cname, key))
    _model_findings(ctx, fi)
    for cname in ("imec-NP2", "imec-NP1"):
        for key in ("ap", "lf"):
            if (cname, key) not in seen:
                ctx.ok(fi, fi.node, f"{cname} '{key}'", "analog factors as stated", key=f"formula:{cname}:{key}")


def d8_nidq_segments(ctx):
    ctx.rule("D8", "nidq vector = [MN x range/max-int/niMNGain, MA x range/max-int/niMAGain, XA x range/max-int, DW x 1] with the counts of snsMnMaXaDw, for every count combination")
    repo = ctx.repo
    fi = repo.fn(FN)
    res, nmod = _layout_mismatches(ctx)
    bad = [r for r in res if r[0] == "nidq" and r[6] == "analog"]
    for cname, key, m, p_, got, want, part, node in bad:
        ctx.violation(fi, node if node is not None else fi.node, node if node is not None else f"nidq counts {m}", f"[nidq] with channel counts {m} channel {p_} converts with {_show(got)}; expected {_show(want)}: those channels are scaled with the "
                      "wrong gain field or the categories are mis-sized", key="nidq:layout", name_free=True)
    if not bad:
        ctx.ok(fi, fi.node, "nidq layout", "MN / MA / XA / DW stretches carry their own gain and count", key="nidq:layout")


def d3_reader_writer(ctx):
    ctx.rule("D3", "read_meta_data / write_meta_data agree on '=' (maxsplit=1), ',' and newline; every parsed value kind has a writer branch")
    repo = ctx.repo
    rd = repo.fn("spikeglx.read_meta_data")
    wr = repo.fn("spikeglx.write_meta_data")
    # reader
    kv = [c for c in find(rd.node, ast.Call, lambda c: call_name(c) == "split") if c.args and isinstance(c.args[0], ast.Constant)]
    kv_split = [c for c in kv if (kwarg(c, "maxsplit") is not None or len(c.args) > 1)]
    if not kv_split:
        ctx.violation(rd, rd.node, "split", "key/value split has no maxsplit: values containing the separator would be cut", key="maxsplit")
        return
    c = kv_split[0]
    ms = kwarg(c, "maxsplit") or c.args[1]
    sep_r = c.args[0].value
    ctx.check(isinstance(ms, ast.Constant) and ms.value == 1, rd, c, c, "key/value split uses maxsplit=1",
              "key/value split does not use maxsplit=1", key="maxsplit")
    lst = [x for x in kv if x not in kv_split]          # the splits without maxsplit: the list-valued entries (the parser may appear on several paths)
    lseps = {x.args[0].value for x in lst}
    lsep_r = lseps.pop() if len(lseps) == 1 else (None if not lseps else sorted(lseps))
    # writer
    fs = [j for j in find(wr.node, ast.JoinedStr)]
    wsep = None
    for j in fs:
        vals = j.values
        if len(vals) >= 3 and isinstance(vals[0], ast.FormattedValue) and isinstance(vals[1], ast.Constant) \
                and isinstance(vals[2], ast.FormattedValue):
            wsep = vals[1].value
            tail = vals[3].value if len(vals) > 3 and isinstance(vals[3], ast.Constant) else ""
            ctx.check(wsep == sep_r and tail == "\n", wr, j, j, "writer emits key<sep>value<newline> with the reader's separator",
                      f"writer emits `{src(j)}` but reader splits on {sep_r!r} and on lines", key="kv-sep")
    if wsep is None:
        raise AnchorMissing("write_meta_data: key=value f-string not found")
    joins = [c2 for c2 in find(wr.node, ast.Call, lambda c2: call_name(c2) == "join" and isinstance(c2.func.value, ast.Constant))]
    lsep_w = joins[0].func.value.value if joins else None
    ctx.check(lsep_r is not None and lsep_r == lsep_w, wr, joins[0] if joins else wr.node, f"list sep reader={lsep_r!r} writer={lsep_w!r}",
              "list separator agrees", f"list separator differs: reader {lsep_r!r}, writer {lsep_w!r}", key="list-sep")
    # list elements are written exactly: str(int(v)) / str(v) / repr(v) / '{:d}'; a float format (g, e, .Nf) keeps 6 significant digits only
    for jc in joins:
        if not jc.args:
            continue
        comp = jc.args[0]
        elt = comp.elt if isinstance(comp, (ast.ListComp, ast.GeneratorExp)) else None
        if elt is None and isinstance(comp, ast.Call) and call_name(comp) == "map" and comp.args:
            elt = ast.Call(func=comp.args[0], args=[ast.Name(id="v", ctx=ast.Load())], keywords=[])
        if elt is None:
            raise AnalysisError(f"write_meta_data: list serialisation `{src(jc)[:60]}` not understood")
        verdict = None
        if isinstance(elt, ast.Call) and call_name(elt) in ("str", "repr") and elt.args:
            verdict = "exact"
        elif isinstance(elt, ast.JoinedStr):
            fv = [x for x in elt.values if isinstance(x, ast.FormattedValue)]
            specs = ["".join(c.value for c in x.format_spec.values if isinstance(c, ast.Constant)) if x.format_spec is not None else "" for x in fv]
            verdict = "exact" if all(sp in ("", "d") for sp in specs) else "lossy:" + ",".join(sp for sp in specs if sp not in ("", "d"))
        elif isinstance(elt, ast.BinOp) and isinstance(elt.op, ast.Mod) and isinstance(elt.left, ast.Constant) and isinstance(elt.left.value, str):
            verdict = "exact" if elt.left.value in ("%d", "%s", "%r", "%i") else "lossy:" + elt.left.value
        elif isinstance(elt, ast.Call) and call_name(elt) == "format":
            a = elt.args[1] if len(elt.args) > 1 else None
            sp = a.value if isinstance(a, ast.Constant) else None
            verdict = "exact" if sp in ("", "d", None) and a is None or sp in ("", "d") else f"lossy:{sp}"
        if verdict is None:
            raise AnalysisError(f"write_meta_data: list element formatting `{src(elt)[:60]}` not understood")
        ctx.check(verdict == "exact", wr, jc, elt, "list elements are written with all their digits",
                  f"list elements are written with `{src(elt)}` ({verdict}): values with more than 6 significant digits are rounded / written in exponent "
                  "form and come back as a string: write -> read is no longer the identity", key="list-digits")
    # value kinds: parser yields str | float | list[float]; writer must branch on list and float
    kinds = set()
    for c2 in find(wr.node, ast.Call, lambda c2: call_name(c2) == "isinstance" and len(c2.args) == 2):
        kinds.add(src(c2.args[1]))
    ctx.check({"list", "float"} <= kinds, wr, wr.node, f"writer branches: {sorted(kinds)}",
              "writer has branches for list and float values", f"writer lacks a branch for list or float values (has {sorted(kinds)})",
              key="writer-kinds")
    # the reader's numeric pattern accepts only digits, comma, dot; scalars are un-nested
    pats = [c2 for c2 in find(rd.node, ast.Call, lambda c2: call_name(c2) == "fullmatch")]
    if pats:
        p = pats[0].args[0]
        f_ = pats[0].func
        if isinstance(f_, ast.Attribute) and isinstance(f_.value, ast.Name) and f_.value.id not in ("re", "regex"):
            # a pattern compiled once at import: NAME = re.compile(P) at module level; NAME.fullmatch(s) is re.fullmatch(P, s)
            for st_ in rd.module.tree.body:
                if isinstance(st_, ast.Assign) and any(isinstance(t_, ast.Name) and t_.id == f_.value.id for t_ in st_.targets) and isinstance(st_.value, ast.Call) \
                        and call_name(st_.value) == "compile" and st_.value.args:
                    p = st_.value.args[0]
        ctx.check(isinstance(p, ast.Constant) and isinstance(p.value, str) and set(p.value) <= set("[0-9,.]*+"), rd, pats[0], pats[0],
                  "numeric coercion is restricted to digits/comma/dot strings",
                  f"numeric pattern {src(p)} would coerce non-numeric strings", key="num-pattern")
    # tilde keys
    rep = [c2 for c2 in find(rd.node, ast.Call, lambda c2: call_name(c2) == "replace" and c2.args and isinstance(c2.args[0], ast.Constant)
                             and c2.args[0].value == "~")]
    ctx.check(bool(rep), rd, rd.node, "k.replace('~','')", "tildes are stripped from key names", "tildes are no longer stripped from key names",
              key="tilde")


class _Raises(Exception):
    pass


def _abs_eval(e, st):
    """Abstract value of an expression of _get_max_int_from_meta: None | 'imec' | 'nidq' | 'NP2' | 'NP1' | bool | ('ret', key, default)."""
    if isinstance(e, ast.Constant):
        if isinstance(e.value, str):
            return {"imec": "imec", "nidq": "nidq"}.get(e.value, ("str", e.value))
        return e.value
    if isinstance(e, ast.Name):
        if e.id in st["env"]:
            return st["env"][e.id]
        raise AnalysisError(f"_get_max_int_from_meta: name `{e.id}` not understood")
    if isinstance(e, ast.Call):
        nm = call_name(e)
        if nm == "_get_neuropixel_version_from_meta":
            return st["L"]
        if nm == "get" and e.args and isinstance(e.args[0], ast.Constant):
            if e.args[0].value == "typeThis":
                return st["T"]
            dflt = None
            if len(e.args) > 1:
                ok, dflt = const_value(e.args[1])
            return ("md", e.args[0].value, dflt, False)
        if nm == "int" and e.args:
            return _abs_eval(e.args[0], st)
        if nm == "startswith" and isinstance(e.func, ast.Attribute) and e.args and isinstance(e.args[0], ast.Constant):
            v = _abs_eval(e.func.value, st)
            if v is None:
                raise _Raises(f"`{src(e)}` on None")
            return v == "NP2" if e.args[0].value == "NP2" else (_ for _ in ()).throw(AnalysisError(f"`{src(e)}` not understood"))
        raise AnalysisError(f"_get_max_int_from_meta: call `{src(e)[:60]}` not understood")
    if isinstance(e, ast.Subscript) and isinstance(e.slice, ast.Constant) and isinstance(e.slice.value, str):
        if e.slice.value == "typeThis":
            return st["T"]
        return ("md", e.slice.value, None, True)
    if isinstance(e, ast.BoolOp):
        last = None
        for v in e.values:
            last = _abs_eval(v, st)
            truth = _truth(last)
            if isinstance(e.op, ast.Or) and truth:
                return last
            if isinstance(e.op, ast.And) and not truth:
                return last
        return last
    if isinstance(e, ast.UnaryOp) and isinstance(e.op, ast.Not):
        return not _truth(_abs_eval(e.operand, st))
    if isinstance(e, ast.IfExp):
        return _abs_eval(e.body if _truth(_abs_eval(e.test, st)) else e.orelse, st)
    if isinstance(e, ast.Compare) and len(e.ops) == 1:
        l, r = _abs_eval(e.left, st), _abs_eval(e.comparators[0], st)
        op = e.ops[0]
        if isinstance(op, (ast.Is, ast.Eq)):
            return l == r
        if isinstance(op, (ast.IsNot, ast.NotEq)):
            return l != r
        if isinstance(op, (ast.In, ast.NotIn)):
            if isinstance(l, tuple) and l[0] == "str" and l[1] == "NP2":
                if r is None:
                    raise _Raises(f"`{src(e)}`: 'NP2' in None raises TypeError")
                res = r == "NP2"
                return res if isinstance(op, ast.In) else not res
            if isinstance(r, tuple) and r[0] == "keys":
                raise AnalysisError(f"`{src(e)}` (metadata key presence) not modelled")
        raise AnalysisError(f"_get_max_int_from_meta: comparison `{src(e)}` not understood")
    raise AnalysisError(f"_get_max_int_from_meta: expression `{src(e)[:60]}` not understood")


def _truth(v):
    if v is None or v is False:
        return False
    return True


def _abs_run(stmts, st):
    for s_ in stmts:
        if isinstance(s_, ast.Expr) and isinstance(s_.value, ast.Constant):
            continue
        if isinstance(s_, ast.Assign) and len(s_.targets) == 1 and isinstance(s_.targets[0], ast.Name):
            st["env"][s_.targets[0].id] = _abs_eval(s_.value, st)
            continue
        if isinstance(s_, ast.If):
            r = _abs_run(s_.body if _truth(_abs_eval(s_.test, st)) else s_.orelse, st)
            if r is not None:
                return r
            continue
        if isinstance(s_, ast.Return):
            return ("ret", _abs_eval(s_.value, st), s_)
        if isinstance(s_, ast.Assert):
            continue
        raise AnalysisError(f"_get_max_int_from_meta: statement `{src(s_)[:60]}` not understood")
    return None


def d5_maxint(ctx):
    ctx.rule("D5", "max-int decision table, evaluated for every (stream, version argument, version looked up): nidq -> imMaxInt default 32768 whatever version tag the "
                   "metadata yields or the caller passes; imec NP2 -> imMaxInt (mandatory); imec NP1 -> imMaxInt default 512")
    repo = ctx.repo
    fi = repo.fn("spikeglx._get_max_int_from_meta")
    params = [p for p in fi.params]
    vparam = params[1] if len(params) > 1 else None
    # does any caller hand over a version it looked up without knowing that the stream is imec?
    passes_for_any_stream = []
    if vparam:
        from sa.calls import bind
        from sa.cfg import CFG
        for q, caller in repo.functions.items():
            if not isinstance(caller.node, (ast.FunctionDef, ast.AsyncFunctionDef)):
                continue
            for c in resolved_calls(repo, caller, "spikeglx._get_max_int_from_meta"):
                b = bind(c, fi)
                a = b.bound.get(vparam)
                if a is None or (isinstance(a, ast.Constant) and a.value is None):
                    continue
                cfgc = CFG(caller.node)
                at = GD.Atoms()
                cn = cfgc.node_for(c)
                pc = GD.path_condition(cfgc, cn, at) if cn is not None else GD.TRUE
                imec_known = any(GD.entails(pc, GD.Atom(k)) is True for k in GD.atoms_of(pc) if "'imec'" in k and "typeThis" in k)
                if not imec_known:
                    passes_for_any_stream.append((caller, c))
    combos = []
    for L in ("NP2", "NP1"):
        for P in (None, L):
            combos.append(("imec", P, L))
    for L in (None, "NP1", "NP2"):
        combos.append(("nidq", None, L))
        if L is not None and passes_for_any_stream:
            combos.append(("nidq", L, L))
    if not vparam:
        combos = [c for c in combos if c[1] is None]
    want = {"nidq": ("imMaxInt", 32768, False), "NP2": ("imMaxInt", None, True), "NP1": ("imMaxInt", 512, False)}
    seen = set()
    for T, P, L in combos:
        st = {"T": T, "L": L, "env": {p: None for p in params}}
        st["env"][params[0]] = ("mdobj",)
        if vparam:
            st["env"][vparam] = P
        gen = "nidq" if T == "nidq" else (P or L)
        wk, wd, wmand = want[gen]
        label = f"typeThis={T}, version argument={P!r}, version in metadata={L!r}"
        try:
            r = _abs_run(fi.node.body, st)
        except _Raises as ex:
            ctx.violation(fi, fi.node, label, f"for {label} the function raises: {ex}", key=f"maxint:{T}:{P}:{L}", name_free=True)
            continue
        if r is None:
            ctx.violation(fi, fi.node, label, f"for {label} the function returns None", key=f"maxint:{T}:{P}:{L}", name_free=True)
            continue
        _, val, node = r
        ok = isinstance(val, tuple) and val[0] == "md" and val[1] == wk and val[2] == wd and val[3] == wmand
        extra = ""
        if not ok and T == "nidq" and P is not None:
            caller, c = passes_for_any_stream[0]
            extra = (f" - {caller.qualname} (line {c.lineno}) passes the tag it read from the metadata for any stream; a nidq file whose metadata yields a probe tag "
                     f"(the 3A-era `typeEnabled` key) is scaled with the probe's max-int: volts-per-bit off by 32768/512")
        ctx.check(ok, fi, node, f"{label}: {src(node)}", f"{gen}: max-int from {wk}" + (" (mandatory)" if wmand else f" default {wd}"),
                  f"for {label} the function returns `{src(node.value)}`; expected md[{wk!r}]" + (" (mandatory)" if wmand else f" with default {wd}") + extra,
                  key=f"maxint:{T}:{P}:{L}", name_free=True)
        seen.add(gen)
    if seen != {"nidq", "NP2", "NP1"}:
        raise AnalysisError("_get_max_int_from_meta: not every device class was evaluated")


def d6_sync_indices(ctx):
    ctx.rule("D6", "sync traces are the last nsync of the saved channels; nsync from snsApLfSy[2] (imec) / snsMnMaXaDw[-1] (nidq)")
    repo = ctx.repo
    fi = repo.fn("spikeglx._get_sync_trace_indices_from_meta")
    du = DefUse(fi.node)
    ev = Evaluator(resolve=lambda e: repo.resolve_expr(fi, e))
    for r in returns_of(fi.node):
        v = r.value
        rng = next((c for c in find(v, ast.Call) if call_name(c) == "range"), None) if v is not None else None
        if rng is None or len(rng.args) != 2:
            ctx.violation(fi, r, r, "sync indices are not range(ntr - nsync, ntr)", key="range")
            continue
        a, b = ev.ev(rng.args[0]), ev.ev(rng.args[1])
        diff = b - a
        ctx.check(diff == Poly.sym("nsync") and b == Poly.sym("ntr"), fi, r, r, "indices are the last nsync of ntr channels",
                  f"indices are range({a.canon()}, {b.canon()}): not the last nsync channels", key="range")
    ntr = [d for d in du.defs if d.var == "ntr" and d.kind == "assign"]
    ctx.check(bool(ntr) and all("_get_nchannels_from_meta" in src(d.value) for d in ntr), fi, ntr[0].stmt if ntr else fi.node,
              "ntr", "ntr is the saved-channel count", "ntr is not the saved-channel count", key="ntr")
    from sa.cfg import CFG
    cfg = du.cfg
    for d in [d for d in du.defs if d.var == "nsync" and d.kind == "assign"]:
        gs = " ".join(norm(t) for t, pol in cfg.guards(d.node) if pol)
        s = src(d.value)
        if "nidq" in gs:
            ok = "snsMnMaXaDw" in s and re.search(r"\[\s*(-1|3)\s*\]", s) is not None
        else:
            ok = "snsApLfSy" in s and re.search(r"\[\s*(2|-1)\s*\]", s) is not None
        ctx.check(ok, fi, d.stmt, d.stmt, "sync count read from the right metadata field",
                  f"sync count `{s}` is read from the wrong metadata field", key="nsync:" + ("nidq" if "nidq" in gs else "imec"))


def _strip_round(e):
    """x in int(round(x)) / round(x) / int(np.round(x)) / np.rint(x)"""
    while isinstance(e, ast.Call) and call_name(e) in ("int", "round", "rint", "around") and e.args:
        e = e.args[0]
    return e


def d7_type_fs(ctx):
    ctx.rule("D7", "stream type from snsApLfSy zero pattern; sampling rate key by device; nc from nSavedChans; ns = round(fileTimeSecs*fs)")
    repo = ctx.repo
    fi = repo.fn("spikeglx._get_type_from_meta")
    from sa.cfg import CFG
    cfg = CFG(fi.node)
    table = {}
    for r in returns_of(fi.node):
        ok, v = const_value(r.value) if r.value is not None else (False, None)
        conds = []
        for t, pol in cfg.guards(cfg.node_for(r)):
            if pol:
                from sa.cfg import conjuncts
                conds += [src(c) for c, p in conjuncts(t, True) if p]
        table[v] = sorted(conds)
    want = {"lf": ["snsApLfSy[0] == 0", "snsApLfSy[1] != 0"], "ap": ["snsApLfSy[0] != 0", "snsApLfSy[1] == 0"]}
    for k, w in want.items():
        ctx.check(table.get(k) == w, fi, fi.node, f"{k}: {table.get(k)}", f"'{k}' is decided by {w}",
                  f"'{k}' is decided by {table.get(k)} (expected {w})", key=f"type:{k}")
    ctx.check("nidq" in table and any("nidq" in c for c in table.get("nidq", [])), fi, fi.node, f"nidq: {table.get('nidq')}",
              "'nidq' requires typeThis == nidq", "'nidq' branch missing or not tied to typeThis", key="type:nidq")
    fs = repo.fn("spikeglx._get_fs_from_meta")
    cfg2 = CFG(fs.node)
    for r in returns_of(fs.node):
        g = cfg2.guards(cfg2.node_for(r))
        imec = any("imec" in src(t) and pol for t, pol in g)
        wantk = "imSampRate" if imec else "niSampRate"
        ctx.check(wantk in src(r), fs, r, r, f"sampling rate from {wantk}", f"`{src(r)}` does not read {wantk}", key=f"fs:{wantk}")
    nc = repo.fn("spikeglx._get_nchannels_from_meta")
    ctx.check(all("nSavedChans" in src(r) for r in returns_of(nc.node)), nc, nc.node, "nSavedChans", "channel count from nSavedChans",
              "channel count no longer read from nSavedChans", key="nc")
    ns = repo.fn("spikeglx.Reader.ns")
    last = returns_of(ns.node)[-1]
    s = src(last)
    ev = Evaluator(resolve=lambda e: repo.resolve_expr(ns, e))
    from sa.common import expand_deep as _expand_deep
    inner = _expand_deep(DefUse(ns.node), last.value, last)    # the product may be held in a local first
    # every other return of a metadata-backed count rounds the same product (a type-specialised fast path: round(x) for a Python float)
    for r_ in returns_of(ns.node)[:-1]:
        if r_.value is None or "fileTimeSecs" not in src(_expand_deep(DefUse(ns.node), r_.value, r_)):
            continue
        rv = _expand_deep(DefUse(ns.node), r_.value, r_)
        okr = isinstance(rv, ast.Call) and call_name(rv) in ("round", "int") and norm(_strip_round(rv)) == norm(_strip_round(inner))
        ctx.check(okr, ns, r_, r_, "an alternative return rounds the same product to nearest", f"`{src(r_)}` does not round fileTimeSecs * fs to nearest like the main return", key="ns-alt", name_free=True)
    p = None
    try:
        class E2(Evaluator):
            def ev(self, e):
                if isinstance(e, ast.Call) and call_name(e) == "get" and e.args and isinstance(e.args[0], ast.Constant):
                    return Poly.sym(e.args[0].value)
                if isinstance(e, ast.Subscript) and isinstance(e.slice, ast.Constant) and isinstance(e.slice.value, str):
                    return Poly.sym(e.slice.value)
                return super().ev(e)
        e2 = E2(resolve=lambda e: repo.resolve_expr(ns, e))
        p = e2.ev(inner)
    except Undecided:
        pass
    want_p = "round(fileTimeSecs*self.fs)"
    ok_ns = p is not None and re.fullmatch(r"(int\()?(round|rint|around)\(fileTimeSecs\*self\.fs\)\)?", p.canon()) is not None
    ctx.check(ok_ns, ns, last, last,
              "sample count = round(fileTimeSecs * fs)", f"sample count is `{s}` (normal form {p.canon() if p else '?'}), expected {want_p}",
              key="ns")


def dS_shared(ctx):
    from sa.common import rule_no_shared_mutation
    rule_no_shared_mutation(ctx, "DS", ['spikeglx.read_meta_data', 'spikeglx.write_meta_data', 'neuropixel.NP2Reconstructor.write_metadata', 'neuropixel.NP2Converter._writemetadata_ap',
                                        'neuropixel.NP2Converter._writemetadata_lf', 'spikeglx.Reader.open', 'spikeglx._conversion_sample2v_from_meta', 'spikeglx._get_sync_trace_indices_from_meta', 'spikeglx._get_max_int_from_meta', 'spikeglx._get_neuropixel_version_from_meta'],
                            'metadata-derived values of a later call are those an earlier call modified')


def run(ctx):
    ctx.run(dS_shared)
    ctx.run(d1_sync_gain)
    ctx.run(d2_ap_lf)
    ctx.run(d3_reader_writer)
    from rules import C08
    ctx.run(C08.d4_version_tables, rule_id="D4")
    ctx.run(d5_maxint)
    ctx.run(d6_sync_indices)
    ctx.run(d7_type_fs)
    ctx.run(d8_nidq_segments)
    ctx.run(d9_uniform_fast_path)
