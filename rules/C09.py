"""C09 - metadata parsing, derived acquisition parameters and writing round-trip (structural clauses)."""
import ast
import re

from sa.algebra import Evaluator, Poly, Undecided
from sa import guards as GD
from sa.common import value_alternatives, expand_name, returns_of, resolved_calls
from sa.defuse import DefUse, loc_name
from sa.model import AnalysisError, AnchorMissing, const_value, src, walk_function
from sa.struct import call_name, find, kwarg, norm, string_value

EXPLANATION = (
    "Decides structural necessary conditions of C09 on the current source: (D1) every per-channel conversion vector "
    "built by _conversion_sample2v_from_meta ends with an unscaled all-ones sync segment whose length is the metadata's "
    "sync count and the analog count is nSavedChans minus the sync count; (D2) the AP and LF expressions are the same "
    "formula int2volt / gain and differ only in the IMRO field they read (ap: 4th of 5 captured fields, lf: 5th), NP2 "
    "ap == lf == int2volt/80; int2volt = range / max-int with the range key matching the device; (D3) reader and writer "
    "of the metadata file agree on the key/value separator, the list separator and maxsplit=1, and every value kind "
    "the parser produces has a writer branch; (D4) the probe-generation tables agree (shared with C08); (D5) default "
    "max-int table {NP1: 512, nidq: 32768} and NP2 reading imMaxInt; (D6) sync traces are the last nsync channels; "
    "(D7) stream type / sampling-rate key tables. Numerical values and the full grammar round trip are NOT decided."
)
ASSUMPTIONS = [
    "SpikeGLX IMRO entry layout for NP1: (chan bank ref apgain lfgain ...) - AP gain is field 3, LF gain field 4 (0-based)",
    "numpy hstack / r_ keep argument order (model table)",
]

FN = "spikeglx._conversion_sample2v_from_meta"


def _resolver(repo, fi):
    return lambda e: repo.resolve_expr(fi, e)


def _dict_values_for_key(fn_node, key):
    out = []
    for d in find(fn_node, ast.Dict):
        for k, v in zip(d.keys, d.values):
            if isinstance(k, ast.Constant) and k.value == key:
                out.append((d, v))
    return out


def _stack_parts(e):
    """Parts of np.hstack((a, b)) / np.r_[a, b] / np.concatenate((a,b)) in order, else None."""
    if isinstance(e, ast.Call) and call_name(e) in ("hstack", "concatenate") and e.args:
        a = e.args[0]
        if isinstance(a, (ast.Tuple, ast.List)):
            return list(a.elts)
    if isinstance(e, ast.Subscript) and isinstance(e.value, ast.Attribute) and e.value.attr in ("r_",):
        s = e.slice
        return list(s.elts) if isinstance(s, ast.Tuple) else [s]
    return None


def _is_plain_ones(repo, fi, du, e, at):
    v = expand_name(du, e, at)
    if isinstance(v, ast.Call) and call_name(v) in ("float32", "array", "astype"):
        v = v.args[0] if v.args else v
    return (isinstance(v, ast.Call) and call_name(v) == "ones"), v


def _count_field(du, arg, at, depth=0):
    """(metadata key, index) that a channel-count expression reads: int(md["snsMnMaXaDw"][3]), np.sum(md[...][3]), or a name unpacked
    from the whole field (n_mn, n_ma, n_xa, n_dw = (int(n) for n in md["snsMnMaXaDw"]))."""
    if depth > 5 or arg is None:
        return None
    if isinstance(arg, ast.Call) and call_name(arg) in ("int", "sum", "float") and arg.args:
        return _count_field(du, arg.args[0], at, depth + 1)
    if isinstance(arg, ast.Subscript):
        ok, k = const_value(arg.slice)
        base = arg.value
        if ok and isinstance(k, int):
            if isinstance(base, ast.Subscript) and isinstance(base.slice, ast.Constant) and isinstance(base.slice.value, str):
                return (base.slice.value, k)
            if isinstance(base, ast.Call) and call_name(base) == "get" and base.args and isinstance(base.args[0], ast.Constant):
                return (base.args[0].value, k)
            if isinstance(base, ast.Name):
                v = expand_name(du, base, at)
                if v is not base:
                    return _count_field(du, ast.Subscript(value=v, slice=arg.slice, ctx=ast.Load()), at, depth + 1)
    if isinstance(arg, ast.Name):
        ds = du.strong_reaching(arg.id, at)
        if len(ds) == 1:
            d = ds[0]
            if d.kind == "unpack" and d.unpack_index is not None and d.value is not None:
                v = d.value
                if isinstance(v, (ast.GeneratorExp, ast.ListComp)):
                    v = v.generators[0].iter
                if isinstance(v, ast.Call) and call_name(v) in ("map", "tuple", "list") and v.args:
                    v = v.args[-1]
                if isinstance(v, ast.Subscript) and isinstance(v.slice, ast.Constant) and isinstance(v.slice.value, str):
                    return (v.slice.value, d.unpack_index)
                if isinstance(v, ast.Call) and call_name(v) == "get" and v.args and isinstance(v.args[0], ast.Constant):
                    return (v.args[0].value, d.unpack_index)
            if d.kind == "assign" and d.value is not None:
                return _count_field(du, d.value, d.stmt, depth + 1)
    return None


def d1_sync_gain(ctx, rule_id="D1"):
    ctx.rule(rule_id, "each conversion vector ends with np.ones(<sync count>) (sync unscaled, last); analog count = nSavedChans - nsync")
    repo = ctx.repo
    fi = repo.fn(FN)
    du = DefUse(fi.node)
    n = 0
    for key in ("ap", "lf", "nidq"):
        vals = _dict_values_for_key(fi.node, key)
        for d, v in vals:
            v2 = expand_name(du, v, d)
            parts = _stack_parts(v2)
            if parts is None:
                raise AnalysisError(f"{FN}: value for '{key}' is not a stack of segments: {src(v2)[:80]}")
            n += 1
            last = parts[-1]
            ok, lv = _is_plain_ones(repo, fi, du, last, d)
            cnt_ok = False
            if ok:
                cf = _count_field(du, lv.args[0], d) if lv.args else None
                if key == "nidq":
                    cnt_ok = cf in (("snsMnMaXaDw", 3), ("snsMnMaXaDw", -1))
                else:
                    cnt_ok = cf in (("snsApLfSy", 2), ("snsApLfSy", -1))
            ctx.check(ok and cnt_ok, fi, v, f"{key}: last segment {src(last)[:60]}",
                      f"'{key}' vector ends with an all-ones sync segment sized by the metadata sync count",
                      f"'{key}' vector's last segment is `{src(lv)[:80]}`: the sync channel(s) would be scaled or mis-sized",
                      key=f"sync-ones:{key}:{n}")
            # no other segment may be a bare sync-sized ones (sync must be last) and analog segments come first
            if key != "nidq":
                ctx.check(len(parts) == 2, fi, v, f"{key}: {len(parts)} segments", "vector is (analog gains, sync ones)",
                          "vector is not the pair (analog gains, sync ones)", key=f"two-parts:{key}:{n}")
    if n < 3:
        raise AnchorMissing(f"{FN}: expected conversion vectors for ap, lf (two branches) and nidq, found {n}")
    # analog count
    defs = [d for d in du.defs if d.var == "n_chn" and d.kind == "assign"]
    for d in defs:
        v = d.value
        ok = isinstance(v, ast.BinOp) and isinstance(v.op, ast.Sub) and "_get_nchannels_from_meta" in src(v.left) \
            and "_get_sync_trace_indices_from_meta" in src(v.right) and "len(" in src(v.right)
        ctx.check(ok, fi, d.stmt, d.stmt, "analog channel count = saved channels - sync channels",
                  f"analog channel count `{src(v)}` is not nSavedChans - nsync", key="n_chn")
    if not defs:
        ctx.note("analog count variable n_chn not found (layout changed); clause not evaluated")


def _gain_formula(ctx, repo, fi, expr, label):
    """Return (poly, field index or None). The per-entry gain read becomes symbol G, int2volt symbol I."""
    field = {}

    def resolve(e):
        return repo.resolve_expr(fi, e)

    class Ev(Evaluator):
        def ev(self, e):
            if isinstance(e, ast.Call) and call_name(e) in ("float32", "float64", "float", "int", "double") and e.args:
                a = e.args[0]
                if isinstance(a, ast.Subscript) and isinstance(a.value, ast.Call) and call_name(a.value) == "split":
                    ok, k = const_value(a.slice)
                    field["k"] = k if ok else None
                    field["sep"] = a.value.args[0].value if a.value.args and isinstance(a.value.args[0], ast.Constant) else None
                    return Poly.sym("G")
            return super().ev(e)

    ev = Ev(env={"int2volt": Poly.sym("I")}, resolve=resolve)
    try:
        p = ev.ev(expr)
    except Undecided as e:
        raise AnalysisError(f"{FN}: cannot normalise {label} gain expression: {e}")
    return p, field


def d2_ap_lf(ctx):
    ctx.rule("D2", "ap/lf conversion formulas: int2volt/gain, differing only in the IMRO field (ap=3, lf=4 of 5); NP2 ap==lf==int2volt/80")
    repo = ctx.repo
    fi = repo.fn(FN)
    du = DefUse(fi.node)
    dicts = [d for d in find(fi.node, ast.Dict) if {"ap", "lf"} <= {k.value for k in d.keys if isinstance(k, ast.Constant)}]
    if len(dicts) < 2:
        raise AnchorMissing(f"{FN}: expected an NP2 and an NP1 {{'ap','lf'}} table, found {len(dicts)}")
    # number of fields captured by the IMRO regex
    nfields = None
    for c in find(fi.node, ast.Call, lambda c: call_name(c) == "findall"):
        if len(c.args) >= 2 and "imroTbl" in src(c.args[1]) and isinstance(c.args[0], ast.Constant):
            nfields = c.args[0].value.count("[0-9]*")
    I, G = Poly.sym("I"), Poly.sym("G")
    seen_np1 = seen_np2 = False
    for d in dicts:
        vals = {k.value: v for k, v in zip(d.keys, d.values) if isinstance(k, ast.Constant)}
        res = {}
        for key in ("ap", "lf"):
            parts = _stack_parts(expand_name(du, vals[key], d))
            if not parts:
                raise AnalysisError(f"{FN}: '{key}' is not a stacked vector")
            res[key] = _gain_formula(ctx, repo, fi, parts[0], key)
        (pa, fa), (pl, fl) = res["ap"], res["lf"]
        if "G" in pa.symbols() or "G" in pl.symbols():
            seen_np1 = True
            want = I * G.pow(-1)
            ctx.check(pa == want and pl == want, fi, d, f"ap: {pa.canon()} ; lf: {pl.canon()}",
                      "NP1 ap and lf gains are int2volt / <imro gain>",
                      f"NP1 conversion is ap: {pa.canon()}, lf: {pl.canon()} (I=int2volt, G=IMRO gain field) - expected I*G^-1 for both",
                      key="np1-formula")
            if nfields is None:
                raise AnalysisError(f"{FN}: IMRO regex not found")
            ka, kl = fa.get("k"), fl.get("k")
            na = ka % nfields if isinstance(ka, int) else None
            nl = kl % nfields if isinstance(kl, int) else None
            ctx.check(nfields == 5 and na == 3 and nl == 4 and fa.get("sep") == " " and fl.get("sep") == " ", fi, d,
                      f"regex fields={nfields}, ap field={ka}, lf field={kl}",
                      "ap reads IMRO field 3 (AP gain) and lf reads field 4 (LF gain) of the 5 captured fields",
                      f"IMRO field selection is ap={ka}, lf={kl} over {nfields} captured fields (expected 3 and 4 of 5)",
                      key="imro-fields")
        else:
            seen_np2 = True
            want = I * Poly.const(80).pow(-1)
            ctx.check(pa == want and pl == want, fi, d, f"ap: {pa.canon()} ; lf: {pl.canon()}",
                      "NP2 ap and lf conversions are both int2volt / 80",
                      f"NP2 conversion is ap: {pa.canon()}, lf: {pl.canon()} - expected I/80 for both (LF is derived from AP, see C12)",
                      key="np2-formula")
    if not (seen_np1 and seen_np2):
        raise AnchorMissing(f"{FN}: NP1 or NP2 gain table missing")
    # int2volt = range / maxint : every value the scalar can take, with the branch predicates it is computed under
    inner = repo.functions.get(FN + ".int2volts")
    table = []
    if inner is not None:
        du2 = DefUse(inner.node)
        for r in returns_of(inner.node):
            if r.value is not None:
                table += [(gs, v, r, inner) for gs, v in value_alternatives(du2, r.value, r)]
    else:
        ctx.note("nested int2volts helper not found; range/max-int clause evaluated on the definitions of int2volt")
        for d in [d for d in du.defs if d.var == "int2volt" and d.kind == "assign" and d.value is not None]:
            table += [(gs, v, d.stmt, fi) for gs, v in value_alternatives(du, d.value, d.stmt)]
    n = 0
    for gs, v, at_node, owner in table:
        if not (isinstance(v, ast.BinOp) and isinstance(v.op, ast.Div)):
            continue
        n += 1
        num, den = v.left, v.right
        ok_den = isinstance(den, ast.Call) and repo.resolve_call(owner, den) == "spikeglx._get_max_int_from_meta"
        at = GD.Atoms()
        pc = GD.And(*[GD.formula(t, at, pol) for t, pol in gs])
        imec_atoms = [k for k in GD.atoms_of(pc) if "'imec'" in k and "typeThis" in k]
        imec = any(GD.entails(pc, GD.Atom(k)) is True for k in imec_atoms)
        not_imec = any(GD.entails(pc, GD.Not(GD.Atom(k))) is True for k in imec_atoms)
        key = None
        if isinstance(num, ast.Call) and call_name(num) == "get" and num.args:
            key = const_value(num.args[0])[1]
        elif isinstance(num, ast.Subscript):
            key = const_value(num.slice)[1]
        key_ok = key == "imAiRangeMax" if imec else key == "niAiRangeMax" if not_imec else False
        ctx.check(ok_den and key_ok, fi, at_node, v, "int2volt = device range key / max-int",
                  f"`{src(v)}` is not <imAiRangeMax|niAiRangeMax for the right device> / _get_max_int_from_meta(md)", key=f"int2volt:{'imec' if imec else 'nidq'}")
    if n < 2:
        raise AnchorMissing("int2volts: expected two range/max-int alternatives")


def d8_nidq_segments(ctx):
    ctx.rule("D8", "nidq vector = [MN: int2volt/niMNGain, MA: int2volt/niMAGain, XA: int2volt, DW: 1], segment i sized by snsMnMaXaDw[i]")
    repo = ctx.repo
    fi = repo.fn(FN)
    du = DefUse(fi.node)
    vals = _dict_values_for_key(fi.node, "nidq")
    if not vals:
        raise AnchorMissing(f"{FN}: nidq branch not found")
    d, v = vals[0]
    parts = _stack_parts(expand_name(du, v, d))
    if parts is None:
        raise AnalysisError(f"{FN}: nidq vector is not a stack of segments")
    I = Poly.sym("I")

    class E(Evaluator):
        def ev(self, e):
            if isinstance(e, ast.Subscript) and isinstance(e.slice, ast.Constant) and isinstance(e.slice.value, str) and e.slice.value.startswith("ni"):
                return Poly.sym(e.slice.value)
            if isinstance(e, ast.Call) and call_name(e) == "get" and e.args and isinstance(e.args[0], ast.Constant) and str(e.args[0].value).startswith("ni"):
                return Poly.sym(e.args[0].value)
            return super().ev(e)
    want = [("MN", I * Poly.sym("niMNGain").pow(-1)), ("MA", I * Poly.sym("niMAGain").pow(-1)), ("XA", I), ("DW", Poly.const(1))]
    ctx.check(len(parts) == 4, fi, v, f"{len(parts)} segments", "four channel categories in SpikeGLX order (MN, MA, XA, DW)", f"nidq vector has {len(parts)} segments, expected 4", key="nidq:count")
    for i, part in enumerate(parts[:4]):
        name, w = want[i]
        ev = E(env={"int2volt": I}, resolve=lambda e: repo.resolve_expr(fi, e))
        try:
            p = ev.ev(part)
        except Undecided as e:
            raise AnalysisError(f"{FN}: nidq segment {name} not evaluable: {e}")
        ones = [c for c in find(part, ast.Call) if call_name(c) == "ones"]
        cf = _count_field(du, ones[0].args[0], d) if ones and ones[0].args else None
        ctx.check(p == w, fi, part, f"{name}: {p}", f"{name} channels convert with {w}",
                  f"nidq segment {i} ({name}) converts with {p} (I = int2volt); expected {w}: those channels are scaled with the wrong gain field", key=f"nidq:gain:{name}")
        ctx.check(cf in (("snsMnMaXaDw", i), ("snsMnMaXaDw", i - 4)), fi, part, f"{name}: count from {cf}", f"{name} segment has snsMnMaXaDw[{i}] entries",
                  f"nidq segment {i} ({name}) is sized by {cf}, expected snsMnMaXaDw[{i}]", key=f"nidq:count:{name}")


def d3_reader_writer(ctx):
    ctx.rule("D3", "read_meta_data / write_meta_data agree on '=' (maxsplit=1), ',' and newline; every parsed value kind has a writer branch")
    repo = ctx.repo
    rd = repo.fn("spikeglx.read_meta_data")
    wr = repo.fn("spikeglx.write_meta_data")
    # reader
    kv = [c for c in find(rd.node, ast.Call, lambda c: call_name(c) == "split") if c.args and isinstance(c.args[0], ast.Constant)]
    kv_split = [c for c in kv if (kwarg(c, "maxsplit") is not None or len(c.args) > 1)]
    if not kv_split:
        ctx.violation(rd, rd.node, "split", "key/value split has no maxsplit: values containing the separator would be cut", key="maxsplit")
        return
    c = kv_split[0]
    ms = kwarg(c, "maxsplit") or c.args[1]
    sep_r = c.args[0].value
    ctx.check(isinstance(ms, ast.Constant) and ms.value == 1, rd, c, c, "key/value split uses maxsplit=1",
              "key/value split does not use maxsplit=1", key="maxsplit")
    lst = [x for x in kv if x is not c]
    lsep_r = lst[0].args[0].value if lst else None
    # writer
    fs = [j for j in find(wr.node, ast.JoinedStr)]
    wsep = None
    for j in fs:
        vals = j.values
        if len(vals) >= 3 and isinstance(vals[0], ast.FormattedValue) and isinstance(vals[1], ast.Constant) \
                and isinstance(vals[2], ast.FormattedValue):
            wsep = vals[1].value
            tail = vals[3].value if len(vals) > 3 and isinstance(vals[3], ast.Constant) else ""
            ctx.check(wsep == sep_r and tail == "\n", wr, j, j, "writer emits key<sep>value<newline> with the reader's separator",
                      f"writer emits `{src(j)}` but reader splits on {sep_r!r} and on lines", key="kv-sep")
    if wsep is None:
        raise AnchorMissing("write_meta_data: key=value f-string not found")
    joins = [c2 for c2 in find(wr.node, ast.Call, lambda c2: call_name(c2) == "join" and isinstance(c2.func.value, ast.Constant))]
    lsep_w = joins[0].func.value.value if joins else None
    ctx.check(lsep_r is not None and lsep_r == lsep_w, wr, joins[0] if joins else wr.node, f"list sep reader={lsep_r!r} writer={lsep_w!r}",
              "list separator agrees", f"list separator differs: reader {lsep_r!r}, writer {lsep_w!r}", key="list-sep")
    # list elements are written exactly: str(int(v)) / str(v) / repr(v) / '{:d}'; a float format (g, e, .Nf) keeps 6 significant digits only
    for jc in joins:
        if not jc.args:
            continue
        comp = jc.args[0]
        elt = comp.elt if isinstance(comp, (ast.ListComp, ast.GeneratorExp)) else None
        if elt is None and isinstance(comp, ast.Call) and call_name(comp) == "map" and comp.args:
            elt = ast.Call(func=comp.args[0], args=[ast.Name(id="v", ctx=ast.Load())], keywords=[])
        if elt is None:
            raise AnalysisError(f"write_meta_data: list serialisation `{src(jc)[:60]}` not understood")
        verdict = None
        if isinstance(elt, ast.Call) and call_name(elt) in ("str", "repr") and elt.args:
            verdict = "exact"
        elif isinstance(elt, ast.JoinedStr):
            fv = [x for x in elt.values if isinstance(x, ast.FormattedValue)]
            specs = ["".join(c.value for c in x.format_spec.values if isinstance(c, ast.Constant)) if x.format_spec is not None else "" for x in fv]
            verdict = "exact" if all(sp in ("", "d") for sp in specs) else "lossy:" + ",".join(sp for sp in specs if sp not in ("", "d"))
        elif isinstance(elt, ast.BinOp) and isinstance(elt.op, ast.Mod) and isinstance(elt.left, ast.Constant) and isinstance(elt.left.value, str):
            verdict = "exact" if elt.left.value in ("%d", "%s", "%r", "%i") else "lossy:" + elt.left.value
        elif isinstance(elt, ast.Call) and call_name(elt) == "format":
            a = elt.args[1] if len(elt.args) > 1 else None
            sp = a.value if isinstance(a, ast.Constant) else None
            verdict = "exact" if sp in ("", "d", None) and a is None or sp in ("", "d") else f"lossy:{sp}"
        if verdict is None:
            raise AnalysisError(f"write_meta_data: list element formatting `{src(elt)[:60]}` not understood")
        ctx.check(verdict == "exact", wr, jc, elt, "list elements are written with all their digits",
                  f"list elements are written with `{src(elt)}` ({verdict}): values with more than 6 significant digits are rounded / written in exponent "
                  "form and come back as a string: write -> read is no longer the identity", key="list-digits")
    # value kinds: parser yields str | float | list[float]; writer must branch on list and float
    kinds = set()
    for c2 in find(wr.node, ast.Call, lambda c2: call_name(c2) == "isinstance" and len(c2.args) == 2):
        kinds.add(src(c2.args[1]))
    ctx.check({"list", "float"} <= kinds, wr, wr.node, f"writer branches: {sorted(kinds)}",
              "writer has branches for list and float values", f"writer lacks a branch for list or float values (has {sorted(kinds)})",
              key="writer-kinds")
    # the reader's numeric pattern accepts only digits, comma, dot; scalars are un-nested
    pats = [c2 for c2 in find(rd.node, ast.Call, lambda c2: call_name(c2) == "fullmatch")]
    if pats:
        p = pats[0].args[0]
        ctx.check(isinstance(p, ast.Constant) and set(p.value) <= set("[0-9,.]*+"), rd, pats[0], pats[0],
                  "numeric coercion is restricted to digits/comma/dot strings",
                  f"numeric pattern {src(p)} would coerce non-numeric strings", key="num-pattern")
    # tilde keys
    rep = [c2 for c2 in find(rd.node, ast.Call, lambda c2: call_name(c2) == "replace" and c2.args and isinstance(c2.args[0], ast.Constant)
                             and c2.args[0].value == "~")]
    ctx.check(bool(rep), rd, rd.node, "k.replace('~','')", "tildes are stripped from key names", "tildes are no longer stripped from key names",
              key="tilde")


def d5_maxint(ctx):
    ctx.rule("D5", "max-int table: NP2 reads imMaxInt (mandatory), NP1 defaults to 512, nidq to 32768")
    repo = ctx.repo
    fi = repo.fn("spikeglx._get_max_int_from_meta")
    from sa.cfg import CFG
    cfg = CFG(fi.node)
    rows = []
    for r in returns_of(fi.node):
        # which device / probe generation the path condition of this return entails (propositional, shape-independent)
        at = GD.Atoms()
        pc = GD.path_condition(cfg, cfg.node_for(r), at)
        ks = GD.atoms_of(pc)
        imec = any(GD.entails(pc, GD.Atom(k)) is True for k in ks if "'imec'" in k)
        nidq = any(GD.entails(pc, GD.Not(GD.Atom(k))) is True for k in ks if "'imec'" in k)
        np2 = any(GD.entails(pc, GD.Atom(k)) is True for k in ks if "'NP2'" in k)
        np1 = any(GD.entails(pc, GD.Not(GD.Atom(k))) is True for k in ks if "'NP2'" in k)
        v = r.value
        inner = v.args[0] if isinstance(v, ast.Call) and call_name(v) == "int" and v.args else v
        key = default = None
        if isinstance(inner, ast.Subscript):
            ok, key = const_value(inner.slice)
        elif isinstance(inner, ast.Call) and call_name(inner) == "get":
            key = inner.args[0].value if inner.args and isinstance(inner.args[0], ast.Constant) else None
            if len(inner.args) > 1:
                ok, default = const_value(inner.args[1])
        rows.append((imec, nidq, np2, np1, key, default, r))
    want = {("imec", "np2"): ("imMaxInt", None), ("imec", "np1"): ("imMaxInt", 512), ("nidq", None): ("imMaxInt", 32768)}
    got = {}
    for imec, nidq, np2, np1, key, default, r in rows:
        k = ("imec", "np2" if np2 else "np1" if np1 else None) if imec else ("nidq", None) if nidq else None
        got[k] = (key, default, r)
    for k, (wk, wd) in want.items():
        if k not in got:
            raise AnalysisError(f"_get_max_int_from_meta: branch {k} not recognised")
        key, default, r = got[k]
        ctx.check(key == wk and default == wd, fi, r, r, f"{k}: max-int from {wk} default {wd}",
                  f"{k}: returns `{src(r)}` - expected key {wk!r} with default {wd}", key=f"maxint:{k}")


def d6_sync_indices(ctx):
    ctx.rule("D6", "sync traces are the last nsync of the saved channels; nsync from snsApLfSy[2] (imec) / snsMnMaXaDw[-1] (nidq)")
    repo = ctx.repo
    fi = repo.fn("spikeglx._get_sync_trace_indices_from_meta")
    du = DefUse(fi.node)
    ev = Evaluator(resolve=lambda e: repo.resolve_expr(fi, e))
    for r in returns_of(fi.node):
        v = r.value
        rng = next((c for c in find(v, ast.Call) if call_name(c) == "range"), None) if v is not None else None
        if rng is None or len(rng.args) != 2:
            ctx.violation(fi, r, r, "sync indices are not range(ntr - nsync, ntr)", key="range")
            continue
        a, b = ev.ev(rng.args[0]), ev.ev(rng.args[1])
        diff = b - a
        ctx.check(diff == Poly.sym("nsync") and b == Poly.sym("ntr"), fi, r, r, "indices are the last nsync of ntr channels",
                  f"indices are range({a.canon()}, {b.canon()}): not the last nsync channels", key="range")
    ntr = [d for d in du.defs if d.var == "ntr" and d.kind == "assign"]
    ctx.check(bool(ntr) and all("_get_nchannels_from_meta" in src(d.value) for d in ntr), fi, ntr[0].stmt if ntr else fi.node,
              "ntr", "ntr is the saved-channel count", "ntr is not the saved-channel count", key="ntr")
    from sa.cfg import CFG
    cfg = du.cfg
    for d in [d for d in du.defs if d.var == "nsync" and d.kind == "assign"]:
        gs = " ".join(norm(t) for t, pol in cfg.guards(d.node) if pol)
        s = src(d.value)
        if "nidq" in gs:
            ok = "snsMnMaXaDw" in s and re.search(r"\[\s*(-1|3)\s*\]", s) is not None
        else:
            ok = "snsApLfSy" in s and re.search(r"\[\s*(2|-1)\s*\]", s) is not None
        ctx.check(ok, fi, d.stmt, d.stmt, "sync count read from the right metadata field",
                  f"sync count `{s}` is read from the wrong metadata field", key="nsync:" + ("nidq" if "nidq" in gs else "imec"))


def d7_type_fs(ctx):
    ctx.rule("D7", "stream type from snsApLfSy zero pattern; sampling rate key by device; nc from nSavedChans; ns = round(fileTimeSecs*fs)")
    repo = ctx.repo
    fi = repo.fn("spikeglx._get_type_from_meta")
    from sa.cfg import CFG
    cfg = CFG(fi.node)
    table = {}
    for r in returns_of(fi.node):
        ok, v = const_value(r.value) if r.value is not None else (False, None)
        conds = []
        for t, pol in cfg.guards(cfg.node_for(r)):
            if pol:
                from sa.cfg import conjuncts
                conds += [src(c) for c, p in conjuncts(t, True) if p]
        table[v] = sorted(conds)
    want = {"lf": ["snsApLfSy[0] == 0", "snsApLfSy[1] != 0"], "ap": ["snsApLfSy[0] != 0", "snsApLfSy[1] == 0"]}
    for k, w in want.items():
        ctx.check(table.get(k) == w, fi, fi.node, f"{k}: {table.get(k)}", f"'{k}' is decided by {w}",
                  f"'{k}' is decided by {table.get(k)} (expected {w})", key=f"type:{k}")
    ctx.check("nidq" in table and any("nidq" in c for c in table.get("nidq", [])), fi, fi.node, f"nidq: {table.get('nidq')}",
              "'nidq' requires typeThis == nidq", "'nidq' branch missing or not tied to typeThis", key="type:nidq")
    fs = repo.fn("spikeglx._get_fs_from_meta")
    cfg2 = CFG(fs.node)
    for r in returns_of(fs.node):
        g = cfg2.guards(cfg2.node_for(r))
        imec = any("imec" in src(t) and pol for t, pol in g)
        wantk = "imSampRate" if imec else "niSampRate"
        ctx.check(wantk in src(r), fs, r, r, f"sampling rate from {wantk}", f"`{src(r)}` does not read {wantk}", key=f"fs:{wantk}")
    nc = repo.fn("spikeglx._get_nchannels_from_meta")
    ctx.check(all("nSavedChans" in src(r) for r in returns_of(nc.node)), nc, nc.node, "nSavedChans", "channel count from nSavedChans",
              "channel count no longer read from nSavedChans", key="nc")
    ns = repo.fn("spikeglx.Reader.ns")
    last = returns_of(ns.node)[-1]
    s = src(last)
    ev = Evaluator(resolve=lambda e: repo.resolve_expr(ns, e))
    inner = last.value
    p = None
    try:
        class E2(Evaluator):
            def ev(self, e):
                if isinstance(e, ast.Call) and call_name(e) == "get" and e.args and isinstance(e.args[0], ast.Constant):
                    return Poly.sym(e.args[0].value)
                if isinstance(e, ast.Subscript) and isinstance(e.slice, ast.Constant) and isinstance(e.slice.value, str):
                    return Poly.sym(e.slice.value)
                return super().ev(e)
        e2 = E2(resolve=lambda e: repo.resolve_expr(ns, e))
        p = e2.ev(inner)
    except Undecided:
        pass
    want_p = "round(fileTimeSecs*self.fs)"
    ok_ns = p is not None and re.fullmatch(r"(int\()?(round|rint|around)\(fileTimeSecs\*self\.fs\)\)?", p.canon()) is not None
    ctx.check(ok_ns, ns, last, last,
              "sample count = round(fileTimeSecs * fs)", f"sample count is `{s}` (normal form {p.canon() if p else '?'}), expected {want_p}",
              key="ns")


def dS_shared(ctx):
    from sa.common import rule_no_shared_mutation
    rule_no_shared_mutation(ctx, "DS", ['spikeglx.read_meta_data', 'spikeglx.write_meta_data', 'spikeglx._conversion_sample2v_from_meta', 'spikeglx._get_sync_trace_indices_from_meta', 'spikeglx._get_max_int_from_meta', 'spikeglx._get_neuropixel_version_from_meta'],
                            'metadata-derived values of a later call are those an earlier call modified')


def run(ctx):
    ctx.run(dS_shared)
    ctx.run(d1_sync_gain)
    ctx.run(d2_ap_lf)
    ctx.run(d3_reader_writer)
    from rules import C08
    ctx.run(C08.d4_version_tables, rule_id="D4")
    ctx.run(d5_maxint)
    ctx.run(d6_sync_indices)
    ctx.run(d7_type_fs)
    ctx.run(d8_nidq_segments)
