"""C10 - sync words decode to TTL lines and fronts recover every event (structural clauses)."""
import ast

from sa.calls import bind
from sa.cfg import CFG
from sa.common import expand_name, returns_of
from sa.defuse import DefUse, loc_name
from sa.layout import LayoutInterp, LayoutViolation, WORD
from sa.model import AnalysisError, AnchorMissing, const_value, src, walk_function
from sa.struct import call_name, find, kwarg, norm

EXPLANATION = (
    "Decides structural necessary conditions of C10: (D1) the data-independent chain of re-arrangements in split_sync "
    "(int16 -> byte view -> unpackbits -> reshape(n,16) -> roll -> flip) is interpreted on a symbolic label row [b0..b15] "
    "and must come out as the identity permutation, i.e. column k is bit k - this covers all 65 536 words at once because "
    "no step looks at values (little-endian host assumed); (D2) fronts/rises take where(diff(x, axis) >= step), shift the "
    "index along that axis by exactly one, fronts reads the sign before the shift and thresholds |diff| with >=, falls "
    "negates both signal and step; (D3) read_sync concatenates (digital, thresholded analog) along axis 1 with "
    "complementary < / >= threshold stores, and the digital part decodes the metadata's sync columns of the raw file. "
    "Analog thresholding accuracy around 1.2 V is NOT decided."
    ' (D2 unwrap) the 1-D result is chosen by the number of dimensions (len(ind) == 1 / ndim == 1), never by np.squeeze without an axis, whose effect depends on the number of detected edges.'
    " (D3 as built) sync composition model: the digital part is split_sync of the sync column(s) of the requested rows of the raw file (one- or two-step gather, through locals), the analog part is the analog sync channels of the same rows in volts; read(sync=True) is checked with the same model (a gather applied on top of the caller's channel selection is reported)."
    ' (D1 guarded fast paths) an early return of split_sync selected by a test on the words must entail that the bits it drops are zero: an upper bound on the words as signed int16 does not (bit 15 makes them negative).'
    ' (D3 sample-domain form) read_sync comparing raw integer samples with (floor + threshold) / s2v into a preallocated int8 array: algebraic equivalence with the volts-domain test, layout of the two parts, and an integer detection level only after ceil + clip (astype truncates and wraps).'
)
ASSUMPTIONS = [
    "little-endian host (x86/ARM): the low byte of an int16 comes first in memory",
    "numpy.unpackbits emits the most significant bit first unless bitorder='little'; roll/flip/reshape are permutations (model table)",
]


def _strip_fast_paths(ctx, repo, fi):
    """Early returns of split_sync guarded by a test on the words (`if <guard>: ... return out`): the guard must ENTAIL that the bits the fast path drops
    are zero.  An upper bound on the words as SIGNED int16 does not: words with bit 15 set are negative.  Returns a copy of the function without the
    guarded blocks (the general chain), for the bit-layout interpreter."""
    import copy
    fn = copy.deepcopy(fi.node)
    du = DefUse(fi.node)
    keep = []
    for st_o, st in zip(fi.node.body, fn.body):
        if not (isinstance(st, ast.If) and not st.orelse and any(isinstance(x, ast.Return) for x in st.body)):
            keep.append(st)
            continue
        t = st_o.test
        txt = src(t).replace(" ", "")
        if (".size==0" in txt or "len(" in txt and "==0" in txt) and isinstance(t, ast.Compare):
            r = [x for x in st_o.body if isinstance(x, ast.Return)][0]
            ok = isinstance(r.value, ast.Call) and call_name(r.value) in ("zeros", "empty") and "16" in src(r.value)
            ctx.check(ok, fi, st_o, st_o, "an empty selection decodes to an empty (0, 16) array", f"`{src(r)[:60]}` for an empty input is not an empty (0, 16) array", key="empty-path")
            continue
        # value guard: max(<words>) <= C  [and min(<words>) >= 0]
        conj = t.values if isinstance(t, ast.BoolOp) and isinstance(t.op, ast.And) else [t]
        upper = lower = None
        unsigned = False
        for c_ in conj:
            if isinstance(c_, ast.Compare) and len(c_.ops) == 1 and isinstance(c_.left, ast.Call) and call_name(c_.left) in ("max", "amax", "min", "amin"):
                arg = c_.left.args[0] if c_.left.args else getattr(c_.left.func, "value", None)
                argv = expand_name(du, arg, st_o) if isinstance(arg, ast.Name) else arg
                atxt = src(argv)
                if "uint16" in atxt or "uint8" in atxt and "view" in atxt:
                    unsigned = True
                if call_name(c_.left) in ("max", "amax") and isinstance(c_.ops[0], (ast.LtE, ast.Lt)):
                    upper = c_
                if call_name(c_.left) in ("min", "amin") and isinstance(c_.ops[0], (ast.GtE, ast.Gt)):
                    lower = c_
        if upper is None:
            raise AnalysisError(f"split_sync: guarded early return `{src(t)[:60]}` not understood")
        sound = unsigned or lower is not None
        ctx.check(sound, fi, st_o, st_o, "the fast path is taken only when every word has its upper bits clear (unsigned comparison / lower bound too)",
                  f"the fast path is selected by `{src(upper)[:70]}` on the words as SIGNED int16: a word with bit 15 set is negative and passes the test, so a chunk holding only "
                  "words below 256 and words >= 0x8000 takes the path that leaves lines 8-15 low - line 15 (and lines 8-14 of those words) is lost; decoding the same "
                  "word in a different chunk gives a different answer", key="fast-path-guard", name_free=True)
        if sound:
            # the fast path itself: columns 0..7 from the low byte, little bit order, the rest zeros
            body_txt = " ".join(src(x) for x in st_o.body).replace(" ", "")
            ok = "zeros(" in body_txt and "[:,:8]=" in body_txt and "unpackbits(" in body_txt and "bitorder='little'" in body_txt.replace('"', "'") and "uint8" in body_txt
            if not ok:
                raise AnalysisError("split_sync: fast path under a sound guard is not `out[:, :8] = unpackbits(low byte, bitorder='little')` on a zero array")
            ctx.ok(fi, st_o, st_o, "fast path: lines 0-7 from the low byte in little bit order, lines 8-15 low (their bits are zero under the guard)", key="fast-path")
    fn.body = keep
    return fn


def d1_bits(ctx):
    ctx.rule("D1", "split_sync: column k of the decoded row is bit k of the word (identity permutation of the label row)")
    repo = ctx.repo
    fi = repo.fn("spikeglx.split_sync")
    param = fi.params[0]
    main_fn = _strip_fast_paths(ctx, repo, fi)
    try:
        out = LayoutInterp(param).run(main_fn)
    except LayoutViolation as e:
        ctx.violation(fi, fi.node, "split_sync chain", str(e), key="layout")
        return
    if out.kind != "rows":
        raise AnalysisError(f"split_sync: result is not a bit-row array ({out.kind})")
    ctx.check(out.data == WORD, fi, fi.node, f"row = {out.data}", "decoded column k is bit k for every 16-bit word",
              f"decoded columns are {out.data}: line k is not bit k (e.g. column 0 carries {out.data[0]})", key="layout")
    ctx.check(out.dtype in ("int8", "int16", "int32", "int64", "int", "float32", "float64"), fi, fi.node, f"dtype of the decoded lines: {out.dtype or 'unknown'}",
              "decoded lines are signed (edge detection takes differences: 1 -> 0 must give -1)",
              f"decoded lines are returned as {out.dtype or 'the raw unpackbits output (uint8)'}: np.diff of an unsigned line wraps a falling edge to 255, "
              "so fronts/rises/falls on a line read through the reader report wrong polarities and spurious edges", key="signed")


def _delegates_to_fronts(ctx, q, want_sign):
    """rises/falls written as a filter over fronts(): (indices, polarity) = fronts(x, axis, step); keep polarity > 0 / < 0.
    fronts thresholds |diff| >= step, so the step it receives must be a magnitude: falls (whose step is negative by convention)
    has to negate it."""
    repo = ctx.repo
    fi = repo.fn(q)
    du = DefUse(fi.node)
    fr = repo.fn("ibldsp.utils.fronts")
    calls = [c for c in find(fi.node, ast.Call, nested=False) if repo.resolve_call(fi, c) == "ibldsp.utils.fronts"]
    if not calls:
        return False
    c = calls[0]
    b = bind(c, fr)
    name = q.split(".")[-1]
    ctx.check(loc_name(b.bound.get("axis")) == "axis", fi, c, c, "edges are searched along the requested axis", f"{name} does not pass its axis to fronts", key=f"{name}:axis")
    st = b.bound.get("step")
    dflt = fi.defaults().get("step")
    negative_convention = const_value(dflt)[0] and const_value(dflt)[1] < 0
    # what reaches fronts as `step` on the non-analog path
    stv = st
    neg = False
    while isinstance(stv, ast.UnaryOp) and isinstance(stv.op, ast.USub):
        neg = not neg
        stv = stv.operand
    is_abs = isinstance(stv, ast.Call) and call_name(stv) in ("abs", "absolute")
    passes_param = loc_name(stv) == "step" and any(d.kind == "param" for d in du.reaching("step", c))
    if negative_convention:
        ok = (passes_param and neg) or is_abs
        ctx.check(ok, fi, c, c, f"{name} hands fronts the magnitude of its (negative) step",
                  f"{name}'s step is negative by convention (default {src(dflt)}) and is passed to fronts unchanged: fronts tests |diff| >= step, which is always true for a negative step - "
                  f"every downward transition is returned, whatever its size", key=f"{name}:step-magnitude")
    else:
        ctx.check(passes_param and not neg or is_abs, fi, c, c, f"{name} hands fronts its step", f"{name} does not pass its step to fronts as a magnitude", key=f"{name}:step-magnitude")
    # polarity filter
    rets = returns_of(fi.node)
    okp = False
    for r in rets:
        cmps = find(r.value, ast.Compare) if r.value is not None else []
        for cm in cmps:
            if const_value(cm.comparators[0]) == (True, 0) and isinstance(cm.ops[0], ast.Gt if want_sign > 0 else ast.Lt):
                okp = True
    ctx.check(okp, fi, rets[-1] if rets else fi.node, rets[-1] if rets else "return", f"{name} keeps the fronts of {'positive' if want_sign > 0 else 'negative'} polarity",
              f"{name} does not keep exactly the {'positive' if want_sign > 0 else 'negative'}-polarity fronts", key=f"{name}:polarity")
    return True


def _edge_fn(ctx, q, need_abs):
    repo = ctx.repo
    fi = repo.fn(q)
    du = DefUse(fi.node)
    cfg = du.cfg
    axis_p = "axis"
    wheres = [c for c in find(fi.node, ast.Call, nested=False) if call_name(c) in ("where", "nonzero", "argwhere")]
    if not wheres:
        raise AnchorMissing(f"{q}: where() not found")
    w = wheres[0]
    cond = w.args[0]
    okc = isinstance(cond, ast.Compare) and len(cond.ops) == 1 and isinstance(cond.ops[0], ast.GtE) and loc_name(cond.comparators[0]) == "step"
    ctx.check(okc, fi, w, cond, "edges are differences >= step", f"edge condition `{src(cond)}` is not diff >= step: steps equal to the threshold (unit TTL steps) are missed",
              key="cmp")
    if okc:
        lhs = expand_name(du, cond.left, w)
        inner = lhs
        has_abs = False
        if isinstance(inner, ast.Call) and call_name(inner) in ("abs", "absolute"):
            has_abs = True
            inner = expand_name(du, inner.args[0], w)
        okd = isinstance(inner, ast.Call) and call_name(inner) == "diff"
        if okd:
            ax = kwarg(inner, "axis")
            okd = ax is not None and loc_name(ax) == axis_p and (kwarg(inner, "n") is None)
            xarg = inner.args[0] if inner.args else None
        ctx.check(okd and has_abs == need_abs, fi, w, lhs, "first difference along the requested axis" + (" (absolute value)" if need_abs else ""),
                  f"`{src(lhs)}` is not {'|' if need_abs else ''}diff(x, axis=axis){'|' if need_abs else ''}", key="diff")
    # index shift
    augs = [a for a in walk_function(fi.node) if isinstance(a, ast.AugAssign) and isinstance(a.target, ast.Subscript)
            and loc_name(a.target.value) == "ind"]
    oks = len(augs) == 1 and isinstance(augs[0].op, ast.Add) and const_value(augs[0].value) == (True, 1) and loc_name(augs[0].target.slice) == axis_p
    ctx.check(oks, fi, augs[0] if augs else fi.node, augs[0] if augs else "ind[axis] += 1", "indices are shifted by one along the diff axis (sample after the change)",
              "edge indices are not shifted by exactly one along the diff axis: events are reported one sample early/late or on the wrong axis", key="shift")
    if oks:
        an = cfg.node_for(augs[0])
        wn = cfg.node_for(w)
        rets = [cfg.node_for(r) for r in returns_of(fi.node)]
        ctx.check(cfg.must_pass([wn], an) and all(cfg.must_pass([an], r) for r in rets), fi, augs[0], augs[0], "shift lies between detection and every return",
                  "some return path skips the index shift", key="shift-path")
    return fi, du, cfg, augs


def _unwrap_rule(ctx, fi, du, cfg):
    """The index matrix has one row per array dimension and one column per detected edge.  For 1-D input the single row is returned -
    chosen by the number of DIMENSIONS (len(ind) == 1 / ind.shape[0] == 1 / x.ndim == 1).  np.squeeze without an axis also drops the edge axis
    when exactly one edge was found: the result's shape then depends on the data (a 0-d scalar for one edge on a line; (2,) instead of (2, 1)
    for one edge in a 2-D array, indistinguishable from two events on a line)."""
    from sa import guards as GD
    from sa.common import value_alternatives

    def onedim_atoms(at, pc):
        out = []
        for k in GD.atoms_of(pc):
            a = at.exprs.get(k)
            if not (isinstance(a, ast.Compare) and len(a.ops) == 1 and isinstance(a.ops[0], ast.Eq)):
                continue
            sides = [a.left, a.comparators[0]]
            if not any(isinstance(x, ast.Constant) and x.value == 1 for x in sides):
                continue
            other = [x for x in sides if not (isinstance(x, ast.Constant) and x.value == 1)]
            if other and (src(other[0]) in ("len(ind)", "ind.shape[0]") or src(other[0]).endswith(".ndim")):
                out.append(k)
        return out
    for r in returns_of(fi.node):
        e = r.value.elts[0] if isinstance(r.value, ast.Tuple) and r.value.elts else r.value
        if e is None:
            continue
        for gs, v in value_alternatives(du, e, r, keep=("ind",)):
            if isinstance(v, ast.Call) and call_name(v) == "squeeze":
                ax = kwarg(v, "axis") or (v.args[1] if len(v.args) > 1 else None)
                if isinstance(v.func, ast.Attribute) and not (isinstance(v.func.value, ast.Name) and v.func.value.id in ("np", "numpy", "gp")) and v.args:
                    ax = ax or v.args[0]
                ctx.check(ax is not None and const_value(ax) == (True, 0), fi, r, v, "only the dimension axis is dropped",
                          f"`{src(v)}` drops every length-one axis of the (dimensions x edges) index matrix - also the edge axis when exactly ONE edge is detected: a single "
                          "event on a line comes back as a 0-d scalar (no len(), not iterable), a single edge in a 2-D input as the pair (row, sample) that reads as two events",
                          key="unwrap:squeeze", name_free=True)
                continue
            if isinstance(v, ast.Subscript) and const_value(v.slice) == (True, 0) and loc_name(v.value) == "ind":
                at = GD.Atoms()
                pc = GD.And(GD.path_condition(cfg, cfg.node_for(r), at), *[GD.formula(t, at, pol) for t, pol in gs])
                ok = any(GD.entails(pc, GD.Atom(k)) is True for k in onedim_atoms(at, pc))
                ctx.check(ok, fi, r, r, "the single index row is returned only for 1-D input", "`ind[0]` is returned without testing that the input is 1-D: for 2-D input the sample axis is lost",
                          key="unwrap:row0", name_free=True)
                continue
            if loc_name(v) == "ind":
                ctx.ok(fi, r, r, "index matrix returned as is", key="unwrap:full")
                continue
            raise AnalysisError(f"{fi.qualname}: returned index expression `{src(v)[:60]}` not understood")


def d2_edges(ctx):
    ctx.rule("D2", "fronts/rises: where(diff >= step), index + 1 along axis, sign read before the shift; falls negates signal and step")
    repo = ctx.repo
    fi, du, cfg, augs = _edge_fn(ctx, "ibldsp.utils.fronts", True)
    # sign = d[tuple(ind)] before the shift
    sg = [d for d in du.defs if d.var == "sign" and d.kind == "assign"]
    if sg and augs:
        ok = cfg.must_pass([sg[0].node], cfg.node_for(augs[0])) and not cfg.can_follow(cfg.node_for(augs[0]), sg[0].node)
        v = sg[0].value
        okv = isinstance(v, ast.Subscript) and loc_name(v.value) == "d"
        ctx.check(ok and okv, fi, sg[0].stmt, sg[0].stmt, "polarity is read from the difference at the un-shifted index",
                  "polarity is read after the index shift (or not from the difference): wrong sign / IndexError at the end", key="sign-order")
    wh = [c for c in find(fi.node, ast.Call, nested=False) if call_name(c) in ("where", "nonzero", "argwhere")]
    for r in returns_of(fi.node):
        if isinstance(r.value, ast.Tuple):
            okp = len(r.value.elts) == 2
            if okp:
                pv = expand_name(du, r.value.elts[1], r)
                # polarity = the differences at the detected edges, in detection order: d[tuple(ind)] read before the shift, or d[<the detection mask>]
                okp = loc_name(r.value.elts[1]) == "sign" or (isinstance(pv, ast.Subscript) and loc_name(pv.value) == "d" and bool(wh) and wh[0].args
                                                               and norm(expand_name(du, pv.slice, r)) == norm(expand_name(du, wh[0].args[0], wh[0])))
            ctx.check(okp, fi, r, r, "returns (indices, polarity of each detected edge)", "the second returned value is not the difference at the detected edges (return order changed?)",
                      key="ret:" + norm(r.value)[:30], name_free=True)
    _unwrap_rule(ctx, fi, du, cfg)
    fr = repo.fn("ibldsp.utils.rises")
    if _delegates_to_fronts(ctx, "ibldsp.utils.rises", +1):
        if _delegates_to_fronts(ctx, "ibldsp.utils.falls", -1):
            return
    else:
        fi_r, du_r, cfg_r, _ = _edge_fn(ctx, "ibldsp.utils.rises", False)
        _unwrap_rule(ctx, fi_r, du_r, cfg_r)
    # analog conversion
    for st in walk_function(fr.node):
        if isinstance(st, ast.Assign) and loc_name(st.targets[0]) == "x":
            cmp_ = [c for c in find(st.value, ast.Compare)]
            ctx.check(bool(cmp_) and isinstance(cmp_[0].ops[0], ast.Gt) and loc_name(cmp_[0].comparators[0]) == "step", fr, st, st, "analog: x > step -> 0/1",
                      "analog conversion is not x > step", key="analog")
    ff = repo.fn("ibldsp.utils.falls")
    rets = returns_of(ff.node)
    ok = False
    for r in rets:
        c = r.value
        if isinstance(c, ast.Call) and repo.resolve_call(ff, c) == "ibldsp.utils.rises":
            b = bind(c, fr)
            x, st, ax = b.bound.get("x"), b.bound.get("step"), b.bound.get("axis")
            ok = (isinstance(x, ast.UnaryOp) and isinstance(x.op, ast.USub) and loc_name(x.operand) == "x"
                  and isinstance(st, ast.UnaryOp) and isinstance(st.op, ast.USub) and loc_name(st.operand) == "step" and loc_name(ax) == "axis")
    ctx.check(ok, ff, ff.node, rets[0] if rets else "falls", "falls = rises(-x, step=-step) on the same axis", "falls does not negate both the signal and the step (or drops the axis)",
              key="falls")
    dflt = ff.defaults().get("step")
    ctx.check(const_value(dflt) == (True, -1), ff, ff.node, f"falls step default {src(dflt) if dflt else None}", "default falling step is -1", "default falling step changed", key="falls-default")


# ---------------------------------------------------------------------------------------------------------------------
# sync composition model: which rows / columns of the raw file a value is gathered from, through locals and two-step indexing
# ---------------------------------------------------------------------------------------------------------------------
class _G:
    """columns `cols` of rows `rows` of the raw file (None = all); `chain` lists the column selections applied one after the other"""

    def __init__(self, rows=None, chain=None, f32=False):
        self.rows, self.chain, self.f32 = rows, list(chain or []), f32


def _full(e):
    return (isinstance(e, ast.Slice) and e.lower is None and e.upper is None and e.step is None) or (isinstance(e, ast.Constant) and e.value is Ellipsis)


def _gather(du, e, at, depth=0):
    """-> _G when `e` is (a cast of) a gather of self._raw, else None"""
    if depth > 8:
        return None
    if isinstance(e, ast.Name):
        ds = du.strong_reaching(e.id, at)
        if ds and all(d.kind == "aug" for d in ds):
            # scaled in place (x *= gains): the columns are those of the assignment the in-place statement acts on
            ds = [d for d in du.defs if d.var == e.id and d.kind == "assign" and any(du.cfg.reachable(d.node, m.node) for m in ds)]
        if len(ds) == 1 and ds[0].kind == "assign" and ds[0].value is not None and ds[0].unpack_index is None:
            g = _gather(du, ds[0].value, ds[0].stmt, depth + 1)
            if g is not None:
                # scaled in place afterwards?  (x *= gains) keeps the gather
                return g
        return None
    if isinstance(e, ast.Attribute) and loc_name(e) == "self._raw":
        return _G()
    if isinstance(e, ast.Call) and call_name(e) == "astype" and isinstance(e.func, ast.Attribute):
        g = _gather(du, e.func.value, at, depth + 1)
        if g is not None and e.args and "float32" in src(e.args[0]):
            g.f32 = True
        return g
    if isinstance(e, ast.Call) and call_name(e) in ("float32", "asarray", "array", "ascontiguousarray") and e.args:
        g = _gather(du, e.args[0], at, depth + 1)
        if g is not None and call_name(e) == "float32":
            g.f32 = True
        return g
    if isinstance(e, ast.Subscript):
        g = _gather(du, e.value, at, depth + 1)
        if g is None:
            return None
        idx = e.slice
        if isinstance(idx, ast.Tuple) and len(idx.elts) == 2:
            r, c = idx.elts
        else:
            r, c = idx, None
        if r is not None and not _full(r):
            if g.rows is not None:
                return None        # rows selected twice: not modelled
            g.rows = r
        if c is not None and not _full(c):
            g.chain.append(c)
        return g
    return None


def _is_sync_idx(e):
    return e is not None and "_get_sync_trace_indices_from_meta" in src(e)


def _analog_idx(repo, fi, du, e, at):
    """Is `e` the list of analog sync channels of the metadata?"""
    if e is None:
        return False
    v = expand_name(du, e, at) if isinstance(e, ast.Name) else e
    if "_get_analog_sync_trace_indices_from_meta" in src(v):
        return True
    if isinstance(v, ast.Attribute) and isinstance(v.value, ast.Name) and v.value.id == "self" and fi.cls:
        q = f"{fi.qualname.rsplit('.', 1)[0]}.{v.attr}"
        if q in repo.functions:
            return any(r.value is not None and "_get_analog_sync_trace_indices_from_meta" in src(r.value) for r in returns_of(repo.functions[q].node))
    return False


def _digital_ok(repo, fi, du, e, at, sp):
    """(ok, why) - e decodes the sync word column(s) of the requested samples"""
    v = expand_name(du, e, at) if isinstance(e, ast.Name) else e
    if isinstance(v, ast.Call) and repo.resolve_call(fi, v) == "spikeglx.Reader.read_sync_digital":
        a = v.args[0] if v.args else kwarg(v, "_slice")
        return (loc_name(a) == sp, f"read_sync_digital({src(a) if a is not None else ''})")
    if isinstance(v, ast.Call) and repo.resolve_call(fi, v) == "spikeglx.split_sync" and v.args:
        g = _gather(du, v.args[0], at if not isinstance(e, ast.Name) else _def_stmt(du, e, at))
        if g is None:
            return False, f"split_sync({src(v.args[0])[:60]}) does not read self._raw"
        ok = loc_name(g.rows) == sp and len(g.chain) == 1 and _is_sync_idx(g.chain[0])
        return ok, f"split_sync of rows `{src(g.rows) if g.rows is not None else ':'}` / columns {[src(c)[:50] for c in g.chain]} of the raw file"
    return False, f"`{src(v)[:60]}` is not split_sync(raw sync columns)"


def _def_stmt(du, name_node, at):
    ds = du.strong_reaching(name_node.id, at)
    return ds[0].stmt if len(ds) == 1 and ds[0].stmt is not None else at


def _analog_ok(repo, fi, du, name, at, sp):
    """(ok, why) - the local `name` holds the analog sync channels of the requested samples, in volts"""
    ds = [d for d in du.reaching(name, at)]
    base = [d for d in ds if d.kind == "assign"]
    if not base:
        base = [d for d in du.defs if d.var == name and d.kind == "assign"]
    if not base:
        return False, f"`{name}` has no definition"
    whys = []
    ok_all = True
    for d in base:
        v = d.value
        if isinstance(v, ast.Call) and repo.resolve_call(fi, v) == "spikeglx.Reader.read_sync_analog":
            a = v.args[0] if v.args else kwarg(v, "_slice")
            ok = loc_name(a) == sp
            whys.append(f"read_sync_analog({src(a) if a is not None else ''})")
        elif isinstance(v, ast.Call) and repo.resolve_call(fi, v) == "spikeglx.Reader.read":
            b = bind(v, repo.fn("spikeglx.Reader.read"))
            ok = loc_name(b.bound.get("nsel")) == sp and _analog_idx(repo, fi, du, b.bound.get("csel"), d.stmt) and const_value(b.bound.get("sync")) == (True, False)
            whys.append(src(v)[:70])
        else:
            g = _gather(du, v, d.stmt)
            if g is None:
                ok = False
                whys.append(f"`{src(v)[:60]}` is not a gather of the raw file")
            else:
                cols_ok = len(g.chain) == 1 and _analog_idx(repo, fi, du, g.chain[0], d.stmt)
                # volts: scaled by the conversion factors of the same columns before it is thresholded
                scaled = False
                for m in du.defs:
                    if m.var == name and m.kind in ("aug", "mutate") and isinstance(m.stmt, ast.AugAssign) and isinstance(m.stmt.op, ast.Mult) \
                            and du.cfg.reachable(d.node, m.node):
                        gv = m.stmt.value
                        if isinstance(gv, ast.Subscript) and loc_name(gv.value) in ("self.sample2volts", "self.channel_conversion_sample2v[self.type]") \
                                and g.chain and norm(gv.slice) == norm(g.chain[0]):
                            scaled = True
                already = False
                if not scaled and len(g.chain) >= 1:
                    already = False
                ok = loc_name(g.rows) == sp and cols_ok and scaled and g.f32
                if len(g.chain) > 1:
                    whys.append(f"columns {[src(c)[:40] for c in g.chain]} applied one after the other: the analog sync indices address the columns LEFT by the first selection "
                                "(the caller's channel selection), not the channels of the file")
                elif not cols_ok:
                    whys.append(f"columns {[src(c)[:40] for c in g.chain]} are not the analog sync channels of the metadata")
                elif not scaled or not g.f32:
                    whys.append("raw integers of the analog sync channels are not converted to volts (float32 * sample2volts of the same columns)")
                else:
                    whys.append(f"rows `{src(g.rows) if g.rows is not None else ':'}`, analog sync columns, in volts")
        ok_all = ok_all and ok
    return ok_all, "; ".join(whys)


def _strip_int_cast(e):
    while isinstance(e, ast.Call) and call_name(e) in ("int8", "astype", "int16", "asarray", "array") and (e.args or isinstance(e.func, ast.Attribute)):
        e = e.func.value if (call_name(e) == "astype" and isinstance(e.func, ast.Attribute)) else e.args[0]
    return e


def sync_value(ctx, repo, fi, du, e, at, sp, where):
    """`e` (a value returned as the decoded sync) is digital | concatenate((digital, analog >= threshold), axis=1) of the samples `sp`."""
    alts = []
    if isinstance(e, ast.Name):
        for d in du.strong_reaching(e.id, at):
            if d.kind != "assign" or d.value is None:
                raise AnalysisError(f"{fi.qualname}: sync value `{e.id}` has a definition that is not an assignment")
            alts.append((d.value, d.stmt))
    else:
        alts.append((e, at))
    n = 0
    for v, st in alts:
        if isinstance(v, ast.Call) and repo.resolve_call(fi, v) == "spikeglx.Reader.read_sync":
            a = v.args[0] if v.args else kwarg(v, "_slice")
            ctx.check(loc_name(a) == sp, fi, st, st, f"{where}: the sync of the requested samples is decoded by read_sync",
                      f"{where}: read_sync is given `{src(a) if a is not None else ''}`, not the requested samples `{sp}`", key="sync-of-read")
            n += 1
            continue
        if isinstance(v, ast.Call) and call_name(v) in ("concatenate", "hstack"):
            parts = v.args[0].elts if v.args and isinstance(v.args[0], (ast.Tuple, ast.List)) else []
            if len(parts) != 2:
                raise AnalysisError(f"{fi.qualname}: `{src(v)[:60]}` does not join two parts")
            okd, whyd = _digital_ok(repo, fi, du, parts[0], st, sp)
            ctx.check(okd, fi, st, st, f"{where}: digital lines decode the sync word of the requested samples ({whyd})",
                      f"{where}: the digital part is {whyd}", key="digital-part", name_free=True)
            an = _strip_int_cast(parts[1])
            an = expand_name(du, an, st) if isinstance(an, ast.Name) else an
            nm = None
            if isinstance(an, ast.Compare):
                nm = loc_name(an.left)
            elif isinstance(parts[1], ast.Call) and isinstance(_strip_int_cast(parts[1]), ast.Name):
                nm = _strip_int_cast(parts[1]).id
            if nm is None:
                raise AnalysisError(f"{fi.qualname}: analog part `{src(parts[1])[:60]}` not understood")
            oka, whya = _analog_ok(repo, fi, du, nm, st, sp)
            ctx.check(oka, fi, st, st, f"{where}: analog lines are the analog sync channels of the requested samples in volts ({whya[:100]})",
                      f"{where}: the thresholded analog lines are not the file's analog sync channels of the requested samples - {whya}", key="analog-part", name_free=True)
            n += 1
            continue
        okd, whyd = _digital_ok(repo, fi, du, v, st, sp)
        if okd:
            ctx.ok(fi, st, st, f"{where}: digital-only result ({whyd})", key="digital-only")
            n += 1
            continue
        if isinstance(v, ast.Name):
            n += sync_value(ctx, repo, fi, du, v, st, sp, where)
            continue
        raise AnalysisError(f"{fi.qualname}: sync value `{src(v)[:70]}` not understood")
    return n


def _sample_domain_read_sync(ctx, repo, fi, du, sp):
    """read_sync written without a concatenation: a preallocated int8 buffer, digital lines stored in its first columns, the analog lines obtained by comparing the RAW
    integer samples with the detection level brought back to sample units:  raw >= (floor + threshold) / s2v  with floor = percentile(raw) * s2v (or 0), which is
    raw * s2v - floor >= threshold for positive factors.  raw holds integers, so `raw >= L` for a real L is `raw >= ceil(L)`: a level cast to the integer sample type
    must be rounded UP first (astype truncates towards zero and wraps beyond the type's range).  -> False when read_sync is not written this way."""
    from sa.algebra import Evaluator, Poly, Undecided
    cmps = [c for c in find(fi.node, ast.Call, nested=False) if call_name(c) == "greater_equal" and len(c.args) >= 2 and kwarg(c, "out") is not None]
    if not cmps:
        return False
    buf = loc_name(kwarg(cmps[0], "out").value) if isinstance(kwarg(cmps[0], "out"), ast.Subscript) else None
    alloc = [d for d in du.defs if d.var == buf and d.kind == "assign" and isinstance(d.value, ast.Call) and call_name(d.value) in ("empty", "zeros")]
    if buf is None or len(alloc) != 1:
        return False
    av = alloc[0].value
    shp = av.args[0].elts if av.args and isinstance(av.args[0], (ast.Tuple, ast.List)) and len(av.args[0].elts) == 2 else None
    dt = kwarg(av, "dtype")
    nd_txt = None
    st_dig = [m.stmt for m in du.defs if m.var == buf and m.kind == "mutate" and isinstance(m.stmt, ast.Assign)]
    okl = shp is not None and len(st_dig) == 1
    if okl:
        tg = st_dig[0].targets[0]
        cs = tg.slice.elts[1] if isinstance(tg.slice, ast.Tuple) and len(tg.slice.elts) == 2 else None
        okl = isinstance(cs, ast.Slice) and cs.lower is None and cs.upper is not None and _full(tg.slice.elts[0])
        if okl:
            nd_txt = src(expand_name(du, cs.upper, st_dig[0])).replace(" ", "")
            dig_name = loc_name(st_dig[0].value)
            okl = nd_txt == f"{dig_name}.shape[1]"
    for c in cmps:
        o = kwarg(c, "out")
        oc = o.slice.elts[1] if isinstance(o.slice, ast.Tuple) and len(o.slice.elts) == 2 else None
        okl = okl and isinstance(oc, ast.Slice) and oc.upper is None and oc.lower is not None and src(expand_name(du, oc.lower, c)).replace(" ", "") == nd_txt
    raw_name = loc_name(cmps[0].args[0])
    okl = okl and shp is not None and src(shp[1]).replace(" ", "") in (f"{nd_txt}+{raw_name}.shape[1]", f"{raw_name}.shape[1]+{nd_txt}") and src(shp[0]).replace(" ", "") in (f"{dig_name}.shape[0]", f"{raw_name}.shape[0]")
    ctx.check(bool(okl) and dt is not None and src(dt).endswith("int8") and "uint" not in src(dt), fi, alloc[0].stmt, alloc[0].stmt, "digital lines first, thresholded analog lines after, in one signed int8 array",
              f"`{src(alloc[0].stmt)[:90]}` and its two stores do not lay out (digital lines | analog lines) as a signed int8 array", key="concat", name_free=True)
    okd, whyd = _digital_ok(repo, fi, du, st_dig[0].value, st_dig[0], sp) if st_dig else (False, "no digital store")
    ctx.check(okd, fi, st_dig[0] if st_dig else fi.node, st_dig[0] if st_dig else "digital", f"read_sync: digital lines decode the sync word of the requested samples ({whyd})",
              f"read_sync: the digital part is {whyd}", key="digital-part", name_free=True)
    # raw / s2v of the analog sync channels of the requested samples, gathered with one selector
    rdefs = [d for d in du.defs if d.var == raw_name and d.kind == "assign" and not (isinstance(d.value, ast.Constant) and d.value.value is None)]
    g = _gather(du, rdefs[0].value, rdefs[0].stmt) if len(rdefs) == 1 else None
    s2v_name = None
    okr = g is not None and loc_name(g.rows) == sp and len(g.chain) == 1
    sel = g.chain[0] if okr else None
    inner = sel.slice if okr and isinstance(sel, ast.Subscript) and loc_name(sel.value) == "self.raw_channel_order" else sel
    okr = okr and _analog_idx(repo, fi, du, inner, rdefs[0].stmt)
    ctx.check(bool(okr), fi, rdefs[0].stmt if rdefs else fi.node, rdefs[0].stmt if rdefs else raw_name, "the compared samples are the analog sync channels of the requested samples (raw integers)",
              f"`{src(rdefs[0].stmt)[:90] if rdefs else raw_name}` is not self._raw[<requested samples>, <analog sync channels>]", key="analog-part", name_free=True)
    for c in cmps:
        lev = c.args[1]
        cast = None
        core = lev
        if isinstance(core, ast.Call) and call_name(core) == "astype" and isinstance(core.func, ast.Attribute):
            cast, core = core, core.func.value

        class E(Evaluator):
            def ev(self, e):
                if isinstance(e, ast.Call) and call_name(e) in ("percentile", "nanpercentile", "quantile") and e.args and loc_name(e.args[0]) == raw_name:
                    return Poly.sym("FLOOR_RAW")
                if isinstance(e, ast.Call) and call_name(e) in ("ceil",) and e.args:
                    return self.ev(e.args[0])
                if isinstance(e, ast.Call) and call_name(e) in ("clip", "minimum", "maximum") and e.args:
                    return self.ev(e.args[0])
                return super().ev(e)
        s2 = [n.id for n in ast.walk(core) if isinstance(n, ast.Name) and n.id not in (raw_name, "np", sp, "threshold", "floor_percentile")]
        s2v_name = s2[0] if s2 else None
        try:
            ev = E(resolve=lambda x: repo.resolve_expr(fi, x))
            L = ev.ev(core)
            S = Poly.sym(s2v_name) if s2v_name else None
            okalg = S is not None and ((L * S - Poly.sym("FLOOR_RAW") * S) == Poly.sym("threshold") or (L * S) == Poly.sym("threshold"))
        except Undecided:
            okalg = False
        sdefs = [d for d in du.defs if d.var == s2v_name and d.kind == "assign" and not (isinstance(d.value, ast.Constant) and d.value.value is None)] if s2v_name else []
        oks = len(sdefs) == 1 and isinstance(sdefs[0].value, ast.Subscript) and src(sdefs[0].value.value).replace(" ", "") in ("self.sample2volts", "self.channel_conversion_sample2v[self.type]") \
            and sel is not None and norm(sdefs[0].value.slice) == norm(sel)
        ctx.check(okalg and oks, fi, c, c, "raw >= (floor + threshold) / s2v with the factors of the same channels: the trace in volts, floor removed, against the threshold",
                  f"`{src(c)[:100]}` is not raw >= (percentile(raw) * s2v + threshold) / s2v with s2v the conversion factors of the compared channels", key="threshold", name_free=True)
        if cast is not None:
            rounded_up = any(isinstance(n, ast.Call) and call_name(n) == "ceil" for n in ast.walk(core))
            clipped = any(isinstance(n, ast.Call) and call_name(n) in ("clip", "minimum") for n in ast.walk(core))
            ctx.check(rounded_up and clipped, fi, cast, cast, "an integer detection level is the real level rounded up, kept inside the sample type's range",
                      f"`{src(cast)[:90]}` casts the real-valued level to the integer sample type: astype truncates, so a sample up to one count BELOW the threshold compares as >= "
                      "(rises one sample early, falls one sample late), and a level beyond the type's range wraps (threshold above the ADC range: every sample reads high); "
                      "integers x satisfy x >= L exactly when x >= ceil(L)", key="level-cast", name_free=True)
        else:
            ctx.ok(fi, c, c, "the level stays real-valued: integer samples are compared with it exactly", key="level-cast")
    for r in returns_of(fi.node):
        if r.value is None:
            continue
        if loc_name(r.value) == buf:
            ctx.ok(fi, r, r, "the assembled array is returned", key="ret-buf")
        else:
            okd2, whyd2 = _digital_ok(repo, fi, du, r.value, r, sp)
            ctx.check(okd2, fi, r, r, f"digital-only result ({whyd2})", f"`{src(r)}` returns neither the assembled array nor the digital lines", key="digital-only", name_free=True)
    return True


def d3_read_sync(ctx):
    ctx.rule("D3", "read_sync = concatenate((digital, analog >= threshold), axis=1); digital = split_sync(raw[:, sync columns])")
    repo = ctx.repo
    fi = repo.fn("spikeglx.Reader.read_sync")
    du = DefUse(fi.node)
    cc = [c for c in find(fi.node, ast.Call, nested=False) if call_name(c) in ("concatenate", "hstack", "c_")]
    if not cc:
        sp0 = [p_ for p_ in fi.params if p_ != "self"][0]
        if _sample_domain_read_sync(ctx, repo, fi, du, sp0):
            _read_and_digital_clauses(ctx, repo)
            return
        raise AnchorMissing("read_sync: concatenation not found")
    c = cc[0]
    parts = c.args[0].elts if c.args and isinstance(c.args[0], (ast.Tuple, ast.List)) else []
    ax = kwarg(c, "axis")
    sp = [p_ for p_ in fi.params if p_ != "self"][0]
    okax = (call_name(c) == "hstack") or (isinstance(ax, ast.Constant) and ax.value in (1, -1))
    ctx.check(len(parts) == 2 and okax, fi, c, c, "digital lines first, thresholded analog lines after, along columns",
              f"`{src(c)}` is not concatenate((digital, analog), axis=1)", key="concat")
    n_ = 0
    for r in returns_of(fi.node):
        if r.value is not None:
            n_ += sync_value(ctx, repo, fi, du, r.value, r, sp, "read_sync")
    if n_ == 0:
        raise AnchorMissing("read_sync: no returned sync value evaluated")
    _read_clause(ctx, repo)
    # complementary threshold stores
    st = [s for s in walk_function(fi.node) if isinstance(s, ast.Assign) and isinstance(s.targets[0], ast.Subscript) and loc_name(s.targets[0].value) == "analog"]
    ops = {}
    for s in st:
        cmp_ = find(s.targets[0].slice, ast.Compare)
        if cmp_ and loc_name(cmp_[0].comparators[0]) == "threshold" and loc_name(cmp_[0].left) == "analog":
            ops[type(cmp_[0].ops[0]).__name__] = const_value(s.value)[1]
    single_pass = None
    if not st and len(parts) == 2:
        # one-pass form: the analog part of the concatenation is the comparison itself, cast to an integer type
        b2 = parts[1]
        inner = b2
        while isinstance(inner, ast.Call) and call_name(inner) in ("int8", "astype", "uint8", "int16", "asarray", "array") and (inner.args or isinstance(inner.func, ast.Attribute)):
            inner = inner.func.value if (call_name(inner) == "astype" and isinstance(inner.func, ast.Attribute)) else inner.args[0]
        inner = expand_name(du, inner, c)
        if isinstance(inner, ast.Compare) and len(inner.ops) == 1:
            single_pass = inner
    if single_pass is not None:
        okc = isinstance(single_pass.ops[0], ast.GtE) and loc_name(single_pass.left) == "analog" and loc_name(single_pass.comparators[0]) == "threshold"
        signed = "uint" not in src(parts[1])
        ctx.check(okc and signed, fi, single_pass, single_pass, "analog lines are 1 where the trace is >= threshold, 0 below (one comparison, signed integer result)",
                  f"`{src(parts[1])}` is not (analog >= threshold) as a signed integer: samples equal to the threshold flip side / np.diff wraps on unsigned lines", key="threshold")
    else:
        ctx.check(ops == {"Lt": 0, "GtE": 1}, fi, st[0] if st else fi.node, f"threshold stores {ops}", "analog < threshold -> 0 and analog >= threshold -> 1",
                  f"threshold stores {ops} are not the complementary pair (< -> 0, >= -> 1)", key="threshold")
    if len(st) == 2:
        cfg = du.cfg
        first_is_lt = isinstance(find(st[0].targets[0].slice, ast.Compare)[0].ops[0], ast.Lt)
        ctx.check(first_is_lt, fi, st[0], st[0], "the low side is cleared before the high side is set", "the high side is set first: values set to 1 are then cleared when threshold > 1",
                  key="threshold-order")
    _digital_clause(ctx, repo)


def _read_clause(ctx, repo):
    # read(): the sync handed back next to the data is the sync of the same samples
    fr = repo.fn("spikeglx.Reader.read")
    dur = DefUse(fr.node)
    spr = [p_ for p_ in fr.params if p_ != "self"][0]
    nr = 0
    for r in returns_of(fr.node):
        if isinstance(r.value, ast.Tuple) and len(r.value.elts) == 2:
            nr += sync_value(ctx, repo, fr, dur, r.value.elts[1], r, spr, "read(sync=True)")
    if nr == 0:
        raise AnchorMissing("Reader.read: no (data, sync) return found")


def _digital_clause(ctx, repo):
    fd = repo.fn("spikeglx.Reader.read_sync_digital")
    dud = DefUse(fd.node)
    spd = [p_ for p_ in fd.params if p_ != "self"][0]
    okd, whyd = False, "no split_sync(...) is returned"
    for r in returns_of(fd.node):
        if r.value is not None:
            okd, whyd = _digital_ok(repo, fd, dud, r.value, r, spd)
    ctx.check(okd, fd, fd.node, "split_sync(self._raw[_slice, sync indices])", "digital lines decode the raw sync column(s) of the requested samples",
              f"read_sync_digital does not decode self._raw[_slice, <sync indices>]: {whyd}", key="digital")


def _read_and_digital_clauses(ctx, repo):
    _read_clause(ctx, repo)
    _digital_clause(ctx, repo)


def dS_shared(ctx):
    from sa.common import rule_no_shared_mutation
    rule_no_shared_mutation(ctx, "DS", ['spikeglx.split_sync', 'spikeglx.Reader.read_sync', 'spikeglx.Reader.read_sync_digital', 'spikeglx.Reader.read_sync_analog', 'ibldsp.utils.fronts', 'ibldsp.utils.rises', 'ibldsp.utils.falls'],
                            'sync decoded by a later call depends on an earlier call')


def run(ctx):
    ctx.run(dS_shared)
    ctx.run(d1_bits)
    ctx.run(d2_edges)
    ctx.run(d3_read_sync)
