"""C11 - truncated or inconsistent files open and expose exactly the complete samples (structural clauses)."""
import ast
import re

from sa.algebra import Evaluator, Facts, Poly, Undecided
from sa.cfg import CFG, conjuncts
from sa.common import chain_root, expand_name, returns_of, expand_property
from sa.defuse import DefUse, loc_name
from sa.model import AnalysisError, AnchorMissing, const_value, src, walk_function
from sa.struct import call_name, find, kwarg, norm

EXPLANATION = (
    "Decides structural necessary conditions of C11 by rounding-provenance analysis: (D1) on the size-mismatch path of "
    "Reader.open the value written to meta['fileTimeSecs'] is (integer frame count) / fs where the frame count is "
    "bytes // (itemsize * nc) (floor-divided, int()- or floor()-ed) BEFORE the division by fs, so Reader.ns's later round() "
    "can only undo float error and never rounds a trailing partial frame up; the compressed branch uses the decoded row count; "
    "OnlineReader.ns floors; (D2) the mismatch test is `nc * ns * itemsize != nbytes`, the rewrite cannot follow the "
    "np.memmap call, the memmap is read-only with shape (self.ns, self.nc), and Reader.rl is ns / fs; (D3) the byte count behind "
    "the repaired duration is a fresh stat at open time, not the size the constructor cached (recording still in progress). That the exposed "
    "values equal the file prefix is NOT decided (numpy memmap semantics, trusted)."
    ' (D2 as built) whether the duration is rewritten depends on nothing but the size disagreement and the presence of metadata: the disjunction of the path conditions of all rewrite stores must not depend on any other atom (e.g. a logging option).'
    ' (D2 as built) besides memmap(shape=(ns, nc)) after the rewrite, a 1-D mapping of the whole items of the file (shape=(st_size // itemsize,)) exposed as raw[:n*nc].reshape(n, nc) with n = complete frames is accepted; a memmap without shape refuses byte lengths that are not a multiple of the item size and is reported; the mismatch test may compare items instead of bytes.'
    ' (DS) Reader.open / __init__ / ns / shape do not store keys into a mapping that a memoised function hands out to every reader of the same meta file.'
)
ASSUMPTIONS = [
    "file sizes, item sizes and channel counts are positive integers; int() of a positive quotient is its floor",
    "round(n / fs * fs) == n for integer n below 2**52 (float error only)",
    "np.memmap(shape=(ns, nc)) maps the first ns*nc items of the file",
]

SIZE_SYMS = {"self.nbytes": "S"}


class _Ev(Evaluator):
    """st_size reads -> S, itemsize -> I, nc -> NC, fs -> FS.  Locals with one definition are expanded."""
    du = None
    at = None

    def ev(self, e):
        s = src(e)
        if isinstance(e, ast.Name) and self.du is not None and e.id not in self.env:
            v = expand_name(self.du, e, self.at if self.at is not None else e)
            if v is not e:
                return self.ev(v)
        if isinstance(e, ast.Attribute) and e.attr == "st_size":
            return Poly.sym("S")
        if isinstance(e, ast.Attribute) and e.attr in ("size", "nbytes") and isinstance(e.value, ast.Name) and self.du is not None:
            items = self._mapped_items(e.value)
            if items is not None:
                return items * Poly.sym("I") if e.attr == "nbytes" else items
        if s in ("self.nbytes",):
            return Poly.sym("S")
        if s in ("self.dtype.itemsize", "self.dtype.itemsize"):
            return Poly.sym("I")
        if s == "self.nc":
            return Poly.sym("NC")
        if s == "self.fs":
            return Poly.sym("FS")
        if s == "self.ns":
            return Poly.sym("NS")
        return super().ev(e)


def _mapped_items(self, name_node):
    """number of items of a local that holds np.memmap(<file>, dtype=self.dtype[, shape=...]) - the whole file (bytes // itemsize) without shape"""
    ds = self.du.strong_reaching(name_node.id, self.at if self.at is not None else name_node)
    if len(ds) != 1 or ds[0].value is None or not (isinstance(ds[0].value, ast.Call) and call_name(ds[0].value) == "memmap"):
        return None
    m = ds[0].value
    shp = kwarg(m, "shape")
    if shp is None:
        return self.atom("floordiv", Poly.sym("S"), Poly.sym("I"))
    elts = shp.elts if isinstance(shp, (ast.Tuple, ast.List)) else [shp]
    out = Poly.const(1)
    sub = _Ev(facts=self.facts, resolve=self.resolve)
    sub.du, sub.at = self.du, ds[0].stmt
    for x in elts:
        out = out * sub.ev(x)
    return out


_Ev._mapped_items = _mapped_items


def _classify(p: Poly):
    """('int-frames'|'real'|'rounded-up'|'rows'|'?', detail) for a duration poly."""
    c = p.canon()
    if len(p.t) != 1:
        return "?", c
    (m, coef), = p.t.items()
    syms = dict(m)
    if syms.get("FS") != -1 or coef != 1:
        return "?", c
    rest = [s for s in syms if s != "FS"]
    if len(rest) == 1 and syms[rest[0]] == 1:
        a = rest[0]
        inner_ok = ("S" in a and "I" in a and "NC" in a)
        if re.match(r"^(floordiv|int|floor)\(", a) and inner_ok:
            return "int-frames", c
        if re.match(r"^(round|rint|around|ceil)\(", a):
            return "rounded-up", c
        if "shape[0]" in a or a.startswith("len("):
            return "rows", c
    if set(rest) == {"S", "I", "NC"} and syms["S"] == 1 and syms["I"] == -1 and syms["NC"] == -1:
        return "real", c
    return "?", c


def d1_floor(ctx):
    ctx.rule("D1", "fileTimeSecs rewrite = floor(bytes / (itemsize*nc)) / fs (integer frames before the division); OnlineReader.ns floors")
    repo = ctx.repo
    fi = repo.fn("spikeglx.Reader.open")
    du = DefUse(fi.node)
    cfg = du.cfg
    stores = [st for st in walk_function(fi.node) if isinstance(st, ast.Assign) and isinstance(st.targets[0], ast.Subscript)
              and loc_name(st.targets[0].value) == "self.meta" and const_value(st.targets[0].slice) == (True, "fileTimeSecs")]
    if not stores:
        raise AnchorMissing("Reader.open: no rewrite of meta['fileTimeSecs'] found")
    facts = Facts()
    n_flat = 0
    for st in stores:
        gs = []
        for t, pol in cfg.guards(cfg.node_for(st)):
            gs += conjuncts(t, pol)
        compressed = any("is_mtscomp" in src(t) and pol for t, pol in gs)
        v = expand_name(du, st.value, st)
        ev = _Ev(facts=facts, resolve=lambda e: repo.resolve_expr(fi, e))
        ev.du, ev.at = du, st
        try:
            p = ev.ev(v)
        except Undecided as e:
            raise AnalysisError(f"Reader.open: duration expression not evaluable: {e}")
        kind, c = _classify(p)
        if compressed:
            ctx.check(kind == "rows", fi, st, f"{src(v)} -> {c}", "compressed stream: duration from the decoded row count",
                      f"compressed-stream duration `{src(v)}` is not rows / fs", key="rewrite-cbin")
        else:
            n_flat += 1
            if kind == "?":
                raise AnalysisError(f"Reader.open: duration `{src(v)}` (normal form {c}) is not in a recognised form")
            ctx.check(kind == "int-frames", fi, st, f"{src(v)} -> {c}", "only complete sample frames count towards the duration",
                      f"duration is `{src(v)}` (normal form {c}): the frame count stays real-valued, Reader.ns rounds a trailing partial frame "
                      "larger than half a frame up and np.memmap fails (or data past the last complete frame is exposed)", key="rewrite-flat")
    if n_flat == 0:
        raise AnchorMissing("Reader.open: flat-binary rewrite not found")
    # OnlineReader.ns
    fo = repo.fn("spikeglx.OnlineReader.ns")
    for r in returns_of(fo.node):
        ev = _Ev(facts=Facts(), resolve=lambda e: repo.resolve_expr(fo, e))
        p = ev.ev(r.value)
        c = p.canon()
        ok = re.match(r"^(floordiv|int|floor)\(", c) is not None and all(k in c for k in ("S", "I", "NC")) and len(p.t) == 1
        ctx.check(ok, fo, r, f"{src(r.value)} -> {c}", "online reader exposes floor(bytes / frame size) samples",
                  f"online sample count `{src(r.value)}` (normal form {c}) is not the floor of bytes / (itemsize * nc)", key="online-ns")


def _exposed_frames(ctx, repo, fi, du, m):
    """1-D mapping: what open() stores in self._raw is <map>[: n * nc].reshape(n, nc) with n = complete frames of the file (or self.ns without metadata)."""
    stores = [st for st in walk_function(fi.node) if isinstance(st, ast.Assign) and loc_name(st.targets[0]) == "self._raw" and any(c is not m for c in [st.value])
              and not (isinstance(st.value, ast.Call) and call_name(st.value) == "Reader")]
    cfg = du.cfg
    mn = cfg.node_for(m)
    stores = [st for st in stores if cfg.reachable(mn, cfg.node_for(st))]
    if not stores:
        raise AnalysisError("Reader.open: the 1-D mapping is never reshaped into self._raw")
    frames = None
    for st in stores:
        v = st.value
        ok = isinstance(v, ast.Call) and call_name(v) == "reshape" and isinstance(v.func, ast.Attribute) and isinstance(v.func.value, ast.Subscript) \
            and isinstance(v.func.value.slice, ast.Slice) and v.func.value.slice.lower is None and v.func.value.slice.upper is not None
        if not ok:
            raise AnalysisError(f"Reader.open: `{src(st)[:70]}` is not <map>[: n * nc].reshape(n, nc)")
        dims = v.args[0].elts if len(v.args) == 1 and isinstance(v.args[0], (ast.Tuple, ast.List)) else list(v.args)
        if len(dims) != 2:
            raise AnalysisError(f"Reader.open: reshape to {len(dims)} dimensions")
        nrow = dims[0]
        rows_alts = []
        if isinstance(nrow, ast.Name):
            for d in du.strong_reaching(nrow.id, st):
                if d.kind != "assign" or d.value is None:
                    raise AnalysisError("Reader.open: row count of the exposed array has a definition that is not an assignment")
                rows_alts.append((d.value, d.stmt))
        else:
            rows_alts.append((nrow, st))
        whole = None
        for val, at in rows_alts:
            ev = _Ev(facts=Facts(), resolve=lambda e: repo.resolve_expr(fi, e))
            ev.du, ev.at = du, at
            try:
                p = ev.ev(val)
                up = None
            except Undecided as e:
                raise AnalysisError(f"Reader.open: row count `{src(val)}` not evaluable: {e}")
            whole = ev.atom("floordiv", ev.atom("floordiv", Poly.sym("S"), Poly.sym("I")), Poly.sym("NC"))
            okrow = p == whole or p == Poly.sym("NS") or p == ev.atom("floordiv", Poly.sym("S"), Poly.sym("I") * Poly.sym("NC"))
            ctx.check(okrow, fi, at, at, "rows exposed = complete frames present in the file (announced count only when nothing can be checked)",
                      f"the exposed row count `{src(val)}` normalises to {p}: not floor(items / nc)", key="exposed-rows", name_free=True)
        # prefix length == rows * nc
        evp = _Ev(facts=Facts(), resolve=lambda e: repo.resolve_expr(fi, e))
        evp.du, evp.at = None, st
        try:
            evp.env = {}
            up = evp.ev(v.func.value.slice.upper)
            prod = evp.ev(ast.BinOp(left=dims[0], op=ast.Mult(), right=dims[1]))
        except Undecided:
            up = prod = None
        ctx.check(up is not None and up == prod and src(dims[1]) == "self.nc", fi, st, st, "the prefix handed to reshape holds exactly rows * nc items",
                  f"`{src(st)[:80]}`: prefix length and (rows, nc) disagree", key="exposed-prefix", name_free=True)


def d2_order(ctx):
    ctx.rule("D2", "mismatch test is nc*ns*itemsize != nbytes; rewrite precedes np.memmap(shape=(self.ns, self.nc), mode='r'); rl = ns / fs")
    repo = ctx.repo
    fi = repo.fn("spikeglx.Reader.open")
    cfg = CFG(fi.node)
    mm = [c for c in find(fi.node, ast.Call, nested=False) if call_name(c) == "memmap"]
    if not mm:
        raise AnchorMissing("Reader.open: np.memmap call not found")
    m = mm[0]
    shp = kwarg(m, "shape")
    shp = expand_property(repo, fi, shp) if shp is not None else None  # Reader.shape is (self.ns, self.nc)
    ok = isinstance(shp, ast.Tuple) and [src(e) for e in shp.elts] == ["self.ns", "self.nc"]
    if not ok and isinstance(shp, ast.Tuple) and len(shp.elts) == 2:
        # properties read once into locals: each local must hold the property as it is when the mapping is made - a definition `x = self.ns` reaches the mapping only
        # along paths on which the duration is not rewritten in between (a rewrite must be followed by a fresh read)
        du_l = DefUse(fi.node, cfg)
        mnode = cfg.node_for(m)
        rewrites = [cfg.node_for(st) for st in walk_function(fi.node) if isinstance(st, ast.Assign) and isinstance(st.targets[0], ast.Subscript)
                    and loc_name(st.targets[0].value) == "self.meta" and const_value(st.targets[0].slice) == (True, "fileTimeSecs")]
        okl = True
        for want_, e_ in zip(("self.ns", "self.nc"), shp.elts):
            if src(e_) == want_:
                continue
            if not isinstance(e_, ast.Name):
                okl = False
                break
            defs_ = du_l.reaching(e_.id, m)
            if not defs_ or not all(d.kind == "assign" and d.value is not None and src(d.value) == want_ for d in defs_):
                okl = False
                break
            others = {d.node.id for d in defs_}
            for d in defs_:
                for r_ in rewrites:
                    if want_ == "self.ns" and r_ is not None and cfg.reachable(d.node, r_) and cfg.reachable(r_, mnode, avoid=[cfg.nodes[i] for i in others if i != d.node.id]):
                        okl = False
        ok = okl
    flat_map = False
    if not ok:
        # the other sound layout: the whole items of the file mapped 1-D, then the complete frames exposed as raw[:ns * nc].reshape(ns, nc)
        du_ = DefUse(fi.node)
        if shp is None:
            ctx.violation(fi, m, m, "np.memmap without shape= maps `file size / item size` items and REFUSES a file whose byte length is not a multiple of the item size "
                          "(ValueError: Size of available data is not a multiple of the data-type size): a binary cut at an odd byte offset no longer opens, instead of "
                          "exposing its complete frames", key="memmap-shape", name_free=True)
            flat_map = True
        else:
            ev_ = _Ev(facts=Facts(), resolve=lambda e: repo.resolve_expr(fi, e))
            ev_.du, ev_.at = du_, cfg.node_for(m).stmt
            elts = shp.elts if isinstance(shp, (ast.Tuple, ast.List)) else [shp]
            try:
                items = Poly.const(1)
                for x in elts:
                    items = items * ev_.ev(x)
            except Undecided as e:
                raise AnalysisError(f"Reader.open: memmap shape `{src(shp)}` not evaluable: {e}")
            whole = ev_.atom("floordiv", Poly.sym("S"), Poly.sym("I"))
            flat_map = len(elts) == 1
            ctx.check(flat_map and items == whole, fi, m, m, "the whole items present in the file are mapped (bytes // item size)",
                      f"memmap shape is `{src(shp)}` = {items} items: neither (self.ns, self.nc) nor the whole items of the file", key="memmap-shape", name_free=True)
        if flat_map:
            _exposed_frames(ctx, repo, fi, du_, m)
    else:
        ctx.ok(fi, m, m, "memmap shape is (self.ns, self.nc)", key="memmap-shape")
    md = kwarg(m, "mode")
    ctx.check(isinstance(md, ast.Constant) and md.value in ("r", "c"), fi, m, m, "recording is mapped read-only", "recording is mapped writable", key="memmap-mode")
    stores = [st for st in walk_function(fi.node) if isinstance(st, ast.Assign) and isinstance(st.targets[0], ast.Subscript)
              and const_value(st.targets[0].slice) == (True, "fileTimeSecs")]
    mn = cfg.node_for(m)
    late = [st for st in stores if cfg.can_follow(mn, cfg.node_for(st))] if not flat_map else []   # a 1-D mapping of the whole file does not depend on the metadata
    ctx.check(not late, fi, late[0] if late else m, late[0] if late else "rewrite before memmap", "metadata is corrected before the file is mapped",
              "the file is mapped before the metadata is corrected: the shape still reflects the announced size", key="rewrite-first")
    # mismatch test
    tests = [n for n in walk_function(fi.node) if isinstance(n, ast.If) and ("nbytes" in src(n.test) or "st_size" in src(n.test))]
    if not tests:
        # items rather than bytes: a comparison of the mapped item count with ns * nc
        tests = [n for n in walk_function(fi.node) if isinstance(n, ast.If) and isinstance(n.test, ast.Compare) and ".size" in src(n.test) and "self.ns" in src(n.test)]
    if not tests:
        raise AnchorMissing("Reader.open: size mismatch test not found")
    t = tests[0].test
    okt = False
    if isinstance(t, ast.Compare) and len(t.ops) == 1 and isinstance(t.ops[0], ast.NotEq):
        ev = _Ev(facts=Facts())
        ev.du, ev.at = DefUse(fi.node), tests[0]
        try:
            a, b = ev.ev(t.left), ev.ev(t.comparators[0])
        except Undecided as e:
            raise AnalysisError(f"Reader.open: mismatch test `{src(t)}` not evaluable: {e}")
        want = Poly.sym("NC") * Poly.sym("NS") * Poly.sym("I")
        want_items = Poly.sym("NC") * Poly.sym("NS")
        okt = {a.canon(), b.canon()} == {want.canon(), "S"} or {a.canon(), b.canon()} == {want_items.canon(), ev.atom("floordiv", Poly.sym("S"), Poly.sym("I")).canon()}
    ctx.check(okt, fi, tests[0], t, "any disagreement between announced and physical size triggers the correction",
              f"mismatch test `{src(t)}` is not nc*ns*itemsize != nbytes: shorter or longer files slip through uncorrected", key="mismatch-test")
    # the rewrite is conditional on nothing but the size disagreement (and the presence of metadata): an option that only concerns logging must not skip it
    from sa import guards as GD
    import itertools
    at = GD.Atoms()
    pcs = [GD.path_condition(cfg, cfg.node_for(st), at) for st in stores]
    pc_all = GD.Or(*pcs) if pcs else GD.FALSE
    names = GD.atoms_of(pc_all)
    if stores and len(names) <= 12:
        allowed = [k for k in names if any(w in k for w in ("nbytes", "st_size", "_raw.shape", "is_mtscomp", "self.meta", "fileSizeBytes"))]
        # the decoded shape held in a local (shape = self._raw.shape) is the same size disagreement
        du_a = DefUse(fi.node, cfg)
        for k in names:
            e_ = at.exprs.get(k)
            if k not in allowed and e_ is not None:
                for n_ in [x for x in ast.walk(e_) if isinstance(x, ast.Name)]:
                    ds_ = [d for d in du_a.defs if d.var == n_.id and d.kind == "assign" and d.value is not None]
                    if ds_ and all(any(w in src(d.value) for w in ("_raw.shape", "st_size", "nbytes")) for d in ds_):
                        allowed.append(k)
                        break
        if okt:
            allowed += [k for k in GD.atoms_of(GD.formula(t, at)) if k not in allowed]   # the size disagreement itself, however it is spelled
        for k in [x for x in names if x not in allowed]:
            others = [x for x in names if x != k]
            depends = None
            for bits in itertools.product((False, True), repeat=len(others)):
                val = dict(zip(others, bits))
                if GD._eval(pc_all, dict(val, **{k: True})) != GD._eval(pc_all, dict(val, **{k: False})):
                    depends = val
                    break
            st0 = stores[0]
            ctx.check(depends is None, fi, st0, f"{src(st0)} reached under {GD.show(pc_all)[:140]}", f"`{k}` does not decide whether the duration is repaired",
                      f"whether the duration is rewritten (`{src(st0)}`) depends on `{k}` (the rewrite is reached under: {GD.show(pc_all)[:200]}): for one value of it a file whose size "
                      "disagrees with its metadata keeps the announced sample count - np.memmap then raises (truncated file) or samples beyond the announcement stay hidden",
                      key="rewrite-unconditional:" + k[:40], name_free=True)
    fr = repo.fn("spikeglx.Reader.rl")
    for r in returns_of(fr.node):
        ev = _Ev(facts=Facts())
        p = ev.ev(r.value)
        ctx.check(p == Poly.sym("NS") * Poly.sym("FS").pow(-1), fr, r, r, "reported duration is ns / fs", f"reported duration is {p}", key="rl")
    fn_ = repo.fn("spikeglx.Reader.ns")
    last = returns_of(fn_.node)[-1]
    c = src(last.value)
    ctx.check("round" in c or "rint" in c, fn_, last, last, "ns rounds the float product (undoing float error of an integral frame count)",
              "ns truncates the float product: an integral frame count just below an integer loses a frame", key="ns-round")


def dS_shared(ctx):
    from sa.common import rule_no_shared_mutation
    rule_no_shared_mutation(ctx, "DS", ["spikeglx.Reader.open", "spikeglx.Reader.__init__", "spikeglx.Reader.ns", "spikeglx.Reader.shape"],
                            "the sample count / duration a reader reports depends on what another reader of the same file did")


def run(ctx):
    ctx.run(dS_shared)
    ctx.run(d1_floor)
    ctx.run(d2_order)
    from rules import C02
    ctx.run(C02.d5_cached_size, rule_id="D3", unconditional=True)
