"""C12 - LFP extraction equals low-pass plus decimation, independent of windowing (structural clauses)."""
import ast

from sa.algebra import Evaluator, Poly, Undecided
from sa.cfg import CFG
from sa.common import expand_name
from sa.defuse import DefUse, loc_name
from sa.model import AnalysisError, AnchorMissing, const_value, src, walk_function
from sa.struct import call_name, find, kwarg, norm, string_value
from rules import np2
from rules import C03

EXPLANATION = (
    "Decides structural necessary conditions of C12: (D1) the tiling identity of the window writer in LF samples for both "
    "NP2.4 and NP2.1 processing - stride/ratio + a_interior == b_interior, first window from 0, last window to window/ratio - "
    "with stride, margins and window proven multiples of the decimation ratio from init_params' own constants and asserts, "
    "so every window starts on the decimation grid; (D2) LFP data and LFP sync are both picked with [:, ::ratio] (phase 0, same "
    "ratio), decimation follows the zero-phase (sosfiltfilt) low-pass, the edge taper lies inside the discarded margin; "
    "(D3) LF metadata: imSampRate = fs_lf = 2500 with fs_lf * ratio == fs_ap, channel counts derive from the written column "
    "list. The filter response and 1-LSB agreement are NOT decided."
    " (D5) window-state coherence as in C03-D7. (D4 as built) two views of one buffer that are provably disjoint leading-axis ranges (B[:a] and B[b:] with a <= b under init_params' definitions) do not alias."
    ' (DS as built) an attribute bound to a memoised result in any method of the class is shared wherever it is read: in-place writes through its views are reported.'
)
ASSUMPTIONS = [
    "scipy.signal.sosfiltfilt is zero-phase; x[:, ::r] picks samples 0, r, 2r ... (model table)",
    "WindowGenerator behaves as decided by C17",
]

CLS = np2.CLS


def d1_tiling(ctx):
    ctx.rule("D1", "LF tiling identity in output samples for _process_NP24 and _process_NP21; windows start on the decimation grid")
    C03.tiling(ctx, CLS + "._process_NP24", "D1", ("lf",))
    C03.tiling(ctx, CLS + "._process_NP21", "D1", ("lf",))
    repo = ctx.repo
    ifi, env, facts = np2.init_env(repo)
    # the asserts that put window / overlap / taper on the ratio grid
    ratio = env.get("self.ratio")
    ok_assert = ratio is not None and ratio.const_value() is not None
    win = env.get("self.samples_window")
    if ok_assert:
        r = int(ratio.const_value())
        wsym = next(iter(win.symbols()), None) if win is not None else None
        on_grid = wsym is not None and r in facts.divides.get(wsym, set())
        ctx.check(on_grid, ifi, ifi.node, f"assert samples_window % {r} == 0", "window size is asserted to be a multiple of the ratio",
                  "the assertion that the window is a multiple of the decimation ratio is gone: windows start off the decimation grid", key="assert-window")
        for nm in ("self.samples_overlap", "self.samples_taper"):
            v = env.get(nm)
            cv = v.const_value() if v is not None else None
            okmul = cv is not None and cv.denominator == 1 and int(cv) % r == 0
            if not okmul and v is not None and cv is None:
                # k * <whole number> with r | k in every term (e.g. 48 * floordiv(.., 48))
                okmul = all(c_.denominator == 1 and int(c_) % r == 0 for c_ in v.t.values()) and \
                    all(all(e_ > 0 and ("floordiv(" in s_ or s_.startswith("int(")) for s_, e_ in m_) for m_ in v.t if m_ != ()) and () not in v.t or \
                    (all(c_.denominator == 1 and int(c_) % r == 0 for c_ in v.t.values()) and all(all(e_ > 0 and ("floordiv(" in s_ or s_.startswith("int(")) for s_, e_ in m_) for m_ in v.t if m_ != ()))
            ctx.check(okmul, ifi, ifi.node, f"{nm} = {v}", f"{nm} is a multiple of {r}",
                      f"{nm} = {v} is not a multiple of the ratio {r}", key="grid:" + nm)
    else:
        raise AnalysisError("init_params: decimation ratio is not a constant")
    # NP2.1 reads rows at first+offset : last+offset and otherwise the same bounds
    repo.fn(CLS + "._process_NP21")


def d2_decimation(ctx):
    ctx.rule("D2", "extract_lfp and extract_lfp_sync pick [:, ::ratio]; low-pass is zero-phase and precedes decimation; taper inside discarded margin")
    repo = ctx.repo
    picks = {}
    for q in (CLS + ".extract_lfp", CLS + ".extract_lfp_sync"):
        fi = repo.fn(q)
        found = []
        for s in find(fi.node, ast.Subscript, nested=False):
            el = s.slice.elts if isinstance(s.slice, ast.Tuple) else [s.slice]
            for i, e in enumerate(el):
                if isinstance(e, ast.Slice) and e.step is not None:
                    found.append((i, src(e.lower) if e.lower else None, src(e.upper) if e.upper else None, src(e.step), s))
        if not found:
            ctx.violation(fi, fi.node, "[:, ::ratio]", "no strided pick found: the stream is not decimated here", key="pick:" + q)
            continue
        picks[q] = found
        for axis, lo, up, step, s in found:
            ctx.check(axis == 1 and lo is None and up is None and step == "self.ratio", fi, s, s, "picks every ratio-th sample starting at sample 0 along time",
                      f"`{src(s)}`: decimation is not [:, ::self.ratio] (axis {axis}, start {lo}, stop {up}, step {step})", key="pick:" + q)
    fi = repo.fn(CLS + ".extract_lfp")
    cfg = CFG(fi.node)
    filt = [c for c in find(fi.node, ast.Call, nested=False) if call_name(c) in ("sosfiltfilt", "sosfilt", "filtfilt", "lfilt")]
    ctx.check(bool(filt) and all(call_name(c) in ("sosfiltfilt", "filtfilt") for c in filt), fi, filt[0] if filt else fi.node,
              filt[0] if filt else "sosfiltfilt", "low-pass is applied forward-backward (zero phase)",
              "the low-pass is missing or not zero-phase: the LFP is delayed relative to the AP stream", key="zero-phase")
    if filt and CLS + ".extract_lfp" in picks:
        fn = cfg.node_for(filt[0])
        for _, _, _, _, s in picks[CLS + ".extract_lfp"]:
            pn = cfg.node_for(s)
            # same statement: the pick is applied to the filter's own result ( sosfiltfilt(..)[:, ::ratio] )
            nested = fn.id == pn.id and any(n_ is filt[0] for n_ in ast.walk(s.value))
            ctx.check((cfg.must_pass([fn], pn) and fn.id != pn.id) or nested, fi, s, s, "decimation follows the anti-alias low-pass",
                      "decimation happens before (or without) the low-pass: aliasing", key="filter-first")
        # filter coefficients
        ok_sos = any(loc_name(c.args[0]) == "self.sos_lp" for c in filt if c.args)
        ctx.check(ok_sos, fi, filt[0], filt[0], "filter is the converter's low-pass", "filter coefficients are not self.sos_lp", key="sos")
    # taper region inside discarded margin: samples_taper <= 2*samples_taper margin; taper vector length == 2*taper
    ifi, env, facts = np2.init_env(repo)
    ev = Evaluator(env=env, facts=facts, resolve=lambda e: repo.resolve_expr(ifi, e))
    tl = None
    for st in walk_function(ifi.node):
        if isinstance(st, ast.Assign) and loc_name(st.targets[0]) == "self.taper":
            v = st.value
            from sa.struct import concat_parts
            parts = concat_parts(v)
            if parts is not None:
                n = Poly.const(0)
                for p in parts:
                    if isinstance(p, ast.Constant):
                        n = n + Poly.const(1)
                    elif isinstance(p, ast.Call) and call_name(p) == "cosine":
                        n = n + ev.ev(p.args[0])
                    elif isinstance(p, ast.Subscript) and isinstance(p.slice, ast.Slice) and p.slice.step is None and \
                            ((p.slice.lower is None and p.slice.upper is not None) or
                             (p.slice.upper is None and isinstance(p.slice.lower, ast.UnaryOp) and isinstance(p.slice.lower.op, ast.USub))):
                        # head x[:a] / tail x[-a:] of a longer vector: a points (the vector is at least a long: a window holds its ramps)
                        try:
                            n = n + (ev.ev(p.slice.upper) if p.slice.lower is None else ev.ev(p.slice.lower.operand))
                        except Undecided:
                            n = None
                            break
                    else:
                        n = None
                        break
                tl = n
    st_ = env.get("self.samples_taper")
    ctx.check(tl is not None and st_ is not None and tl == st_ * Poly.const(2), ifi, ifi.node, f"len(taper) = {tl}", "taper vector has 2 * samples_taper points",
              f"taper vector has {tl} points, expected 2 * samples_taper = {st_ * Poly.const(2) if st_ is not None else '?'}", key="taper-len")
    fi2, cases = np2.ind2save_cases(repo, env, facts, Poly.const(1), "ap")
    a_int = cases["interior"][0]
    ok_margin = st_ is not None and a_int.const_value() is not None and st_.const_value() is not None and a_int.const_value() >= st_.const_value()
    if not ok_margin and st_ is not None:
        # symbolic sizes: margin - taper is a sum of non-negative terms (positive coefficients on counts such as floordiv(min(..), k))
        d_ = a_int - st_
        ok_margin = all(c_ >= 0 for c_ in d_.t.values()) and all(all(("floordiv(" in s_ or "min(" in s_ or "int(" in s_) for s_, _ in m_) for m_ in d_.t if m_ != ())
    ctx.check(ok_margin, fi2, fi2.node,
              f"discarded margin {a_int} >= tapered {st_}", "tapered edge samples are never kept", "tapered samples reach the output", key="taper-margin")
    # taper slices in extract_lfp use samples_taper on both sides
    augs = [n for n in walk_function(fi.node) if isinstance(n, ast.AugAssign) and isinstance(n.op, ast.Mult)]
    sides = set()
    for a in augs:
        t = a.target
        if isinstance(t, ast.Subscript) and isinstance(t.slice, ast.Tuple) and isinstance(t.slice.elts[1], ast.Slice):
            sl = t.slice.elts[1]
            if sl.lower is None and loc_name(sl.upper) == "self.samples_taper":
                sides.add("head")
                ctx.check(norm(a.value) == norm(ast.parse("self.taper[: self.samples_taper]", mode="eval").body), fi, a, a, "head multiplied by the rising half",
                          "head taper half mismatched", key="taper-head")
            if sl.upper is None and isinstance(sl.lower, ast.UnaryOp) and loc_name(sl.lower.operand) == "self.samples_taper":
                sides.add("tail")
                ctx.check(norm(a.value) == norm(ast.parse("self.taper[self.samples_taper:]", mode="eval").body), fi, a, a, "tail multiplied by the falling half",
                          "tail taper half mismatched", key="taper-tail")
    if augs:
        ctx.check(sides == {"head", "tail"}, fi, fi.node, f"taper sides {sorted(sides)}", "both window edges are tapered over samples_taper samples",
                  "window edges are not tapered symmetrically over samples_taper samples", key="taper-sides")


def d4_sync_not_tapered(ctx):
    ctx.rule("D4", "the array that extract_lfp tapers/filters in place shares no buffer with the sync rows handed to _ind2save")
    repo = ctx.repo
    from sa.calls import bind
    from sa.common import buffer_roots, param_mutations, resolved_calls
    lfp = repo.fn(CLS + ".extract_lfp")
    ind = repo.fn(CLS + "._ind2save")
    mut_params = sorted({p for _, _, p in param_mutations(repo, lfp, [x for x in lfp.params if x != "self"])})
    if not mut_params:
        ctx.note("extract_lfp no longer modifies its argument in place: D4 holds trivially")
    n = 0
    for q in (CLS + "._process_NP24", CLS + "._process_NP21"):
        fi = repo.fn(q)
        du = DefUse(fi.node)
        tainted = set()
        tainted_args = []
        for c in resolved_calls(repo, fi, CLS + ".extract_lfp"):
            b = bind(c, lfp)
            for p in mut_params:
                if p in b.bound:
                    tainted |= buffer_roots(repo, fi, du, b.bound[p], c)
                    tainted_args.append((b.bound[p], c))
        for c in resolved_calls(repo, fi, CLS + "._ind2save"):
            b = bind(c, ind)
            sy = b.bound.get("chunk_sync")
            if sy is None:
                continue
            n += 1
            roots = buffer_roots(repo, fi, du, sy, c)
            shared = {r for r in roots & tainted if not r.startswith("fresh@")}
            if shared and tainted_args:
                # same buffer, but possibly disjoint leading-axis ranges:  B[:a] (tapered)  versus  B[b:] (sync) with a <= b
                rs = _leading_region(repo, fi, du, sy, c)
                if rs is not None and all(_disjoint(repo, rs, _leading_region(repo, fi, du, ta, tc)) for ta, tc in tainted_args):
                    ctx.ok(fi, c, f"sync rows {rs[3]} and tapered rows are disjoint ranges of one buffer", "sync words and the tapered rows are disjoint row ranges of the window buffer",
                           key="sync-alias:" + q)
                    continue
            ctx.check(not shared, fi, c, f"sync buffer roots {sorted(roots)} ; tapered buffer roots {sorted(tainted)}", "sync words are read from a buffer the low-pass stage never touches",
                      f"the sync handed to _ind2save is a view of the buffer {sorted(shared)} that extract_lfp tapers in place (its `{', '.join(mut_params)}` argument): the first and last "
                      "sync words of the file are scaled by the cosine ramp instead of being every 12th AP sync word", key="sync-alias:" + q)
    if n == 0:
        raise AnchorMissing("no _ind2save call with a sync argument found")


def _leading_region(repo, fi, du, e, at, depth=0):
    """(root name, lower expr or None, upper expr or None, text) when e is, through views that keep the leading axis (a repository
    helper returning a view of its argument, further slicing), a leading-axis slice ROOT[lo:hi] of a local buffer; else None."""
    from sa.calls import bind
    from sa.common import returns_view_of_param
    if depth > 6 or e is None:
        return None
    if isinstance(e, ast.Call):
        qn = repo.resolve_call(fi, e)
        if qn in repo.functions:
            callee = repo.functions[qn]
            p = returns_view_of_param(repo, callee)
            if p:
                # the returned view must keep the leading axis whole (x[:, ...]) - otherwise the region is only narrower, still inside
                return _leading_region(repo, fi, du, bind(e, callee).bound.get(p), at, depth + 1)
        return None
    if isinstance(e, ast.Name):
        d = du.single_def_value(e.id, at)
        if d is not None and d.kind == "assign" and d.value is not None and d.unpack_index is None:
            return _leading_region(repo, fi, du, d.value, d.stmt, depth + 1)
        return None
    if isinstance(e, ast.Subscript) and isinstance(e.value, ast.Name):
        sl = e.slice.elts[0] if isinstance(e.slice, ast.Tuple) and e.slice.elts else e.slice
        if isinstance(sl, ast.Slice) and sl.step is None:
            return (e.value.id, sl.lower, sl.upper, src(e))
        return None
    if isinstance(e, ast.Subscript):
        # a further view of a view: only column / stride selections that keep the leading axis are looked through
        sl = e.slice.elts[0] if isinstance(e.slice, ast.Tuple) and e.slice.elts else None
        if isinstance(sl, ast.Slice) and sl.lower is None and sl.upper is None and sl.step is None:
            return _leading_region(repo, fi, du, e.value, at, depth + 1)
    return None


def _disjoint(repo, r1, r2) -> bool:
    """ROOT[:a] and ROOT[b:] (either order) with b - a a non-negative constant under init_params' own definitions."""
    if r1 is None or r2 is None or r1[0] != r2[0]:
        return False
    ifi, env, facts = np2.init_env(repo)
    ev = Evaluator(env=env, facts=facts)
    for lo_side, hi_side in ((r1, r2), (r2, r1)):
        hi, lo = hi_side[2], lo_side[1]   # hi_side = ROOT[..:hi], lo_side = ROOT[lo:..]
        if hi is None or lo is None:
            continue
        try:
            d = (ev.ev(lo) - ev.ev(hi)).const_value()
        except Undecided:
            d = None
        if d is not None and d >= 0:
            return True
    return False


def d3_metadata(ctx):
    ctx.rule("D3", "LF metadata: imSampRate = fs_lf = 2500, fs_lf * ratio == fs_ap; channel counts from the written column list")
    repo = ctx.repo
    ifi, env, facts = np2.init_env(repo)
    fs_lf, fs_ap, ratio = env.get("self.fs_lf"), env.get("self.fs_ap"), env.get("self.ratio")
    ok = all(x is not None and x.const_value() is not None for x in (fs_lf, fs_ap, ratio))
    ctx.check(ok and fs_lf.const_value() == 2500, ifi, ifi.node, f"fs_lf = {fs_lf}", "LF rate is 2500 Hz", f"LF rate is {fs_lf}, the stream is specified at 2500 Hz", key="fs-lf")
    ctx.check(ok and fs_lf * ratio == fs_ap and ratio.const_value() == 12, ifi, ifi.node, f"fs_lf * ratio = {fs_lf * ratio if ok else '?'} ; fs_ap = {fs_ap}",
              "declared LF rate times the decimation ratio (12) is the AP rate", f"fs_lf * ratio = {fs_lf * ratio if ok else '?'} != fs_ap = {fs_ap}: the declared rate does not match the decimation",
              key="rate-identity")
    fi = repo.fn(CLS + "._writemetadata_lf")
    du = DefUse(fi.node)
    got = {}
    for st in walk_function(fi.node):
        if isinstance(st, ast.Assign) and isinstance(st.targets[0], ast.Subscript):
            t = st.targets[0]
            path = []
            cur = t
            while isinstance(cur, ast.Subscript):
                ok_, k = const_value(cur.slice)
                path.append(k if ok_ else src(cur.slice))
                cur = cur.value
            if loc_name(cur) == "meta_shank":
                got[tuple(reversed(path))] = st
    need = {("imSampRate",): "self.fs_lf", ("snsApLfSy", 0): "0", ("snsApLfSy", 1): "n_chns - 1", ("acqApLfSy", 0): "0", ("acqApLfSy", 1): "n_chns - 1",
            ("nSavedChans",): "n_chns"}
    for k, want in need.items():
        st = got.get(k)
        ctx.check(st is not None and norm(st.value) == norm(ast.parse(want, mode="eval").body), fi, st or fi.node, st or f"meta[{k}]", f"{k} = {want}",
                  f"LF metadata {k} is `{src(st.value) if st else 'not written'}`, expected {want}: the file would open with a shape/rate that does not match its content",
                  key="lf-meta:" + str(k))
    nd = [d for d in du.defs if d.var == "n_chns" and d.kind == "assign"]
    okn = bool(nd) and all(norm(d.value) == norm(ast.parse("len(self.shank_info[sh]['chns'])", mode="eval").body) for d in nd)
    ctx.check(okn, fi, nd[0].stmt if nd else fi.node, nd[0].stmt if nd else "n_chns", "channel count is the length of the written column list",
              "channel count is not derived from the written column list", key="n_chns")
    # size written is the lf file's own size
    st = got.get(("fileSizeBytes",))
    ctx.check(st is not None and "lf_file" in src(st.value) and "st_size" in src(st.value), fi, st or fi.node, st or "fileSizeBytes", "fileSizeBytes from the lf file",
              "fileSizeBytes is not the size of the lf file", key="lf-size")


def dS_shared(ctx):
    from sa.common import rule_no_shared_mutation
    rule_no_shared_mutation(ctx, "DS", ['neuropixel.NP2Converter.extract_lfp', 'neuropixel.NP2Converter.extract_lfp_sync', 'neuropixel.NP2Converter._process_NP21', 'neuropixel.NP2Converter._process_NP24', 'neuropixel.NP2Converter._writemetadata_lf'],
                            'the LFP of a later window depends on an earlier window')


def run(ctx):
    ctx.run(dS_shared)
    ctx.run(d1_tiling)
    ctx.run(d2_decimation)
    ctx.run(d3_metadata)
    ctx.run(d4_sync_not_tapered)
    ctx.run(np2.window_state_rule, "D5")
