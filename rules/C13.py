"""C13 - extracted waveforms equal the source data; saved files agree row by row (structural clauses)."""
import ast

from sa.algebra import Evaluator, Facts, Poly, Undecided
from sa.calls import bind, is_name
from sa.cfg import CFG, conjuncts
from sa.common import expand_name, resolved_calls, returns_of
from sa.defuse import DefUse, loc_name
from sa.model import AnalysisError, AnchorMissing, const_value, src, walk_function
from sa.struct import call_name, find, kwarg, norm

EXPLANATION = (
    "Decides structural necessary conditions of C13: (D1) the spike window parameters (trough_offset, spike_length_samples) "
    "and every other same-named setting are threaded through extract_wfs_cbin -> _make_wfs_table / write_wfs_chunk -> "
    "extract_wfs_array in the right slot; (D2) the per-unit index table is padded with a value outside the index domain "
    "(negative) and trimmed by a test on that value, never with 0 + nonzero (index 0 is a valid spike); (D3) chunk-local "
    "sample = sample + offset - i*chunk equals sample - (s0 - offset) because s0 = i*chunk (arange grid), the left margin is "
    "trough_offset for every chunk but the first and the right margin is length - trough_offset; (D4) the rows written "
    "(waveform_index) and the samples / peak channels extracted come from the same table slice, waveform_index being arange "
    "scattered through a permutation; (D5) extract_wfs_array gathers channel rows channel_neighbors[peak_channel] and sample "
    "columns sample - trough_offset + [0, length), row i with row i, and the neighbour table's pad index is the NaN row "
    "appended by add_nan_trace; (D6) spikes are admissible strictly inside the margins and each unit draws min(max_wf, n) "
    "without replacement. Equality with the source traces and chunk/worker independence of values are NOT decided."
    " (D6 as built) the admissibility mask is normalised to sample OP bound by linear algebra; arithmetic on the caller's spike-sample array before a signed cast is refused (unsigned spike times wrap); per-unit candidates may be selected by mask or by one stable sort + searchsorted grouping."
    ' (D4 as built) a block store rows[X[0]:X[-1]+1] needs a guard establishing that X is an increasing consecutive run (span == count alone is not enough); pairwise chunk bounds zip(B[:-1], B[1:]) are accepted.'
    ' (D3 cover-end) on every path to the fan-out the end of the last chunk is ns; a leading part of the arange grid is still the grid.'
    " (D7) a unit's template is the NaN-aware median (np.nanmedian) over rows first_index .. last_index inclusive along axis 0: the NaN padding of a waveform depends on that spike's own peak channel."
)
ASSUMPTIONS = [
    "np.arange(a, b, k)[i] == a + i*k; rng.choice(replace=False) returns distinct elements; stable argsort of group codes is a permutation",
    "joblib runs each delayed call exactly once with the bound arguments",
]

MOD = "ibldsp.waveform_extraction"


def _thread(ctx, caller_q, call, callee_q, required, label):
    repo = ctx.repo
    caller, callee = repo.fn(caller_q), repo.fn(callee_q)
    b = bind(call, callee)
    for e in b.errors:
        ctx.violation(caller, call, call, f"{label}: {e}", key=f"{label}:bind")
    shared = [p for p in callee.params if p in caller.params]
    for p in sorted(set(shared) | set(required)):
        arg = b.bound.get(p)
        if arg is None:
            if p in required or p in callee.defaults():
                ctx.violation(caller, call, f"{callee.qualname.split('.')[-1]}(... {p}=?)",
                              f"`{p}` is accepted by {caller.qualname.split('.')[-1]} but not passed on to {callee.qualname.split('.')[-1]}: the callee silently uses its default "
                              f"({src(callee.defaults()[p]) if p in callee.defaults() else 'none'})", key=f"{label}:{p}")
            continue
        ctx.check(is_name(arg, p), caller, call, f"{p}={src(arg)}", f"`{p}` threaded in its own slot",
                  f"parameter `{p}` of {callee.qualname.split('.')[-1]} receives `{src(arg)}` instead of the caller's `{p}` (argument order / wrong value)", key=f"{label}:{p}")
    return b


def d1_threading(ctx):
    ctx.rule("D1", "window parameters and same-named settings are threaded through the three call levels in their own slots")
    repo = ctx.repo
    fw = repo.fn(MOD + ".write_wfs_chunk")
    calls = resolved_calls(repo, fw, MOD + ".extract_wfs_array")
    if not calls:
        raise AnchorMissing("write_wfs_chunk: call to extract_wfs_array not found")
    b = _thread(ctx, MOD + ".write_wfs_chunk", calls[0], MOD + ".extract_wfs_array", ("trough_offset", "spike_length_samples"), "chunk->array")
    ant = b.bound.get("add_nan_trace")
    ctx.check(isinstance(ant, ast.Constant) and ant.value is True, fw, calls[0], calls[0], "the NaN row is appended for padded neighbour indices",
              "add_nan_trace=True is not passed: the neighbour table's pad index points past the data (IndexError) or at a real channel", key="chunk->array:add_nan_trace")
    fc = repo.fn(MOD + ".extract_wfs_cbin")
    tb = resolved_calls(repo, fc, MOD + "._make_wfs_table")
    if not tb:
        raise AnchorMissing("extract_wfs_cbin: call to _make_wfs_table not found")
    _thread(ctx, MOD + ".extract_wfs_cbin", tb[0], MOD + "._make_wfs_table", ("trough_offset", "spike_length_samples", "max_wf", "seed"), "cbin->table")
    # delayed(write_wfs_chunk)(...)
    dl = [c for c in find(fc.node, ast.Call, nested=False) if isinstance(c.func, ast.Call) and call_name(c.func) == "delayed" and c.func.args
          and repo.resolve_expr(fc, c.func.args[0]) == MOD + ".write_wfs_chunk"]
    if not dl:
        raise AnchorMissing("extract_wfs_cbin: delayed(write_wfs_chunk)(...) not found")
    b2 = _thread(ctx, MOD + ".extract_wfs_cbin", dl[0], MOD + ".write_wfs_chunk",
                 ("trough_offset", "spike_length_samples", "chunksize_samples", "reader_kwargs", "preprocess_steps", "channel_labels", "channel_neighbors"), "cbin->chunk")
    wa = b2.bound.get("wf_flat")
    okw = wa is not None and norm(wa) == norm(ast.parse(f"wf_flat.iloc[slices[{src(b2.bound.get('i_chunk'))}]]", mode="eval").body)
    ctx.check(okw, fc, dl[0], f"wf_flat={src(wa) if wa else None}", "chunk i receives the table rows whose samples fall in chunk i",
              "the table slice handed to chunk i is not wf_flat.iloc[slices[i]]", key="cbin->chunk:wf_flat")
    sls = [n for n in walk_function(fc.node) if isinstance(n, ast.Assign) and loc_name(n.targets[0]) == "slices"]
    if sls and "searchsorted(" in src(sls[0].value) and "wf_flat['sample']" not in src(sls[0].value):
        # the sorted sample column may be converted once and held in a local: wf_samples = wf_flat['sample'].to_numpy()
        import copy as _copy
        duc0 = DefUse(fc.node)

        class _Col(ast.NodeTransformer):
            def visit_Name(self, node):
                v = expand_name(duc0, node, sls[0])
                if v is not node:
                    w = v
                    while isinstance(w, ast.Call) and call_name(w) in ("to_numpy", "asarray", "array", "astype") and (isinstance(w.func, ast.Attribute) or w.args):
                        w = w.func.value if isinstance(w.func, ast.Attribute) and call_name(w) in ("to_numpy", "astype") else w.args[0]
                    if isinstance(w, ast.Subscript) and loc_name(w.value) == "wf_flat" and const_value(w.slice) == (True, "sample"):
                        return _copy.deepcopy(w)
                return node
        sls = [ast.copy_location(ast.Assign(targets=sls[0].targets, value=_Col().visit(_copy.deepcopy(sls[0].value))), sls[0])] + sls[1:]
        ast.fix_missing_locations(sls[0])
    oks = bool(sls) and "searchsorted(wf_flat['sample'], [s0_arr[i], s1_arr[i]])" in src(sls[0].value)
    if sls and not oks and isinstance(sls[0].value, ast.ListComp) and len(sls[0].value.generators) == 1:
        # for s0, s1 in zip(s0_arr, s1_arr): searchsorted(samples, [s0, s1])
        g_ = sls[0].value.generators[0]
        if isinstance(g_.target, ast.Tuple) and len(g_.target.elts) == 2 and isinstance(g_.iter, ast.Call) and call_name(g_.iter) == "zip" and len(g_.iter.args) == 2 \
                and [loc_name(x) for x in g_.iter.args] == ["s0_arr", "s1_arr"] and not g_.ifs:
            a_, b_ = (loc_name(x) for x in g_.target.elts)
            oks = f"searchsorted(wf_flat['sample'], [{a_}, {b_}])" in src(sls[0].value)
    if sls and not oks:
        # contiguous chunks: one search over the chunk edges r_[s0_arr, ns]; chunk i owns rows [bounds[i], bounds[i + 1])
        duc = DefUse(fc.node)
        v = sls[0].value
        if isinstance(v, ast.ListComp) and len(v.generators) == 1 and isinstance(v.elt, ast.Call) and call_name(v.elt) == "slice" and len(v.elt.args) == 2:
            it = loc_name(v.generators[0].target)
            a0, a1 = v.elt.args
            bounds_vec = None
            rng_ok = False
            if isinstance(a0, ast.Subscript) and isinstance(a1, ast.Subscript) and loc_name(a0.value) == loc_name(a1.value) and loc_name(a0.slice) == it \
                    and norm(a1.slice) == norm(ast.parse(f"{it} + 1", mode="eval").body):
                bounds_vec = a0.value
                rng_ok = isinstance(v.generators[0].iter, ast.Call) and call_name(v.generators[0].iter) == "range"
            else:
                # pairwise form: for lo, hi in zip(B[:-1], B[1:])  ->  slice(int(lo), int(hi))
                tg, itr = v.generators[0].target, v.generators[0].iter

                def _unint(e):
                    return e.args[0] if isinstance(e, ast.Call) and call_name(e) == "int" and len(e.args) == 1 else e
                if isinstance(tg, ast.Tuple) and len(tg.elts) == 2 and isinstance(itr, ast.Call) and call_name(itr) == "zip" and len(itr.args) == 2 \
                        and [loc_name(_unint(a0)), loc_name(_unint(a1))] == [loc_name(tg.elts[0]), loc_name(tg.elts[1])] and not v.generators[0].ifs:
                    z0, z1 = itr.args
                    if isinstance(z0, ast.Subscript) and isinstance(z1, ast.Subscript) and loc_name(z0.value) is not None and loc_name(z0.value) == loc_name(z1.value) \
                            and norm(z0.slice) == norm(ast.parse("x[:-1]", mode="eval").body.slice) and norm(z1.slice) == norm(ast.parse("x[1:]", mode="eval").body.slice):
                        bounds_vec = z0.value
                        rng_ok = True
            if bounds_vec is not None:
                a0 = ast.Subscript(value=bounds_vec, slice=ast.Constant(value=0), ctx=ast.Load())
                bd = expand_name(duc, a0.value, sls[0])
                while isinstance(bd, ast.Call) and call_name(bd) in ("astype", "asarray", "array") and (bd.args or isinstance(bd.func, ast.Attribute)):
                    bd = bd.func.value if call_name(bd) == "astype" else bd.args[0]
                if isinstance(bd, ast.Call) and call_name(bd) == "searchsorted" and len(bd.args) == 2 and "wf_flat['sample']" in src(bd.args[0]) \
                        and (kwarg(bd, "side") is None or const_value(kwarg(bd, "side")) == (True, "left")):
                    edges = expand_name(duc, bd.args[1], sls[0])
                    oks = rng_ok and norm(edges) == norm(ast.parse("np.r_[s0_arr, sr.ns]", mode="eval").body)
                    if rng_ok and not oks and norm(edges) == norm(ast.parse("np.r_[s0_arr, s1_arr[-1]]", mode="eval").body):
                        # the end of the last chunk closes the edges: right when the chunks are contiguous, s1_arr[i] == s0_arr[i + 1] (s1_arr = s0_arr + step over an arange of that step)
                        body_txt = [src(st_).replace(" ", "") for st_ in walk_function(fc.node) if isinstance(st_, ast.Assign)]
                        step_ = [t_[len("s1_arr=s0_arr+"):] for t_ in body_txt if t_.startswith("s1_arr=s0_arr+")]
                        oks = bool(step_) and any(t_.startswith("s0_arr=np.arange(0,") and t_.endswith("," + step_[0] + ")") for t_ in body_txt)
    ctx.check(oks, fc, sls[0] if sls else fc.node, sls[0] if sls else "slices", "row ranges come from searchsorted of the sorted samples at the chunk bounds",
              "chunk row ranges are not searchsorted(wf_flat['sample'], [s0, s1])", key="cbin->chunk:slices")
    return b2, dl[0]


def d2_padding(ctx):
    ctx.rule("D2", "index table is padded with a negative sentinel and trimmed by a test on it (never 0 + nonzero)")
    repo = ctx.repo
    fi = repo.fn(MOD + "._make_wfs_table")
    du = DefUse(fi.node)
    td = [d for d in du.defs if d.var == "unit_wf_idx" and d.kind == "assign"]
    if not td:
        raise AnchorMissing("_make_wfs_table: unit_wf_idx not found")
    v = td[0].value
    fill = None
    if isinstance(v, ast.Call) and call_name(v) == "full" and len(v.args) >= 2:
        ok, fill = const_value(v.args[1])
    elif isinstance(v, ast.Call) and call_name(v) in ("zeros", "zeros_like"):
        fill = 0
    elif isinstance(v, ast.Call) and call_name(v) in ("ones",):
        fill = 1
    elif isinstance(v, ast.BinOp) and isinstance(v.op, ast.Sub) and isinstance(v.left, ast.Call) and call_name(v.left) == "zeros":
        ok, c = const_value(v.right)
        fill = -c if ok else None
    ctx.check(isinstance(fill, (int, float)) and fill < 0, fi, td[0].stmt, td[0].stmt, "padding value lies outside the index domain",
              f"index table is padded with {fill!r}, which is itself a valid spike index: that spike cannot be told from padding", key="sentinel")
    trims = [n for n in walk_function(fi.node) if isinstance(n, ast.Assign) and loc_name(n.targets[0]) == "wf_idx" and isinstance(n.value, ast.Subscript)]
    okt = False
    detail = "no trimming found"
    for t in trims:
        s = t.value.slice
        cmp_ = find(s, ast.Compare)
        if cmp_ and loc_name(cmp_[0].left) == "wf_idx":
            op, rhs = cmp_[0].ops[0], const_value(cmp_[0].comparators[0])[1]
            okt = (isinstance(op, ast.GtE) and rhs == 0) or (isinstance(op, ast.Gt) and rhs == -1) or (isinstance(op, ast.NotEq) and rhs == fill)
            detail = src(t)
        elif "nonzero" in src(s):
            detail = src(t)
            okt = False
    ctx.check(okt, fi, trims[0] if trims else fi.node, detail, "padding is removed by testing for the sentinel", f"`{detail}`: padding is removed by position / non-zero test, dropping index 0 or keeping padding",
              key="trim")


def d3_offsets(ctx, bind_chunk, dl_call):
    ctx.rule("D3", "chunk-local sample == sample - (s0 - offset); left margin trough_offset (chunks > 0), right margin length - trough_offset")
    repo = ctx.repo
    fw = repo.fn(MOD + ".write_wfs_chunk")
    fc = repo.fn(MOD + ".extract_wfs_cbin")
    du = DefUse(fw.node)
    duc = DefUse(fc.node)
    cfg = du.cfg
    facts = Facts()
    # s0 grid from the caller: s0_arr = arange(0, ns, chunksize_samples); chunk i gets (s0_arr[i], s1_arr[i])
    sl = bind_chunk.bound.get("sr_sl")
    ic = bind_chunk.bound.get("i_chunk")
    grid_ok = False
    if isinstance(sl, ast.Tuple) and len(sl.elts) == 2 and isinstance(sl.elts[0], ast.Subscript) and loc_name(sl.elts[0].slice) == loc_name(ic):
        s0name = loc_name(sl.elts[0].value)
        d = duc.strong_reaching(s0name, dl_call)

        def _grid_def(dd):
            v_ = dd.value
            if dd.unpack_index is not None and isinstance(v_, ast.Tuple) and dd.unpack_index < len(v_.elts):
                v_ = v_.elts[dd.unpack_index]
            if isinstance(v_, ast.Call) and call_name(v_) == "arange" and len(v_.args) == 3:
                return const_value(v_.args[0]) == (True, 0) and loc_name(v_.args[2]) == "chunksize_samples"
            # a leading part of the grid is still the grid: chunk i starts at i * chunksize_samples
            if isinstance(v_, ast.Subscript) and loc_name(v_.value) == s0name and isinstance(v_.slice, ast.Slice) and v_.slice.lower is None and v_.slice.step is None:
                return True
            return False
        grid_ok = bool(d) and all(x.kind in ("assign", "unpack") and x.value is not None and _grid_def(x) for x in d) and \
            any(isinstance(x.value, ast.Call) and call_name(x.value) == "arange" for x in duc.defs if x.var == s0name and x.value is not None)
        if False:
            a0, _, step = d[0].value.args
        s1name = loc_name(sl.elts[1].value) if isinstance(sl.elts[1], ast.Subscript) else None
        grid_ok = grid_ok and s1name is not None and loc_name(sl.elts[1].slice) == loc_name(ic)
    ctx.check(grid_ok, fc, dl_call, f"sr_sl={src(sl) if sl else None}, i_chunk={src(ic) if ic else None}", "chunk i starts at i * chunksize_samples (arange grid) and is told so",
              "chunk bounds are not (s0_arr[i], s1_arr[i]) on the arange(0, ns, chunksize_samples) grid with i_chunk = i", key="grid")
    # the chunks reach the end of the recording: on every path to the fan-out the LAST chunk end is ns
    if isinstance(sl, ast.Tuple) and len(sl.elts) == 2 and isinstance(sl.elts[1], ast.Subscript):
        s0n, s1n = loc_name(sl.elts[0].value), loc_name(sl.elts[1].value)

        def run(stmts, state):
            for st in stmts:
                if any(x is dl_call for x in ast.walk(st)):
                    return state, True
                if isinstance(st, ast.If):
                    a_, da = run(st.body, dict(state))
                    b_, db = run(st.orelse, dict(state))
                    if da or db:
                        return (a_ if da else b_), True
                    state = {k_: (a_.get(k_) and b_.get(k_)) for k_ in set(a_) | set(b_)}
                    continue
                if not isinstance(st, ast.Assign) or len(st.targets) != 1:
                    continue
                tg, val = st.targets[0], st.value
                pairs = list(zip(tg.elts, val.elts)) if isinstance(tg, ast.Tuple) and isinstance(val, ast.Tuple) and len(tg.elts) == len(val.elts) else [(tg, val)]
                for t_, v_ in pairs:
                    if isinstance(t_, ast.Subscript) and loc_name(t_.value) == s1n and const_value(t_.slice) == (True, -1):
                        state["last_is_ns"] = src(v_).endswith("ns")
                    elif loc_name(t_) == s1n:
                        vt = src(v_).replace(" ", "")
                        if "minimum(" in vt and s0n in vt and vt.rstrip(")").endswith("ns"):
                            state["last_is_ns"] = bool(state.get("full_grid"))
                        else:
                            state["last_is_ns"] = False      # s0 + C overruns, a prefix of the ends stops short
                    elif loc_name(t_) == s0n:
                        state["full_grid"] = isinstance(v_, ast.Call) and call_name(v_) == "arange"
            return state, False
        final, _ = run(fc.node.body, {"last_is_ns": False, "full_grid": False})
        ctx.check(bool(final.get("last_is_ns")), fc, dl_call, f"last chunk end on the path to the fan-out: {'ns' if final.get('last_is_ns') else 'not established to be ns'}",
                  "the last chunk ends at the end of the recording (no admissible spike falls after the last chunk)",
                  "on some path to the fan-out the end of the LAST chunk is not set to ns (e.g. after dropping / folding a short trailing chunk the previous chunk keeps its own "
                  "end): spikes between that end and ns belong to no chunk - their rows in waveforms.traces.npy stay zero while the table lists them", key="cover-end", name_free=True)
    # callee side
    for case, first in (("first", True), ("other", False)):
        def assume(t, first=first):
            if isinstance(t, ast.Compare) and loc_name(t.left) == "i_chunk" and const_value(t.comparators[0]) == (True, 0):
                return first if isinstance(t.ops[0], ast.Eq) else (not first)
            return None
        env = {"s0": Poly.sym("I") * Poly.sym("C"), "i_chunk": Poly.sym("I"), "chunksize_samples": Poly.sym("C")}
        if first:
            env["s0"] = Poly.const(0)
            env["i_chunk"] = Poly.const(0)

        class E(Evaluator):
            def ev(self, e):
                if isinstance(e, ast.Subscript) and isinstance(e.slice, ast.Constant) and e.slice.value == "sample":
                    return Poly.sym("S")
                if isinstance(e, ast.Call) and call_name(e) in ("astype", "to_numpy", "copy") and isinstance(e.func, ast.Attribute):
                    return self.ev(e.func.value)
                if isinstance(e, ast.Attribute) and e.attr == "values":
                    return self.ev(e.value)
                if isinstance(e, ast.Call) and call_name(e) in ("asarray", "array", "int64", "int32") and len(e.args) >= 1:
                    return self.ev(e.args[0])
                return super().ev(e)
        ev = E(env=env, facts=facts, resolve=lambda e: repo.resolve_expr(fw, e), assume=assume)
        from sa.algebra import SymExec
        sx = SymExec(ev, on_undecided="havoc")
        for s in fw.node.body:
            if isinstance(s, ast.Assign) and loc_name(s.targets[0]) in ("offset", "sample"):
                sx.step(s)
            elif isinstance(s, ast.If) and "i_chunk" in src(s.test):
                sx.step(s)
            elif isinstance(s, ast.Assign) and isinstance(s.targets[0], ast.Tuple) and "s0" in src(s.targets[0]) and not first:
                pass
        off = ev.env.get("offset")
        local = ev.env.get("sample")
        if local is None:
            # the chunk-local sample column written in place: pd.DataFrame({"sample": <expr>, ...})
            for dct in find(fw.node, ast.Dict, nested=False):
                for k_, v_ in zip(dct.keys, dct.values):
                    if isinstance(k_, ast.Constant) and k_.value == "sample":
                        try:
                            local = ev.ev(v_)
                        except Undecided:
                            local = None
        reads = [x for x in find(fw.node, ast.Subscript, nested=False) if loc_name(x.value) == "my_sr" and isinstance(x.slice, ast.Tuple) and isinstance(x.slice.elts[0], ast.Slice)]
        if off is None or local is None or not reads:
            raise AnalysisError("write_wfs_chunk: offset / sample / snippet read not found")
        rs = reads[0].slice.elts[0]
        ev.env.setdefault("s1", Poly.sym("s1"))
        start, stop = ev.ev(rs.lower), ev.ev(rs.upper)
        want_local = Poly.sym("S") - start
        ctx.check(local == want_local, fw, reads[0], f"[{case}] local = {local} ; snippet starts at {start}", "chunk-local spike position equals its position inside the snippet read",
                  f"[{case} chunk] local sample is {local} but the snippet starts at {start}: waveforms are cut {(local - want_local)} samples off", key=f"local:{case}")
        T, L = Poly.sym("trough_offset"), Poly.sym("spike_length_samples")
        if first:
            ctx.check(off == Poly.const(0), fw, reads[0], f"[first] offset = {off}", "the first chunk starts at sample 0 (nothing to read before)", f"first chunk uses offset {off}", key="offset:first")
        else:
            ctx.check(off == T, fw, reads[0], f"[other] offset = {off}", "later chunks read trough_offset samples of left margin", f"left margin is {off}, a spike at the chunk start needs trough_offset samples before it",
                      key="offset:other")
        ctx.check(stop == Poly.sym("s1") + L - T, fw, reads[0], f"[{case}] snippet stops at {stop}", "right margin is spike_length_samples - trough_offset",
                  f"snippet stops at {stop}; a spike at the chunk end needs s1 + spike_length_samples - trough_offset", key=f"stop:{case}")
    # sync columns are cut off
    cols = reads[0].slice.elts[1]
    ctx.check(isinstance(cols, ast.Slice) and cols.lower is None and isinstance(cols.upper, ast.UnaryOp) and "nsync" in src(cols.upper), fw, reads[0], reads[0], "only voltage channels are read",
              "snippet includes the sync channel(s)", key="cols")


def d4_rows(ctx):
    ctx.rule("D4", "rows written and samples/peaks extracted come from the same table slice; waveform_index is a permutation of arange")
    repo = ctx.repo
    fw = repo.fn(MOD + ".write_wfs_chunk")
    du = DefUse(fw.node)
    st = [n for n in walk_function(fw.node) if isinstance(n, ast.Assign) and isinstance(n.targets[0], ast.Subscript) and loc_name(n.targets[0].value) == "wfs_mmap"]
    if not st:
        raise AnchorMissing("write_wfs_chunk: store into the memmap not found")
    from sa import guards as GD
    for s in st:
        row = s.targets[0].slice.elts[0] if isinstance(s.targets[0].slice, ast.Tuple) else s.targets[0].slice
        if isinstance(row, ast.Slice):
            # block write rows[X[0] : X[-1] + 1] = <all waveforms of the chunk>: row k of the block is X[0] + k, which is X[k] only when X is
            # an increasing run of consecutive integers - the guard has to establish exactly that
            lo, up = row.lower, row.upper
            okform = isinstance(lo, ast.Subscript) and const_value(lo.slice) == (True, 0) and isinstance(up, ast.BinOp) and isinstance(up.op, ast.Add) \
                and const_value(up.right) == (True, 1) and isinstance(up.left, ast.Subscript) and const_value(up.left.slice) == (True, -1) \
                and loc_name(lo.value) is not None and loc_name(lo.value) == loc_name(up.left.value) and row.step is None
            if not okform:
                raise AnalysisError(f"write_wfs_chunk: block store `{src(s.targets[0])[:70]}` not understood")
            xn = loc_name(lo.value)
            at_ = GD.Atoms()
            pc_ = GD.path_condition(du.cfg, du.cfg.node_for(s), at_)
            consecutive = False
            for k_ in GD.atoms_of(pc_):
                e_ = at_.exprs.get(k_)
                t_ = src(e_).replace(" ", "") if e_ is not None else ""
                if GD.entails(pc_, GD.Atom(k_)) is True and xn in t_ and (("diff(" in t_ and "==1" in t_ and "all(" in t_) or ("array_equal(" in t_ and "arange(" in t_)):
                    consecutive = True
            ctx.check(consecutive, fw, s, s, "rows are written as one block only when the row indices are an increasing run of consecutive integers",
                      f"`{src(s)[:80]}` writes the chunk's waveforms as one block of rows {xn}[0]..{xn}[-1] although the guard ({GD.show(pc_)[:140]}) does not establish that {xn} "
                      f"is increasing and consecutive: span == count also holds for an interleaved order such as [1, 6, 3] - row 6 is never written and a row of another unit is "
                      "overwritten (waveform_index is cluster-major while the chunk is in chronological order)", key="block-rows", name_free=True)
            rv = expand_name(du, lo.value, s)
        else:
            rv = expand_name(du, row, s)
        okrow = "wf_flat" in src(rv) and "waveform_index" in src(rv)
        sv = expand_name(du, s.value, s)
        call = next((c for c in find(sv, ast.Call) if call_name(c) == "extract_wfs_array"), None)
        okdf = False
        if call is not None:
            b = bind(call, repo.fn(MOD + ".extract_wfs_array"))
            dfv = expand_name(du, b.bound.get("df"), s)
            if isinstance(dfv, ast.Call) and call_name(dfv) == "DataFrame" and dfv.args and isinstance(dfv.args[0], ast.Dict):
                cols = {k.value: expand_name(du, v, s) for k, v in zip(dfv.args[0].keys, dfv.args[0].values)}
                okdf = set(cols) >= {"sample", "peak_channel"} and "wf_flat['sample']" in src(cols["sample"]) and "wf_flat['peak_channel']" in src(cols["peak_channel"])
            first = isinstance(sv, ast.Subscript) and const_value(sv.slice) == (True, 0)
            okdf = okdf and first
        ctx.check(okrow and okdf, fw, s, s, "row k of the chunk's table slice supplies both the destination row and the sample / peak channel of waveform k",
                  "destination rows and extracted samples/peaks do not come from the same rows of wf_flat", key="same-slice")
    ft = repo.fn(MOD + "._make_wfs_table")
    sc = [n for n in walk_function(ft.node) if isinstance(n, ast.Assign) and isinstance(n.targets[0], ast.Subscript) and "waveform_index" in src(n.targets[0]) and ".loc" in src(n.targets[0])]
    okp = False
    if sc:
        dut = DefUse(ft.node)
        t = sc[0].targets[0]
        idx = t.slice.elts[0] if isinstance(t.slice, ast.Tuple) else None
        iv = expand_name(dut, idx, sc[0]) if idx is not None else None
        okp = isinstance(iv, ast.Call) and call_name(iv) == "argsort" and isinstance(sc[0].value, ast.Call) and call_name(sc[0].value) == "arange" \
            and "wf_flat.shape[0]" in src(sc[0].value.args[0])
        kind = kwarg(iv, "kind") if isinstance(iv, ast.Call) else None
        okp = okp and const_value(kind) == (True, "stable")
    ctx.check(okp, ft, sc[0] if sc else ft.node, sc[0] if sc else "waveform_index", "destination rows are 0..n-1 scattered through a (stable) permutation: disjoint parallel writes, grouped by cluster",
              "waveform_index is not arange(n) scattered through a stable argsort: rows collide or are not grouped by cluster", key="perm")
    # columns of the table come from one index vector
    cols = [n for n in find(ft.node, ast.Dict) if {"sample", "cluster", "peak_channel"} <= {k.value for k in n.keys if isinstance(k, ast.Constant)}]
    okc = False
    if cols:
        d = cols[0]
        m = {k.value: v for k, v in zip(d.keys, d.values) if isinstance(k, ast.Constant)}
        want = {"sample": "spike_samples", "cluster": "spike_clusters", "peak_channel": "spike_channels"}
        okc = all(f"{arr}[wf_idx]" in src(m[c]) for c, arr in want.items())
    ctx.check(okc, ft, cols[0] if cols else ft.node, "sample/cluster/peak_channel = spike_*[wf_idx]", "all table columns are gathered with the same spike index vector",
              "table columns are gathered with different index vectors (rows would describe different spikes)", key="table-cols")
    ctx.check(any(isinstance(n, ast.Assign) and loc_name(n.targets[0]) == "wf_idx" and "sort" in src(n.value) for n in walk_function(ft.node)), ft, ft.node, "wf_idx = np.sort(...)",
              "waveforms are ordered chronologically (chunks are contiguous row ranges)", "spike indices are not sorted: chunk slices by searchsorted would be wrong", key="sorted")


def d5_gather(ctx):
    ctx.rule("D5", "extract_wfs_array: rows channel_neighbors[peak_channel], columns sample - trough_offset + [0, L), row i with row i; pad index == NaN row")
    repo = ctx.repo
    fi = repo.fn(MOD + ".extract_wfs_array")
    du = DefUse(fi.node)
    cd = [d for d in du.defs if d.var == "cind" and d.kind == "assign"]
    okc = bool(cd) and isinstance(cd[0].value, ast.Subscript) and loc_name(cd[0].value.value) == "channel_neighbors" and "peak_channel" in src(cd[0].value.slice)
    ctx.check(okc, fi, cd[0].stmt if cd else fi.node, cd[0].stmt if cd else "cind", "channel rows are the neighbourhood of the spike's peak channel", "channel rows are not channel_neighbors[peak_channel]", key="cind")
    sd = [d for d in du.defs if d.var == "sind" and d.kind == "assign"]
    p = None
    if sd:
        class E(Evaluator):
            def ev(self, e):
                if isinstance(e, ast.Call) and call_name(e) == "arange" and len(e.args) == 1:
                    return Poly.sym(f"K<{src(e.args[0])}>")
                if isinstance(e, ast.Subscript) and "sample" in src(e):
                    return Poly.sym("S")
                if isinstance(e, ast.Call) and call_name(e) == "to_numpy":
                    return self.ev(e.func.value)
                if isinstance(e, ast.Call) and call_name(e) in ("astype", "asarray", "array", "int64", "int32") and (e.args or isinstance(e.func, ast.Attribute)):
                    # integer casts of the sample numbers keep their values
                    return self.ev(e.func.value if (call_name(e) == "astype" and isinstance(e.func, ast.Attribute)) else e.args[0])
                return super().ev(e)
        try:
            ev_ = E()
            # locals the column expression is written with (first = samples - trough_offset ...)
            from sa.algebra import SymExec
            sx_ = SymExec(ev_, on_undecided="havoc")
            for st_ in fi.node.body:
                if st_ is sd[0].stmt:
                    break
                if isinstance(st_, ast.Assign) and all(isinstance(t_, (ast.Name, ast.Tuple)) for t_ in st_.targets):
                    sx_.step(st_)
            p = ev_.ev(sd[0].value)
        except Undecided:
            p = None
    want = Poly.sym("S") + Poly.sym("K<spike_length_samples>") - Poly.sym("trough_offset")
    ctx.check(p == want, fi, sd[0].stmt if sd else fi.node, f"sind = {p}", "sample columns are sample - trough_offset + 0..L-1", f"sample columns normalise to {p}, expected {want}", key="sind")
    g = [n for n in walk_function(fi.node) if isinstance(n, ast.Assign) and isinstance(n.targets[0], ast.Subscript) and loc_name(n.targets[0].value) == "wfs"]
    okg = False
    if g:
        t, v = g[0].targets[0], g[0].value
        ti = t.slice.elts[0] if isinstance(t.slice, ast.Tuple) else t.slice
        okg = norm(v) in (norm(ast.parse(f"arr[:, sind[{src(ti)}]][cind[{src(ti)}], :]", mode="eval").body),
                          norm(ast.parse(f"arr[cind[{src(ti)}], :][:, sind[{src(ti)}]]", mode="eval").body),
                          norm(ast.parse(f"arr[cind[{src(ti)}][:, np.newaxis], sind[{src(ti)}]]", mode="eval").body),
                          norm(ast.parse(f"arr[np.ix_(cind[{src(ti)}], sind[{src(ti)}])]", mode="eval").body),
                          norm(ast.parse(f"arr[cind[:, :, np.newaxis][{src(ti)}], sind[{src(ti)}]]", mode="eval").body),
                          norm(ast.parse(f"arr[cind[{src(ti)}, :, np.newaxis], sind[{src(ti)}]]", mode="eval").body),
                          norm(ast.parse(f"arr[cind[{src(ti)}][:, None], sind[{src(ti)}]]", mode="eval").body))
    if g and not okg:
        # block form: wfs[R] = arr[cind[R][:, :, None], sind[R][:, None, :]]  - rows R of both index tables, broadcast (spike, channel, sample)
        def _blocked(e):
            """(table name, row selector text, position of the inserted axis) of an index expression made of row selection and newaxis insertion on a 2-D index table"""
            chain = []
            cur = e
            while isinstance(cur, ast.Subscript):
                chain.append(cur.slice)
                cur = cur.value
            base = loc_name(cur)
            rows, newpos, ndim = None, None, 2
            for sl in reversed(chain):
                el = list(sl.elts) if isinstance(sl, ast.Tuple) else [sl]
                pos = 0
                for k_, x in enumerate(el):
                    is_new = (isinstance(x, ast.Constant) and x.value is None) or src(x) in ("np.newaxis", "numpy.newaxis")
                    if is_new:
                        if newpos is not None:
                            return None
                        newpos = pos
                        ndim += 1
                        pos += 1
                    elif isinstance(x, ast.Slice) and x.lower is None and x.upper is None and x.step is None:
                        pos += 1
                    elif k_ == 0 and isinstance(x, ast.Slice) and x.step is None and rows is None:
                        rows = norm(x)
                        pos += 1
                    else:
                        return None
            return base, rows, newpos
        t, v = g[0].targets[0], g[0].value
        tel = list(t.slice.elts) if isinstance(t.slice, ast.Tuple) else [t.slice]
        if isinstance(tel[0], ast.Slice) and all(isinstance(x, ast.Slice) and x.lower is None and x.upper is None for x in tel[1:]) and isinstance(v, ast.Subscript) \
                and loc_name(v.value) == "arr" and isinstance(v.slice, ast.Tuple) and len(v.slice.elts) == 2:
            a_, b_ = _blocked(v.slice.elts[0]), _blocked(v.slice.elts[1])
            okg = a_ is not None and b_ is not None and a_ == ("cind", norm(tel[0]), 2) and b_ == ("sind", norm(tel[0]), 1)
    ctx.check(okg, fi, g[0] if g else fi.node, g[0] if g else "wfs[i]", "waveform i = arr[cind[i] rows, sind[i] columns]", "waveform i is not gathered from row i of both index tables", key="gather")
    # NaN row
    vs = [c for c in find(fi.node, ast.Call, nested=False) if call_name(c) == "vstack"]
    okn = False
    if vs and vs[0].args and isinstance(vs[0].args[0], (ast.List, ast.Tuple)) and len(vs[0].args[0].elts) == 2:
        a, b = vs[0].args[0].elts
        nd = [d for d in du.defs if d.var == loc_name(b)]
        okn = loc_name(a) == "arr" and any("nan" in src(d.stmt) for d in nd if d.stmt is not None) and any("(1, arr.shape[1])" in src(d.value) for d in nd if d.value is not None)
        if not okn and loc_name(a) == "arr" and isinstance(b, ast.Call):
            # the row written in place: np.full((1, arr.shape[1]), np.nan) / np.nan * np.ones((1, arr.shape[1]))
            bt = src(b).replace(" ", "")
            okn = "(1,arr.shape[1])" in bt and "nan" in bt and call_name(b) in ("full", "ones", "empty", "zeros", "multiply") or \
                ("(1,arr.shape[1])" in bt and "nan" in bt)
    ctx.check(okn, fi, vs[0] if vs else fi.node, vs[0] if vs else "vstack", "exactly one all-NaN row is appended after the data rows", "the NaN trace is not one row appended after the data", key="nan-row")
    fm = repo.fn("ibldsp.utils.make_channel_index")
    dum = DefUse(fm.node)
    pv = [d for d in dum.defs if d.var == "pad_val" and d.kind == "assign"]
    def _is_nc(e_):
        return loc_name(e_) == "nc" or src(e_) in ("geom.shape[0]", "len(geom)")
    okp = bool(pv) and any(d.var == "nc" and d.value is not None and src(d.value) in ("geom.shape[0]", "len(geom)") for d in dum.defs) and all(
        _is_nc(d.value) or (isinstance(d.value, ast.IfExp) and "pad_val" in src(d.value.test) and "None" in src(d.value.test)
                            and (_is_nc(d.value.body) if isinstance(d.value.test, ast.Compare) and isinstance(d.value.test.ops[0], ast.Is) else _is_nc(d.value.orelse)))
        for d in pv)
    ctx.check(okp, fm, pv[0].stmt if pv else fm.node, pv[0].stmt if pv else "pad_val", "neighbour table is padded with nc = index of the appended NaN row", "pad index is not the number of channels (the NaN row's index)", key="pad-val")
    nb = [n for n in walk_function(fm.node) if isinstance(n, ast.Assign) and loc_name(n.targets[0]) == "neighbors"]
    okr = bool(nb) and any(isinstance(c.ops[0], ast.LtE) and loc_name(c.comparators[0]) == "radius" for c in find(nb[0].value, ast.Compare))
    ctx.check(okr, fm, nb[0] if nb else fm.node, nb[0] if nb else "neighbors", "neighbourhood is distance <= radius", "neighbourhood is not distance <= radius", key="radius")
    # np.flatnonzero(m) is normalised to np.where(m)[0] by sa/normalize.py; both list indices in ascending order
    fl = [c for c in find(fm.node, ast.Call) if call_name(c) in ("flatnonzero", "where", "nonzero") and len(c.args) == 1]
    ctx.check(bool(fl), fm, fm.node, "np.flatnonzero(neighbors[c, :])", "neighbours are listed in ascending channel order", "neighbour order is not ascending", key="ascending")


def _sorted_group_candidates(du, cand, at) -> bool:
    """cand = X[L[i]:R[i]] with X the admissible spike indices ordered by unit (X = A[P], keys K = spike_clusters[A][P], P = argsort of spike_clusters[A],
    A = where(allowed_idx)[0]) and L / R = searchsorted(K, unit_ids, side='left' / 'right'): the i-th unit's own admissible spikes."""
    def follow(e, st):
        """expand a Name to (value, defining stmt) once"""
        if isinstance(e, ast.Name):
            ds = du.strong_reaching(e.id, st)
            if len(ds) == 1 and ds[0].kind == "assign" and ds[0].value is not None and ds[0].unpack_index is None:
                return ds[0].value, ds[0].stmt
        return None, None

    def deep(e, st, n=6):
        for _ in range(n):
            v, s2 = follow(e, st)
            if v is None:
                return e, st
            e, st = v, s2
        return e, st
    v, st = deep(cand, at, 2)
    if not (isinstance(v, ast.Subscript) and isinstance(v.slice, ast.Slice) and v.slice.step is None and v.slice.lower is not None and v.slice.upper is not None):
        return False
    X = v.value
    bounds = []
    for bnd, side in ((v.slice.lower, "left"), (v.slice.upper, "right")):
        b, bst = deep(bnd, st, 2)
        if not isinstance(b, ast.Subscript):
            return False
        idx = b.slice
        ss, sst = deep(b.value, bst, 3)
        if not (isinstance(ss, ast.Call) and call_name(ss) == "searchsorted" and len(ss.args) >= 2):
            return False
        sd = kwarg(ss, "side")
        sval = sd.value if isinstance(sd, ast.Constant) else "left"
        if sval != side or loc_name(ss.args[1]) != "unit_ids":
            return False
        bounds.append((ss.args[0], sst, idx))
    if norm(bounds[0][2]) != norm(bounds[1][2]):
        return False
    # keys and candidates are the same admissible indices under the same (stable) ordering by unit
    K, kst = deep(bounds[0][0], bounds[0][1], 1)
    Xv, xst = deep(X, st, 1)
    if not (isinstance(K, ast.Subscript) and isinstance(Xv, ast.Subscript)):
        return False
    Pk, _ = deep(K.slice, kst, 2)
    Px, _ = deep(Xv.slice, xst, 2)
    if not (isinstance(Pk, ast.Call) and call_name(Pk) == "argsort" and norm(Pk) == norm(Px)):
        return False
    Kb, kbst = deep(K.value, kst, 2)          # spike_clusters[A]
    Xb, xbst = deep(Xv.value, xst, 2)         # A = where(allowed_idx)[0]
    okA = ("allowed_idx" in src(Xb)) and any(w in src(Xb) for w in ("where", "flatnonzero", "nonzero"))
    okK = isinstance(Kb, ast.Subscript) and loc_name(Kb.value) == "spike_clusters"
    if okK:
        Ka, _ = deep(Kb.slice, kbst, 2)
        okK = norm(Ka) == norm(Xb)
    sortkey, _ = deep(Pk.args[0], kst, 2) if Pk.args else (None, None)
    return bool(okA and okK and sortkey is not None and norm(sortkey) == norm(Kb))


def d6_selection(ctx):
    ctx.rule("D6", "admissible spikes strictly inside the margins; per unit min(max_wf, n) draws without replacement")
    repo = ctx.repo
    fi = repo.fn(MOD + "._make_wfs_table")
    du = DefUse(fi.node)
    ad = [d for d in du.defs if d.var == "allowed_idx" and d.kind == "assign"]
    if not ad:
        raise AnchorMissing("_make_wfs_table: allowed_idx not found")
    cmps = find(ad[0].value, ast.Compare)
    got = set()

    class ES(Evaluator):
        def ev(self, e):
            # integer casts / array views of the spike samples keep their values
            if isinstance(e, ast.Call) and call_name(e) in ("astype", "asarray", "array", "int64", "int32", "copy") and (e.args or isinstance(e.func, ast.Attribute)):
                return self.ev(e.func.value if (isinstance(e.func, ast.Attribute) and call_name(e) in ("astype", "copy")
                                                and not (isinstance(e.func.value, ast.Name) and e.func.value.id in ("np", "numpy"))) else e.args[0])
            return super().ev(e)
    ev = ES()
    from sa.algebra import SymExec
    sx = SymExec(ev, on_undecided="havoc")
    for st_ in fi.node.body:
        if st_ is ad[0].stmt:
            break
        if isinstance(st_, ast.Assign) and all(isinstance(t_, (ast.Name, ast.Tuple)) for t_ in st_.targets):
            sx.step(st_)
    S = Poly.sym("spike_samples")
    for c in cmps:
        try:
            d = ev.ev(c.left) - ev.ev(c.comparators[0])
        except Undecided:
            continue
        k = d.coeff("spike_samples")
        if k not in (1, -1) or "spike_samples" in (d - S * Poly.const(k)).canon():
            continue
        rest = -(d - S * Poly.const(k)) * Poly.const(k)     # S OP rest  (for k == +1) ; flipped operator for k == -1
        op = type(c.ops[0]).__name__
        if k == -1:
            op = {"Gt": "Lt", "Lt": "Gt", "GtE": "LtE", "LtE": "GtE"}.get(op, op)
        got.add((op, rest.canon()))
    # signedness: spike times come from the caller and may be unsigned (uint64 is what spike sorters write): a subtraction on them before any signed cast wraps
    # around for small values - the margin test then accepts spikes whose window starts before the recording
    du_ = du
    for b in find(fi.node, ast.BinOp):
        if isinstance(b.op, ast.Sub):
            l = b.left
            casted = False
            cur = l
            for _ in range(6):
                if isinstance(cur, ast.Call) and call_name(cur) == "astype" and cur.args and any(t in src(cur.args[0]) for t in ("int", "float")) and "uint" not in src(cur.args[0]):
                    casted = True
                    break
                if isinstance(cur, ast.Call) and call_name(cur) in ("asarray", "array", "copy", "atleast_1d"):
                    dt = kwarg(cur, "dtype")
                    if dt is not None and "uint" not in src(dt):
                        casted = True
                        break
                    cur = cur.args[0] if cur.args else (cur.func.value if isinstance(cur.func, ast.Attribute) else None)
                    continue
                if isinstance(cur, ast.Name) and cur.id != "spike_samples":
                    dd = du_.strong_reaching(cur.id, b)
                    if len(dd) == 1 and dd[0].kind == "assign" and dd[0].value is not None and dd[0].unpack_index is None:
                        cur = dd[0].value
                        continue
                break
            if not casted and loc_name(cur) == "spike_samples":
                ctx.violation(fi, b, b, f"`{src(b)[:70]}` subtracts from the caller's spike-sample array before any signed cast: spike times stored as unsigned integers (uint64, as spike "
                              "sorters write them) wrap around for spikes in the first samples of the recording, the margin test accepts them, and their waveforms are cut from the wrong place",
                              key="unsigned-sub", name_free=True)
    want = {("Gt", Poly.sym("trough_offset").canon()),
            ("Lt", (Poly.sym("sr.ns") - Poly.sym("spike_length_samples") + Poly.sym("trough_offset")).canon())}
    v0 = ad[0].value
    conj = (isinstance(v0, ast.BinOp) and isinstance(v0.op, ast.BitAnd)) or (isinstance(v0, ast.Call) and call_name(v0) == "logical_and")  # `&` is normalised to logical_and
    ctx.check(got == want and conj, fi, ad[0].stmt, f"{sorted(got)}",
              "a spike is admissible iff trough_offset < sample < ns - (length - trough_offset)", f"admissibility test is {sorted(got)}, expected {sorted(want)}", key="allowed")
    ch = [c for c in find(fi.node, ast.Call, nested=False) if call_name(c) == "choice"]
    okc = False
    if ch:
        c = ch[0]
        rep = kwarg(c, "replace")
        n = c.args[1] if len(c.args) > 1 else kwarg(c, "size")
        okn = n is not None and norm(n) in (norm(ast.parse("min(max_wf, nspikes)", mode="eval").body), norm(ast.parse("min(nspikes, max_wf)", mode="eval").body))
        cand = expand_name(du, c.args[0], c)
        okcand = "spike_clusters == u" in src(cand) and "allowed_idx" in src(cand)
        nsd = [d for d in du.defs if d.var == "nspikes" and d.kind == "assign"]
        okns = bool(nsd) and loc_name(c.args[0]) is not None and src(nsd[0].value) == f"{loc_name(c.args[0])}.shape[0]"
        if not (okn and okns) and n is not None and loc_name(c.args[0]) is not None:
            # the count written in place: min(max_wf, <candidates>.shape[0])
            cn = loc_name(c.args[0])
            okn = okns = norm(n) in (norm(ast.parse(f"min(max_wf, {cn}.shape[0])", mode="eval").body), norm(ast.parse(f"min({cn}.shape[0], max_wf)", mode="eval").body),
                                     norm(ast.parse(f"min(max_wf, len({cn}))", mode="eval").body), norm(ast.parse(f"min(max_wf, {cn}.size)", mode="eval").body))
        if not okcand:
            okcand = _sorted_group_candidates(du, c.args[0], c)
        okc = isinstance(rep, ast.Constant) and rep.value is False and okn and okcand and okns
    ctx.check(okc, fi, ch[0] if ch else fi.node, ch[0] if ch else "rng.choice", "each unit draws min(max_wf, n admissible) distinct spikes of its own",
              "per-unit draw is not rng.choice(<unit's admissible spikes>, min(max_wf, n), replace=False)", key="choice")
    rg = [d for d in du.defs if d.var == "rng" and d.kind == "assign"]
    ctx.check(bool(rg) and "seed=seed" in src(rg[0].value), fi, rg[0].stmt if rg else fi.node, rg[0].stmt if rg else "rng", "generator is seeded by the caller's seed", "the seed is not used", key="seed")


def dS_shared(ctx):
    from sa.common import rule_no_shared_mutation
    rule_no_shared_mutation(ctx, "DS", ['ibldsp.waveform_extraction.extract_wfs_array', 'ibldsp.waveform_extraction._make_wfs_table', 'ibldsp.waveform_extraction.write_wfs_chunk', 'ibldsp.waveform_extraction.extract_wfs_cbin', 'ibldsp.waveform_extraction.WaveformsLoader.load_waveforms', 'ibldsp.utils.make_channel_index'],
                            'a later request returns rows / samples selected by a mask or table an earlier request narrowed: the loader no longer returns what was saved')


def d7_templates(ctx):
    ctx.rule("D7", "a unit's template is the NaN-aware median over exactly its rows of the traces file (first_index .. last_index inclusive), along the waveform axis")
    repo = ctx.repo
    fc = repo.fn(MOD + ".extract_wfs_cbin")
    du = DefUse(fc.node)
    from sa.common import expand_deep
    st = [n for n in walk_function(fc.node) if isinstance(n, ast.Assign) and isinstance(n.targets[0], ast.Subscript) and "template" in (loc_name(n.targets[0].value) or "")]
    if not st:
        raise AnchorMissing("extract_wfs_cbin: no store into the templates array")
    NAN_AWARE = {"nanmedian": "median ignoring NaN"}
    PLAIN = {"median": "nanmedian", "mean": "nanmean", "quantile": "nanquantile", "percentile": "nanpercentile"}
    for n in st:
        v = expand_deep(du, n.value, n)
        while isinstance(v, ast.Call) and call_name(v) in ("astype", "float32", "asarray") and (v.args or isinstance(v.func, ast.Attribute)):
            v = v.func.value if call_name(v) == "astype" else v.args[0]
        if not (isinstance(v, ast.Call) and v.args):
            raise AnalysisError(f"extract_wfs_cbin: template value `{src(n.value)[:60]}` is not a reduction call")
        fn = call_name(v)
        # the traces carry NaN rows: extract_wfs_array pads every neighbourhood to a fixed number of rows with the NaN row, and the number of padding rows depends
        # on the peak channel of the individual SPIKE (probe ends), not on the unit
        ctx.check(fn in NAN_AWARE, fc, n, f"{fn}(...)", "templates ignore the NaN padding rows of individual waveforms",
                  f"`{src(n)[:90]}` reduces with np.{fn}: the traces hold NaN padding rows whose number depends on each spike's own peak channel (probe ends), so for a unit whose spikes "
                  f"do not all share one peak channel a row that is NaN in a single waveform becomes NaN in the template although the other waveforms have data there - the template is no "
                  f"longer the median of that unit's rows of the traces file (use np.{PLAIN.get(fn, 'nanmedian')})", key="template-nan", name_free=True)
        ax = kwarg(v, "axis") or (v.args[1] if len(v.args) > 1 else None)
        ctx.check(ax is not None and const_value(ax) == (True, 0), fc, n, f"axis={src(ax) if ax is not None else None}", "the reduction runs over the unit's waveforms (axis 0)",
                  "the template is not reduced along the waveform axis", key="template-axis", name_free=True)
        rows = v.args[0]
        okr = isinstance(rows, ast.Subscript) and isinstance(rows.slice, ast.Slice) and rows.slice.step is None and rows.slice.lower is not None and rows.slice.upper is not None \
            and src(rows.slice.lower).endswith("first_index") and src(rows.slice.upper).replace(" ", "").endswith("last_index+1")
        ctx.check(okr, fc, n, f"rows {src(rows.slice) if isinstance(rows, ast.Subscript) else src(rows)[:40]}", "the rows are first_index .. last_index inclusive",
                  f"the template of a unit is computed over rows `{src(rows)[:60]}`, not [first_index : last_index + 1] of the traces", key="template-rows", name_free=True)


def run(ctx):
    ctx.run(dS_shared)
    r = ctx.run(d1_threading)
    ctx.run(d2_padding)
    if r is not None:
        ctx.run(d3_offsets, r[0], r[1])
    else:
        ctx.errors.append(("D3", "not evaluated: depends on the call binding found by D1"))
    ctx.run(d4_rows)
    ctx.run(d5_gather)
    ctx.run(d6_selection)
    ctx.run(d7_templates)
