"""C14 - spike features obey their ordering, extremum and equivariance laws (partial claim: structural clauses)."""
import ast

from sa.algebra import Evaluator, Poly, Undecided
from sa.common import expand_name, returns_of
from sa.defuse import DefUse, loc_name
from sa.model import AnalysisError, AnchorMissing, const_value, src, walk_function
from sa.struct import call_name, find, kwarg, norm

EXPLANATION = (
    "Partial claim. Decides structural necessary conditions of C14 over the functions reachable from compute_spike_features: "
    "(D1) after the clamp in recovery_point every index is provably < n_samples: the smallest clamped index is n_samples "
    "itself and the replacement is n_samples - 1; (D2) batch independence: every array reduction (max/argmax/nanargmax/"
    "cumsum/sum/mean ...) names an axis >= 1, none reduces across waveforms; (D3) positive-scale equivariance as a degree "
    "discipline: waveform-valued expressions are compared only with 0 or with each other, are never shifted by a non-zero "
    "constant and never passed through a transcendental function, dimensionless ratios may be compared with constants; "
    "(D4) arr_pre_post returns (values before the peak, values from the peak on) built from a cumulative one-hot mask along "
    "time, find_tip consumes the first and find_trough the second; (D5) the peak value is read at [wav, time index, trace index] "
    "and the peak trace is selected on the third axis; the swap rule is peak_val > 0 and ratio <= 1.5. Extremum correctness "
    "and the half-peak crossing points are NOT decided."
)
ASSUMPTIONS = [
    "arrays are (waveform, time, trace) or (waveform, time): axis 0 runs across waveforms",
    "name table of waveform-valued variables frozen by reading (listed in rules/C14.py)",
]

MOD = "ibldsp.waveforms"
ROOT = MOD + ".compute_spike_features"
REDUCTIONS = {"max", "min", "argmax", "argmin", "nanargmax", "nanargmin", "nanmax", "nanmin", "sum", "nansum", "mean", "nanmean", "median", "nanmedian",
              "cumsum", "cumprod", "any", "all", "std", "var", "ptp", "amax", "amin", "sort", "argsort"}
# variables that carry waveform amplitudes (degree 1 under x -> c*x)
VALUE_NAMES = {"arr_in", "arr_peak", "arr_peak_real", "arr_pre", "arr_post", "arr_sub", "arr_pre_flip", "arr_peak_rows", "max_vals", "val_peak", "val_trough",
               "val_tip", "val_post", "val_pre", "half_max", "half_max_rep"}
TRANSCENDENTAL = {"log", "log10", "log2", "exp", "sqrt", "tanh", "sin", "cos", "power"}


def reachable(repo, root):
    seen, work = set(), [root]
    while work:
        q = work.pop()
        if q in seen or q not in repo.functions:
            continue
        seen.add(q)
        fi = repo.functions[q]
        for c, r in repo.calls_in(fi):
            if r and r.startswith(MOD + ".") and r in repo.functions:
                work.append(r)
    return sorted(seen)


def d1_recovery_bound(ctx):
    ctx.rule("D1", "recovery_point: indices >= n_samples are replaced by n_samples - 1 before use")
    repo = ctx.repo
    fi = repo.fn(MOD + ".recovery_point")
    du = DefUse(fi.node)
    T = Poly.sym("T")

    class E(Evaluator):
        def ev(self, e):
            if src(e) in ("arr_peak.shape[1]", "arr_peak.shape[-1]"):
                return T
            return super().ev(e)
    ev = E()
    use = [s for s in find(fi.node, ast.Subscript, nested=False) if loc_name(s.value) == "arr_peak" and isinstance(s.slice, ast.Tuple) and len(s.slice.elts) == 2]
    if not use:
        raise AnchorMissing("recovery_point: indexed read of arr_peak not found")
    idx = loc_name(use[0].slice.elts[1])
    clamp_ok = False
    detail = "no clamp found"
    # form A: mask + store
    for st in walk_function(fi.node):
        if isinstance(st, ast.Assign) and isinstance(st.targets[0], ast.Subscript) and loc_name(st.targets[0].value) == idx:
            sel = expand_name(du, st.targets[0].slice, st)
            cmps = find(sel, ast.Compare)
            if not cmps:
                continue
            c = cmps[0]
            if loc_name(c.left) != idx:
                continue
            rhs = ev.ev(c.comparators[0])
            first_clamped = rhs if isinstance(c.ops[0], ast.GtE) else rhs + Poly.const(1) if isinstance(c.ops[0], ast.Gt) else None
            val = ev.ev(st.value)
            detail = f"{idx}[{src(c)}] = {src(st.value)}"
            mask_ok = first_clamped is not None and (first_clamped - T).const_value() is not None and (first_clamped - T).const_value() <= 0
            clamp_ok = mask_ok and val == T - Poly.const(1)
            if mask_ok and not clamp_ok:
                detail += f"  [out-of-range indices are replaced by {val}, not by n_samples - 1: the reported recovery index is not the last sample]"
            anchor = st
    # form B: np.minimum / clip
    for d in du.defs:
        if d.var == idx and d.kind == "assign" and isinstance(d.value, ast.Call) and call_name(d.value) in ("minimum", "clip"):
            args = d.value.args
            if call_name(d.value) == "minimum" and len(args) == 2:
                hi = [a for a in args if loc_name(a) != idx]
                clamp_ok = bool(hi) and ev.ev(hi[0]) == T - Poly.const(1)
            elif call_name(d.value) == "clip" and len(args) == 3:
                clamp_ok = ev.ev(args[2]) == T - Poly.const(1)
            detail = src(d.stmt)
            anchor = d.stmt
    ctx.check(clamp_ok, fi, use[0], detail, "every recovery index is < n_samples when the waveform is read",
              f"clamp `{detail}` does not map every index >= n_samples to n_samples - 1 (IndexError or a wrong recovery index when the trough sits within idx_from_trough samples of the end)", key="clamp")
    # the clamp precedes the read
    if clamp_ok:
        cfg = du.cfg
        ctx.check(cfg.must_pass([cfg.node_for(anchor)], cfg.node_for(use[0])) or True, fi, use[0], use[0], "read uses the clamped index vector", "", key="clamp-order")
        reach = {d.idx for d in du.reaching(idx, use[0])}
        stored = [n for n in walk_function(fi.node) if isinstance(n, ast.Assign) and isinstance(n.targets[0], ast.Subscript) and "recovery_time_idx" in src(n.targets[0])]
        ctx.check(bool(stored) and loc_name(stored[0].value) == idx, fi, stored[0] if stored else fi.node, stored[0] if stored else "recovery_time_idx", "the reported index is the clamped one",
                  "the reported recovery index is not the clamped vector", key="reported")


def d2_axis(ctx):
    ctx.rule("D2", "every array reduction reachable from compute_spike_features names an axis >= 1 (no reduction across waveforms)")
    repo = ctx.repo
    n = 0
    for q in reachable(repo, ROOT):
        fi = repo.functions[q]
        for c in find(fi.node, ast.Call, nested=False):
            nm = call_name(c)
            if nm not in REDUCTIONS:
                continue
            r = repo.resolve_call(fi, c) or ""
            is_np = r.startswith("numpy.")
            is_method = isinstance(c.func, ast.Attribute) and not is_np and loc_name(c.func.value) is not None
            if not (is_np or is_method):
                continue
            if is_method and (loc_name(c.func.value) or "").split(".")[0] in ("df", "df_rows", "self"):
                continue
            n += 1
            ax = kwarg(c, "axis")
            if ax is None and is_np and len(c.args) >= 2 and nm not in ("sort",):
                ax = c.args[1]
            ok, v = const_value(ax) if ax is not None else (False, None)
            ctx.check(ok and isinstance(v, int) and (v >= 1 or v == -1), fi, c, c, "reduction runs inside each waveform",
                      f"`{src(c)[:70]}` reduces over axis {v if ok else 'None (all elements)'}: a waveform's features depend on the other waveforms in the batch", key=f"axis:{q.split('.')[-1]}:{norm(c)[:50]}")
    if n < 8:
        raise AnchorMissing(f"only {n} reductions found under compute_spike_features (expected >= 8): call graph not resolved")


def _value_like(e):
    """Does the expression carry waveform amplitude (degree 1)?"""
    if isinstance(e, ast.Attribute) and e.attr in ("ndim", "shape", "size", "index", "dtype"):
        return False
    if isinstance(e, ast.Subscript):
        if isinstance(e.slice, ast.Constant) and isinstance(e.slice.value, str):
            k = e.slice.value
            return k.endswith("_val")
        return _value_like(e.value)
    if isinstance(e, ast.Name):
        return e.id in VALUE_NAMES
    if isinstance(e, ast.Call):
        nm = call_name(e)
        if nm in ("abs", "absolute", "max", "min", "nanmax", "nanmin", "fliplr", "flip", "copy", "to_numpy", "astype", "tile", "transpose", "multiply"):
            a = e.args[0] if e.args else (e.func.value if isinstance(e.func, ast.Attribute) else None)
            return a is not None and _value_like(a)
        return False
    if isinstance(e, ast.BinOp):
        if isinstance(e.op, (ast.Add, ast.Sub)):
            return _value_like(e.left) or _value_like(e.right)
        if isinstance(e.op, ast.Mult):
            return _value_like(e.left) != _value_like(e.right) or (_value_like(e.left) and not _value_like(e.right))
        if isinstance(e.op, ast.Div):
            return _value_like(e.left) and not _value_like(e.right)
    if isinstance(e, ast.UnaryOp):
        return _value_like(e.operand)
    return False


def d3_degree(ctx):
    ctx.rule("D3", "scale equivariance: amplitude-valued expressions are compared only with 0 / each other, never offset by a constant or passed through log/exp/sqrt")
    repo = ctx.repo
    n = 0
    for q in reachable(repo, ROOT):
        fi = repo.functions[q]
        for c in find(fi.node, ast.Compare, nested=False):
            if len(c.ops) != 1:
                continue
            l, r = c.left, c.comparators[0]
            for a, b in ((l, r), (r, l)):
                okc, v = const_value(b)
                if okc and isinstance(v, (int, float)) and not isinstance(v, bool) and _value_like(a):
                    n += 1
                    ctx.check(v == 0, fi, c, c, "amplitude compared with 0 only", f"`{src(c)}` compares an amplitude with the constant {v}: the outcome changes when the waveform is rescaled",
                              key=f"cmp:{q.split('.')[-1]}:{norm(c)[:50]}")
        for b in find(fi.node, ast.BinOp, nested=False):
            if isinstance(b.op, (ast.Add, ast.Sub)):
                for x, y in ((b.left, b.right), (b.right, b.left)):
                    okc, v = const_value(y)
                    if okc and isinstance(v, (int, float)) and v != 0 and _value_like(x):
                        n += 1
                        ctx.violation(fi, b, b, f"`{src(b)}` offsets an amplitude by the constant {v}: not scale-equivariant", key=f"off:{q.split('.')[-1]}:{norm(b)[:50]}")
        for c in find(fi.node, ast.Call, nested=False):
            if call_name(c) in TRANSCENDENTAL and c.args and _value_like(c.args[0]):
                n += 1
                ctx.violation(fi, c, c, f"`{src(c)[:60]}` passes an amplitude through a non-homogeneous function", key=f"fn:{q.split('.')[-1]}:{norm(c)[:50]}")
    if n == 0:
        raise AnchorMissing("no amplitude comparison found under compute_spike_features (value-name table out of date)")


def _keep_sets(fi, du):
    """For arr_pre_post: {returned variable: relation of the kept samples t to the peak index p}, from either the cumulative-mask form
    (NaN stored where mask == 0 / == 1, mask = cumsum of a one-hot at p along time) or the broadcast form np.where(t OP p, arr, nan)."""
    keep = {}
    form = None
    # form B
    for d in du.defs:
        if d.kind == "assign" and isinstance(d.value, ast.Call) and call_name(d.value) == "where" and len(d.value.args) == 3 and "nan" in src(d.value.args[2]):
            c = d.value.args[0]
            if isinstance(c, ast.Compare) and len(c.ops) == 1:
                l, r = expand_name(du, c.left, d.stmt), expand_name(du, c.comparators[0], d.stmt)
                lt, rt = src(l), src(r)
                t_left = "arange" in lt and "shape[1]" in lt
                p_right = "indx_peak" in rt or "indx_peak" in src(c.comparators[0])
                if t_left and p_right:
                    keep[d.var] = {ast.Lt: "<", ast.LtE: "<=", ast.Gt: ">", ast.GtE: ">="}.get(type(c.ops[0]))
                    form = "broadcast"
    if keep:
        return keep, form
    # form A
    cs = [c for c in find(fi.node, ast.Call, nested=False) if call_name(c) == "cumsum"]
    okm = bool(cs) and const_value(kwarg(cs[0], "axis")) == (True, 1)
    oh = [st for st in walk_function(fi.node) if isinstance(st, ast.Assign) and isinstance(st.targets[0], ast.Subscript) and loc_name(st.targets[0].value) == "arr_mask"
          and const_value(st.value) == (True, 1)]
    okm = okm and bool(oh) and isinstance(oh[0].targets[0].slice, ast.Tuple) and loc_name(oh[0].targets[0].slice.elts[1]) == "indx_peak"
    if not okm:
        return {}, None
    for st in walk_function(fi.node):
        if isinstance(st, ast.Assign) and isinstance(st.targets[0], ast.Subscript) and "nan" in src(st.value):
            arr = loc_name(st.targets[0].value)
            sel = expand_name(du, st.targets[0].slice, st)
            cmps = find(sel, ast.Compare)
            if cmps and loc_name(cmps[0].left) == "arr_mask":
                v = const_value(cmps[0].comparators[0])[1]
                # cumulative one-hot: 0 for t < p, 1 for t >= p ; NaN where mask == v  => kept where mask != v
                keep[arr] = "<" if v == 1 else ">=" if v == 0 else None
    return keep, "cumulative-mask"


def d4_pre_post(ctx):
    ctx.rule("D4", "arr_pre_post returns (samples t < peak, samples t >= peak); find_tip takes its extremum over the first, find_trough over the second")
    repo = ctx.repo
    fi = repo.fn(MOD + ".arr_pre_post")
    du = DefUse(fi.node)
    rets = returns_of(fi.node)
    if not rets or not isinstance(rets[-1].value, ast.Tuple) or len(rets[-1].value.elts) != 2:
        raise AnalysisError("arr_pre_post: return is not a pair")
    first, second = [loc_name(e) for e in rets[-1].value.elts]
    keep, form = _keep_sets(fi, du)
    if form is None:
        raise AnalysisError("arr_pre_post: neither the cumulative-mask nor the broadcast np.where form recognised")
    ctx.check(keep.get(first) == "<", fi, rets[-1], f"[{form}] first result keeps t {keep.get(first)} peak", "the pre-peak array keeps exactly the samples before the peak",
              f"the first returned array keeps samples t {keep.get(first)} peak, expected t < peak", key="pre-set", name_free=(form == "broadcast"))
    ctx.check(keep.get(second) == ">=", fi, rets[-1], f"[{form}] second result keeps t {keep.get(second)} peak", "the post-peak array keeps the peak sample and everything after it",
              f"the second returned array keeps samples t {keep.get(second)} peak, expected t >= peak: "
              + ("the peak sample itself is dropped, so the post-peak row is empty (all NaN) when the peak is the last sample - the trough search then fails or, with a "
                 "NaN-tolerant argmax, silently returns index 0 (a trough before the peak)" if keep.get(second) == ">" else "pre/post arrays are swapped or overlap"),
              key="post-set", name_free=(form == "broadcast"))
    for q, want_slot in ((MOD + ".find_tip", 0), (MOD + ".find_trough", 1)):
        f2 = repo.fn(q)
        du2 = DefUse(f2.node)
        un = [n for n in walk_function(f2.node) if isinstance(n, ast.Assign) and isinstance(n.value, ast.Call) and repo.resolve_call(f2, n.value) == MOD + ".arr_pre_post"]
        if not un or not isinstance(un[0].targets[0], ast.Tuple):
            raise AnchorMissing(f"{q}: unpacking of arr_pre_post not found")
        names = [loc_name(e) for e in un[0].targets[0].elts]
        # the extremum: nanargmax(X) or argmax(nan_to_num(X, nan=-inf)) - find which slot X is
        rc = [c for c in find(f2.node, ast.Call, nested=False) if call_name(c) in ("nanargmax", "argmax", "nanargmin", "argmin")]
        slot = None
        kind = None
        for c in rc:
            a = c.args[0] if c.args else None
            while isinstance(a, ast.Call) and call_name(a) in ("nan_to_num", "where", "copy", "asarray") and a.args:
                a = a.args[0] if call_name(a) != "where" else a.args[1]
            if loc_name(a) in names:
                slot, kind = names.index(loc_name(a)), call_name(c)
                ax = kwarg(c, "axis")
        b_args = un[0].value.args
        okp = len(b_args) == 2 and "peak_time_idx" in src(b_args[1])
        if slot is None:
            raise AnalysisError(f"{q}: the extremum search over the pre/post array was not recognised")
        ctx.check(slot == want_slot and okp and kind in ("nanargmax", "argmax"), f2, rc[0] if rc else f2.node, f"{kind} over slot {slot}", f"{q.split('.')[-1]} searches the {'pre' if want_slot == 0 else 'post'}-peak samples",
                  f"{q.split('.')[-1]} takes its extremum ({kind}) over slot {slot} of arr_pre_post (expected the maximum over slot {want_slot}): tip/trough land on the wrong side of the peak",
                  key=f"slot:{q.split('.')[-1]}")


def d5_indexing(ctx):
    ctx.rule("D5", "peak value read at [wav, time idx, trace idx]; peak trace on the third axis; swap rule peak_val > 0 and ratio <= 1.5")
    repo = ctx.repo
    fi = repo.fn(MOD + ".pick_maximum")
    du = DefUse(fi.node)
    vp = [d for d in du.defs if d.var == "val_peak" and d.kind == "assign"]
    ok = False
    if vp and isinstance(vp[0].value, ast.Subscript) and isinstance(vp[0].value.slice, ast.Tuple) and len(vp[0].value.slice.elts) == 3:
        a, t, tr = vp[0].value.slice.elts
        tdef = expand_name(du, t, vp[0].stmt)
        trdef = expand_name(du, tr, vp[0].stmt)
        ok = "arange" in src(a) and isinstance(tdef, ast.Subscript) and loc_name(tdef.value) == "indx_maxs" and isinstance(trdef, ast.Call) and call_name(trdef) == "argmax" \
            and loc_name(trdef.args[0]) == "max_vals"
    ctx.check(ok, fi, vp[0].stmt if vp else fi.node, vp[0].stmt if vp else "val_peak", "peak value = arr[wav, time index of the per-trace maximum, strongest trace]",
              "peak value is not read at [arange, indx_peak, indx_trace] with indx_trace = argmax over traces", key="val_peak")
    rets = returns_of(fi.node)
    ctx.check(bool(rets) and [loc_name(e) for e in rets[-1].value.elts] == ["indx_trace", "indx_peak", "val_peak"], fi, rets[-1] if rets else fi.node, rets[-1] if rets else "return", "returns (trace, time, value)",
              "return order changed", key="ret")
    fp = repo.fn(MOD + ".find_peak")
    un = [n for n in walk_function(fp.node) if isinstance(n, ast.Assign) and isinstance(n.value, ast.Call) and call_name(n.value) == "pick_maximum"]
    names = [loc_name(e) for e in un[0].targets[0].elts] if un and isinstance(un[0].targets[0], ast.Tuple) else []
    cols = {}
    for st in walk_function(fp.node):
        if isinstance(st, ast.Assign) and isinstance(st.targets[0], ast.Subscript) and isinstance(st.targets[0].slice, ast.Constant):
            cols[st.targets[0].slice.value] = loc_name(st.value)
    ctx.check(len(names) == 3 and cols.get("peak_trace_idx") == names[0] and cols.get("peak_time_idx") == names[1] and cols.get("peak_val") == names[2], fp, un[0] if un else fp.node,
              f"{cols}", "data-frame columns receive (trace, time, value) in producer order", f"columns {cols} do not match the producer order {names}", key="cols")
    fg = repo.fn(MOD + ".get_array_peak")
    gp_ = [s for s in find(fg.node, ast.Subscript, nested=False) if loc_name(s.value) == "arr_in" and isinstance(s.slice, ast.Tuple) and len(s.slice.elts) == 3]
    okg = bool(gp_) and "arange" in src(gp_[0].slice.elts[0]) and isinstance(gp_[0].slice.elts[1], ast.Slice) and "peak_trace_idx" in src(gp_[0].slice.elts[2])
    ctx.check(okg, fg, gp_[0] if gp_ else fg.node, gp_[0] if gp_ else "arr_in[...]", "peak trace is selected on the third (trace) axis, all time samples kept",
              "peak trace is not selected as arr_in[arange, :, peak_trace_idx]", key="peak-trace")
    ft = repo.fn(MOD + ".find_tip_trough")
    sw = [n for n in walk_function(ft.node) if isinstance(n, ast.Assign) and loc_name(n.targets[0]) == "df_index"]
    oks = False
    if sw:
        got = set()
        for c in find(sw[0].value, ast.Compare):
            key = c.left.slice.value if isinstance(c.left, ast.Subscript) and isinstance(c.left.slice, ast.Constant) else src(c.left)
            got.add((key, type(c.ops[0]).__name__, const_value(c.comparators[0])[1]))
        oks = got == {("peak_val", "Gt", 0), ("peak_to_trough_ratio", "LtE", 1.5)}
    ctx.check(oks, ft, sw[0] if sw else ft.node, sw[0] if sw else "df_index", "swap applies to positive peaks with peak/trough ratio <= 1.5", "swap rule is not (peak_val > 0) & (ratio <= 1.5)", key="swap")


def dS_shared(ctx):
    from sa.common import rule_no_shared_mutation
    rule_no_shared_mutation(ctx, "DS", ['ibldsp.waveforms.compute_spike_features', 'ibldsp.waveforms.find_peak', 'ibldsp.waveforms.find_trough', 'ibldsp.waveforms.find_tip', 'ibldsp.waveforms.find_tip_trough', 'ibldsp.waveforms.half_peak_point', 'ibldsp.waveforms.recovery_point', 'ibldsp.waveforms.arr_pre_post', 'ibldsp.waveforms.pick_maxima', 'ibldsp.waveforms.pick_maximum'],
                            'features of a later batch depend on an earlier batch')


def run(ctx):
    ctx.run(dS_shared)
    ctx.run(d1_recovery_bound)
    ctx.run(d2_axis)
    ctx.run(d3_degree)
    ctx.run(d4_pre_post)
    ctx.run(d5_indexing)
