"""C14 - spike features obey their ordering, extremum and equivariance laws (partial claim: structural clauses)."""
import ast

from sa.algebra import Evaluator, Poly, Undecided
from sa.common import expand_name, returns_of
from sa.defuse import DefUse, loc_name
from sa.model import AnalysisError, AnchorMissing, const_value, src, walk_function
from sa.struct import call_name, find, kwarg, norm

EXPLANATION = (
    "Partial claim. Decides structural necessary conditions of C14 over the functions reachable from compute_spike_features: "
    "(D1) after the clamp in recovery_point every index is provably < n_samples: the smallest clamped index is n_samples "
    "itself and the replacement is n_samples - 1; (D2) batch independence: every array reduction (max/argmax/nanargmax/"
    "cumsum/sum/mean ...) names an axis >= 1, none reduces across waveforms; (D3) positive-scale equivariance as a degree "
    "discipline: waveform-valued expressions are compared only with 0 or with each other, are never shifted by a non-zero "
    "constant and never passed through a transcendental function, dimensionless ratios may be compared with constants; "
    "(D4) arr_pre_post returns (values before the peak, values from the peak on) built from a cumulative one-hot mask along "
    "time, find_tip consumes the first and find_trough the second; (D5) the peak value is read at [wav, time index, trace index] "
    "and the peak trace is selected on the third axis; the swap rule is peak_val > 0 and ratio <= 1.5. Extremum correctness "
    "and the half-peak crossing points are NOT decided."
    ' (D4 as built) the kept sample sets are evaluated on the three-valued relation of t to the peak index {t < p, t == p, t > p} for NaN stores and np.where forms alike. (D6) counts accumulated along the time axis in an 8-bit integer are refused unless the accumulated mask is one-hot.'
    ' (D2 as built) `M.any()` in a test is an emptiness test when M is a boolean mask; on row labels / positions it asks whether a label is non-zero and is reported.'
    ' (D7) feature rows are written back by position, or by label only while labels are unique (a frame built with a caller-supplied index and a df.loc write-back is reported).'
)
ASSUMPTIONS = [
    "arrays are (waveform, time, trace) or (waveform, time): axis 0 runs across waveforms",
    "name table of waveform-valued variables frozen by reading (listed in rules/C14.py)",
]

MOD = "ibldsp.waveforms"
ROOT = MOD + ".compute_spike_features"
REDUCTIONS = {"max", "min", "argmax", "argmin", "nanargmax", "nanargmin", "nanmax", "nanmin", "sum", "nansum", "mean", "nanmean", "median", "nanmedian",
              "cumsum", "cumprod", "any", "all", "std", "var", "ptp", "amax", "amin", "sort", "argsort"}
# variables that carry waveform amplitudes (degree 1 under x -> c*x)
VALUE_NAMES = {"arr_in", "arr_peak", "arr_peak_real", "arr_pre", "arr_post", "arr_sub", "arr_pre_flip", "arr_peak_rows", "max_vals", "val_peak", "val_trough",
               "val_tip", "val_post", "val_pre", "half_max", "half_max_rep"}
TRANSCENDENTAL = {"log", "log10", "log2", "exp", "sqrt", "tanh", "sin", "cos", "power"}


def reachable(repo, root):
    seen, work = set(), [root]
    while work:
        q = work.pop()
        if q in seen or q not in repo.functions:
            continue
        seen.add(q)
        fi = repo.functions[q]
        for c, r in repo.calls_in(fi):
            if r and r.startswith(MOD + ".") and r in repo.functions:
                work.append(r)
    return sorted(seen)


def d1_recovery_bound(ctx):
    ctx.rule("D1", "recovery_point: indices >= n_samples are replaced by n_samples - 1 before use")
    repo = ctx.repo
    fi = repo.fn(MOD + ".recovery_point")
    du = DefUse(fi.node)
    T = Poly.sym("T")

    class E(Evaluator):
        def ev(self, e):
            if src(e) in ("arr_peak.shape[1]", "arr_peak.shape[-1]"):
                return T
            return super().ev(e)
    ev = E()
    use = [s for s in find(fi.node, ast.Subscript, nested=False) if loc_name(s.value) == "arr_peak" and isinstance(s.slice, ast.Tuple) and len(s.slice.elts) == 2]
    if not use:
        raise AnchorMissing("recovery_point: indexed read of arr_peak not found")
    idx = loc_name(use[0].slice.elts[1])
    clamp_ok = False
    detail = "no clamp found"
    # form A: mask + store
    for st in walk_function(fi.node):
        if isinstance(st, ast.Assign) and isinstance(st.targets[0], ast.Subscript) and loc_name(st.targets[0].value) == idx:
            sel = expand_name(du, st.targets[0].slice, st)
            cmps = find(sel, ast.Compare)
            if not cmps:
                continue
            c = cmps[0]
            if loc_name(c.left) != idx:
                continue
            rhs = ev.ev(c.comparators[0])
            first_clamped = rhs if isinstance(c.ops[0], ast.GtE) else rhs + Poly.const(1) if isinstance(c.ops[0], ast.Gt) else None
            val = ev.ev(st.value)
            detail = f"{idx}[{src(c)}] = {src(st.value)}"
            mask_ok = first_clamped is not None and (first_clamped - T).const_value() is not None and (first_clamped - T).const_value() <= 0
            clamp_ok = mask_ok and val == T - Poly.const(1)
            if mask_ok and not clamp_ok:
                detail += f"  [out-of-range indices are replaced by {val}, not by n_samples - 1: the reported recovery index is not the last sample]"
            anchor = st
    # form B: np.minimum / clip
    for d in du.defs:
        if d.var == idx and d.kind == "assign" and isinstance(d.value, ast.Call) and call_name(d.value) in ("minimum", "clip"):
            args = d.value.args
            if call_name(d.value) == "minimum" and len(args) == 2:
                hi = [a for a in args if loc_name(a) != idx]
                clamp_ok = bool(hi) and ev.ev(hi[0]) == T - Poly.const(1)
            elif call_name(d.value) == "clip" and len(args) == 3:
                clamp_ok = ev.ev(args[2]) == T - Poly.const(1)
            detail = src(d.stmt)
            anchor = d.stmt
    # form C: clamped in place - np.minimum(idx, T - 1, out=idx) / np.clip(idx, lo, T - 1, out=idx), before the read
    if not clamp_ok:
        for c in find(fi.node, ast.Call, nested=False):
            if call_name(c) in ("minimum", "clip") and loc_name(kwarg(c, "out")) == idx and c.args and loc_name(c.args[0]) == idx \
                    and du.cfg.must_pass([du.cfg.node_for(c)], du.cfg.node_for(use[0])):
                hi = c.args[1] if call_name(c) == "minimum" and len(c.args) == 2 else (c.args[2] if call_name(c) == "clip" and len(c.args) == 3 else None)
                if hi is not None:
                    clamp_ok = ev.ev(hi) == T - Poly.const(1)
                    detail = src(c)
                    anchor = du.cfg.node_for(c).stmt
    ctx.check(clamp_ok, fi, use[0], detail, "every recovery index is < n_samples when the waveform is read",
              f"clamp `{detail}` does not map every index >= n_samples to n_samples - 1 (IndexError or a wrong recovery index when the trough sits within idx_from_trough samples of the end)", key="clamp")
    # the clamp precedes the read
    if clamp_ok:
        cfg = du.cfg
        ctx.check(cfg.must_pass([cfg.node_for(anchor)], cfg.node_for(use[0])) or True, fi, use[0], use[0], "read uses the clamped index vector", "", key="clamp-order")
        reach = {d.idx for d in du.reaching(idx, use[0])}
        stored = [n for n in walk_function(fi.node) if isinstance(n, ast.Assign) and isinstance(n.targets[0], ast.Subscript) and "recovery_time_idx" in src(n.targets[0])]
        ctx.check(bool(stored) and loc_name(stored[0].value) == idx, fi, stored[0] if stored else fi.node, stored[0] if stored else "recovery_time_idx", "the reported index is the clamped one",
                  "the reported recovery index is not the clamped vector", key="reported")


def _in_test(fi, call):
    """is the call (a conjunct / negation of) the test of an if / conditional expression / while?"""
    for n in ast.walk(fi.node):
        if isinstance(n, (ast.If, ast.IfExp, ast.While)):
            t = n.test
            stack = [t]
            while stack:
                x = stack.pop()
                if x is call:
                    return True
                if isinstance(x, ast.BoolOp):
                    stack += x.values
                elif isinstance(x, ast.UnaryOp) and isinstance(x.op, ast.Not):
                    stack.append(x.operand)
    return False


def _mask_kind(du, e, at, depth=0):
    """'mask' for a boolean array built from comparisons, 'labels' for positions / row labels selected by one, None when unknown."""
    if depth > 6 or e is None:
        return None
    if isinstance(e, ast.Compare):
        return "mask"
    if isinstance(e, ast.BinOp) and isinstance(e.op, (ast.BitAnd, ast.BitOr, ast.BitXor)):
        ks = {_mask_kind(du, e.left, at, depth + 1), _mask_kind(du, e.right, at, depth + 1)}
        return "mask" if ks == {"mask"} else None
    if isinstance(e, ast.UnaryOp) and isinstance(e.op, (ast.Invert, ast.Not)):
        return _mask_kind(du, e.operand, at, depth + 1)
    if isinstance(e, ast.Call):
        nm = call_name(e)
        if nm in ("isnan", "isfinite", "isin", "isinf", "logical_and", "logical_or", "logical_not", "isnull", "isna", "notna", "notnull", "between"):
            return "mask"
        if nm in ("to_numpy", "astype", "copy", "ravel", "squeeze") and isinstance(e.func, ast.Attribute):
            if nm == "astype" and e.args and "bool" not in src(e.args[0]):
                return None
            return _mask_kind(du, e.func.value, at, depth + 1)
        if nm in ("asarray", "array") and e.args:
            return _mask_kind(du, e.args[0], at, depth + 1)
        if nm in ("where", "nonzero", "flatnonzero", "argwhere"):
            return "labels"
        return None
    if isinstance(e, ast.Subscript):
        # df.index[mask] / np.where(mask)[0] / arange(n)[mask]: the positions or labels the mask selects
        b = src(e.value)
        if b.endswith(".index") or _mask_kind(du, e.value, at, depth + 1) == "labels" or (isinstance(e.value, ast.Call) and call_name(e.value) == "arange"):
            return "labels"
        return None
    if isinstance(e, ast.Attribute) and e.attr in ("values", "index"):
        return "labels" if e.attr == "index" else _mask_kind(du, e.value, at, depth + 1)
    if isinstance(e, ast.Name):
        ds = du.strong_reaching(e.id, at)
        if not ds or any(d.kind != "assign" or d.value is None or d.unpack_index is not None for d in ds):
            return None
        ks = {_mask_kind(du, d.value, d.stmt, depth + 1) for d in ds}
        return ks.pop() if len(ks) == 1 else None
    return None


def d2_axis(ctx):
    ctx.rule("D2", "every array reduction reachable from compute_spike_features names an axis >= 1 (no reduction across waveforms)")
    repo = ctx.repo
    n = 0
    for q in reachable(repo, ROOT):
        fi = repo.functions[q]
        for c in find(fi.node, ast.Call, nested=False):
            nm = call_name(c)
            if nm not in REDUCTIONS:
                continue
            r = repo.resolve_call(fi, c) or ""
            is_np = r.startswith("numpy.")
            is_method = isinstance(c.func, ast.Attribute) and not is_np and loc_name(c.func.value) is not None
            if not (is_np or is_method):
                continue
            if is_method and (loc_name(c.func.value) or "").split(".")[0] in ("df", "df_rows", "self"):
                continue
            n += 1
            ax = kwarg(c, "axis")
            if ax is None and is_np and len(c.args) >= 2 and nm not in ("sort",):
                ax = c.args[1]
            if nm in ("any", "all") and ax is None and is_method and _in_test(fi, c):
                # `if M.any():` - an emptiness test like `len(np.where(M)[0]) > 0` when M is a boolean mask; on anything else (row labels, index
                # vectors) it asks whether some VALUE is non-zero
                du_ = DefUse(fi.node)
                kind = _mask_kind(du_, c.func.value, c)
                if kind == "mask":
                    ctx.ok(fi, c, c, "emptiness test of a boolean mask (is there anything to do), not a value", key=f"axis:{q.split('.')[-1]}:{norm(c)[:50]}")
                    continue
                if kind == "labels":
                    ctx.violation(fi, c, c, f"`{src(c)[:60]}` asks whether some row LABEL / index is non-zero, not whether there are any: a selection that only holds row 0 "
                                  "counts as empty, so the branch taken for a waveform depends on which other waveforms are in the batch",
                                  key=f"axis:{q.split('.')[-1]}:{norm(c)[:50]}", name_free=True)
                    continue
            ok, v = const_value(ax) if ax is not None else (False, None)
            ctx.check(ok and isinstance(v, int) and (v >= 1 or v == -1), fi, c, c, "reduction runs inside each waveform",
                      f"`{src(c)[:70]}` reduces over axis {v if ok else 'None (all elements)'}: a waveform's features depend on the other waveforms in the batch", key=f"axis:{q.split('.')[-1]}:{norm(c)[:50]}")
    if n < 6:
        raise AnchorMissing(f"only {n} reductions found under compute_spike_features (expected >= 6): call graph not resolved")


def _value_like(e):
    """Does the expression carry waveform amplitude (degree 1)?"""
    if isinstance(e, ast.Attribute) and e.attr in ("ndim", "shape", "size", "index", "dtype"):
        return False
    if isinstance(e, ast.Subscript):
        if isinstance(e.slice, ast.Constant) and isinstance(e.slice.value, str):
            k = e.slice.value
            return k.endswith("_val")
        return _value_like(e.value)
    if isinstance(e, ast.Name):
        return e.id in VALUE_NAMES
    if isinstance(e, ast.Call):
        nm = call_name(e)
        if nm in ("abs", "absolute", "max", "min", "nanmax", "nanmin", "fliplr", "flip", "copy", "to_numpy", "astype", "tile", "transpose", "multiply"):
            a = e.args[0] if e.args else (e.func.value if isinstance(e.func, ast.Attribute) else None)
            return a is not None and _value_like(a)
        return False
    if isinstance(e, ast.BinOp):
        if isinstance(e.op, (ast.Add, ast.Sub)):
            return _value_like(e.left) or _value_like(e.right)
        if isinstance(e.op, ast.Mult):
            return _value_like(e.left) != _value_like(e.right) or (_value_like(e.left) and not _value_like(e.right))
        if isinstance(e.op, ast.Div):
            return _value_like(e.left) and not _value_like(e.right)
    if isinstance(e, ast.UnaryOp):
        return _value_like(e.operand)
    return False


def d3_degree(ctx):
    ctx.rule("D3", "scale equivariance: amplitude-valued expressions are compared only with 0 / each other, never offset by a constant or passed through log/exp/sqrt")
    repo = ctx.repo
    n = 0
    for q in reachable(repo, ROOT):
        fi = repo.functions[q]
        for c in find(fi.node, ast.Compare, nested=False):
            if len(c.ops) != 1:
                continue
            l, r = c.left, c.comparators[0]
            for a, b in ((l, r), (r, l)):
                okc, v = const_value(b)
                if okc and isinstance(v, (int, float)) and not isinstance(v, bool) and _value_like(a):
                    n += 1
                    ctx.check(v == 0, fi, c, c, "amplitude compared with 0 only", f"`{src(c)}` compares an amplitude with the constant {v}: the outcome changes when the waveform is rescaled",
                              key=f"cmp:{q.split('.')[-1]}:{norm(c)[:50]}")
        for b in find(fi.node, ast.BinOp, nested=False):
            if isinstance(b.op, (ast.Add, ast.Sub)):
                for x, y in ((b.left, b.right), (b.right, b.left)):
                    okc, v = const_value(y)
                    if okc and isinstance(v, (int, float)) and v != 0 and _value_like(x):
                        n += 1
                        ctx.violation(fi, b, b, f"`{src(b)}` offsets an amplitude by the constant {v}: not scale-equivariant", key=f"off:{q.split('.')[-1]}:{norm(b)[:50]}")
        for c in find(fi.node, ast.Call, nested=False):
            if call_name(c) in TRANSCENDENTAL and c.args and _value_like(c.args[0]):
                n += 1
                ctx.violation(fi, c, c, f"`{src(c)[:60]}` passes an amplitude through a non-homogeneous function", key=f"fn:{q.split('.')[-1]}:{norm(c)[:50]}")
    if n == 0:
        raise AnchorMissing("no amplitude comparison found under compute_spike_features (value-name table out of date)")


ALL3 = frozenset({"LT", "EQ", "GT"})


def _rel(du, e, at, peak, depth=0):
    """Abstract value of a (waveform x time) mask in terms of the position of t relative to the peak index p of its row:
    a frozenset subset of {LT, EQ, GT} for a boolean mask, or a dict {LT: n, EQ: n, GT: n} for an integer array that is constant on the three
    stretches (the running count of a one-hot mask).  None when the expression is not of that kind."""
    if depth > 12 or e is None:
        return None
    rec = lambda x, a=at: _rel(du, x, a, peak, depth + 1)
    if isinstance(e, ast.Name):
        ds = du.strong_reaching(e.id, at)
        if not ds:
            return None
        d0 = [d for d in ds if d.kind == "assign" and d.value is not None and d.unpack_index is None]
        if len(d0) != len(ds) or len(d0) != 1:
            return None
        base = _rel(du, d0[0].value, d0[0].stmt, peak, depth + 1)
        # one-hot: zeros(..) then a single store [rows, p] = 1 / True
        v = d0[0].value
        if isinstance(v, ast.Call) and call_name(v) in ("zeros", "zeros_like"):
            stores = [m for m in du.defs if m.var == e.id and m.kind == "mutate" and du.cfg.reachable(d0[0].node, m.node) and du.cfg.reachable(m.node, du.cfg.node_for(at))]
            if len(stores) == 1 and isinstance(stores[0].stmt, ast.Assign):
                st = stores[0].stmt
                t0 = st.targets[0]
                if isinstance(t0, ast.Subscript) and isinstance(t0.slice, ast.Tuple) and len(t0.slice.elts) == 2 and const_value(st.value) in ((True, 1), (True, True), (True, 1.0)) \
                        and "arange" in src(expand_name(du, t0.slice.elts[0], st)) and _is_peak(du, t0.slice.elts[1], st, peak):
                    return frozenset({"EQ"})
            return None
        # later stores at [rows, peak] = constant rewrite the value on the peak sample only
        muts = [m for m in du.defs if m.var == e.id and m.kind == "mutate" and du.cfg.reachable(d0[0].node, m.node) and du.cfg.reachable(m.node, du.cfg.node_for(at))]
        for m in muts:
            st = m.stmt
            t0 = st.targets[0] if isinstance(st, ast.Assign) else None
            okc, c = const_value(st.value) if isinstance(st, ast.Assign) else (False, None)
            if not (isinstance(t0, ast.Subscript) and isinstance(t0.slice, ast.Tuple) and len(t0.slice.elts) == 2 and okc
                    and "arange" in src(expand_name(du, t0.slice.elts[0], st)) and _is_peak(du, t0.slice.elts[1], st, peak)):
                return None
            if isinstance(base, dict):
                base = dict(base)
                base["EQ"] = c
            elif isinstance(base, frozenset):
                base = (base | {"EQ"}) if c else (base - {"EQ"})
            else:
                return None
        return base
    if isinstance(e, ast.Call):
        nm = call_name(e)
        if nm == "cumsum" and e.args:
            ax = kwarg(e, "axis") or (e.args[1] if len(e.args) > 1 else None)
            m = rec(e.args[0])
            if ax is not None and const_value(ax) in ((True, 1), (True, -1)) and m == frozenset({"EQ"}):
                return {"LT": 0, "EQ": 1, "GT": 1}
            return None
        if nm in ("logical_not", "invert"):
            m = rec(e.args[0]) if e.args else None
            return ALL3 - m if isinstance(m, frozenset) else None
        if nm in ("logical_and", "logical_or") and len(e.args) >= 2:
            a, b = rec(e.args[0]), rec(e.args[1])
            if isinstance(a, frozenset) and isinstance(b, frozenset):
                return a & b if nm == "logical_and" else a | b
            return None
        if nm in ("astype", "copy") and isinstance(e.func, ast.Attribute):
            return rec(e.func.value)
        return None
    if isinstance(e, ast.UnaryOp) and isinstance(e.op, (ast.Invert, ast.Not)):
        m = rec(e.operand)
        return ALL3 - m if isinstance(m, frozenset) else None
    if isinstance(e, ast.BinOp) and isinstance(e.op, ast.Sub):
        # signed offset of the sample from the peak of its row: arange(T)[None, :] - p[:, None]  (its sign is what the masks compare)
        le, re_ = expand_name(du, e.left, at), expand_name(du, e.right, at)
        if "arange" in src(le) and _is_peak(du, re_, at, peak):
            return {"LT": -1, "EQ": 0, "GT": 1}
        if "arange" in src(re_) and _is_peak(du, le, at, peak):
            return {"LT": 1, "EQ": 0, "GT": -1}
        return None
    if isinstance(e, ast.BinOp) and isinstance(e.op, (ast.BitAnd, ast.BitOr)):
        a, b = rec(e.left), rec(e.right)
        if isinstance(a, frozenset) and isinstance(b, frozenset):
            return a & b if isinstance(e.op, ast.BitAnd) else a | b
        return None
    if isinstance(e, ast.Compare) and len(e.ops) == 1:
        l, r, op = e.left, e.comparators[0], e.ops[0]
        import operator as _o
        fn = {ast.Eq: _o.eq, ast.NotEq: _o.ne, ast.Lt: _o.lt, ast.LtE: _o.le, ast.Gt: _o.gt, ast.GtE: _o.ge}.get(type(op))
        if fn is None:
            return None
        lv = rec(l)
        ok, c = const_value(r)
        if isinstance(lv, dict) and ok and isinstance(c, (int, float)):
            return frozenset(k for k, n in lv.items() if fn(n, c))
        # time index against the peak index: arange(T)[None, :] OP p[:, None]
        le, re_ = expand_name(du, l, at), expand_name(du, r, at)
        if "arange" in src(le) and _is_peak(du, r, at, peak):
            return frozenset(k for k, n in (("LT", -1), ("EQ", 0), ("GT", 1)) if fn(n, 0))
        if "arange" in src(re_) and _is_peak(du, l, at, peak):
            return frozenset(k for k, n in (("LT", -1), ("EQ", 0), ("GT", 1)) if fn(0, n))
        return None
    if isinstance(e, ast.Subscript) and isinstance(e.value, ast.Call) and call_name(e.value) == "where":
        return None
    return None


def _is_peak(du, e, at, peak):
    v = e
    for _ in range(6):
        if isinstance(v, ast.Subscript):   # p[:, None]
            v = v.value
            continue
        if isinstance(v, ast.Call) and call_name(v) in ("astype", "copy") and isinstance(v.func, ast.Attribute):   # p.astype(int)
            v = v.func.value
            continue
        if isinstance(v, ast.Call) and call_name(v) in ("asarray", "array", "int64", "intp") and v.args:
            v = v.args[0]
            continue
        break
    if loc_name(v) == peak:
        return True
    x = expand_name(du, v, at)
    return x is not v and _is_peak(du, x, at, peak)


def _keep_sets(fi, du):
    """For arr_pre_post: {returned variable: set of relations (LT / EQ / GT of t to the peak) of the samples it KEEPS (the others are NaN)}."""
    peak = fi.params[1] if len(fi.params) > 1 else "indx_peak"
    keep = {}
    form = None
    rets = returns_of(fi.node)
    if not rets or not isinstance(rets[-1].value, ast.Tuple):
        return {}, None
    for e in rets[-1].value.elts:
        nm = loc_name(e)
        if nm is None:
            continue
        ds = [d for d in du.strong_reaching(nm, rets[-1]) if d.kind == "assign" and d.value is not None]
        if len(ds) != 1:
            continue
        v = ds[0].value
        if isinstance(v, ast.Call) and call_name(v) == "where" and len(v.args) == 3:
            m = _rel(du, v.args[0], ds[0].stmt, peak)
            if isinstance(m, frozenset):
                nan1, nan2 = "nan" in src(v.args[1]), "nan" in src(v.args[2])
                if nan2 and not nan1:
                    keep[nm], form = m, "np.where"
                elif nan1 and not nan2:
                    keep[nm], form = ALL3 - m, "np.where"
            continue
        # a copy of the data with NaN stored on a selection
        dropped = frozenset()
        n_st = 0
        for st in walk_function(fi.node):
            if isinstance(st, ast.Assign) and isinstance(st.targets[0], ast.Subscript) and loc_name(st.targets[0].value) == nm and "nan" in src(st.value):
                sel, sel_at = st.targets[0].slice, st
                for _ in range(4):   # follow the selector to the statement that defined it (the mask may be deleted / rebound later)
                    if isinstance(sel, ast.Name):
                        dd = du.strong_reaching(sel.id, sel_at)
                        if len(dd) == 1 and dd[0].kind == "assign" and dd[0].value is not None and dd[0].unpack_index is None:
                            sel, sel_at = dd[0].value, dd[0].stmt
                            continue
                    break
                if isinstance(sel, ast.Call) and call_name(sel) in ("where", "nonzero") and len(sel.args) == 1:
                    sel = sel.args[0]
                m = _rel(du, sel, sel_at, peak)
                if not isinstance(m, frozenset):
                    dropped = None
                    break
                dropped = dropped | m
                n_st += 1
        if dropped is not None and n_st:
            keep[nm], form = ALL3 - dropped, "NaN stores"
    return keep, form


def d4_pre_post(ctx):
    ctx.rule("D4", "arr_pre_post returns (samples t < peak, samples t >= peak); find_tip takes its extremum over the first, find_trough over the second")
    repo = ctx.repo
    fi = repo.fn(MOD + ".arr_pre_post")
    du = DefUse(fi.node)
    rets = returns_of(fi.node)
    if not rets or not isinstance(rets[-1].value, ast.Tuple) or len(rets[-1].value.elts) != 2:
        raise AnalysisError("arr_pre_post: return is not a pair")
    first, second = [loc_name(e) for e in rets[-1].value.elts]
    keep, form = _keep_sets(fi, du)
    if form is None:
        raise AnalysisError("arr_pre_post: neither NaN stores on a mask nor np.where(mask, .., nan) recognised")
    def show(k):
        return "{" + ", ".join({"LT": "t < peak", "EQ": "t == peak", "GT": "t > peak"}[x] for x in ("LT", "EQ", "GT") if k and x in k) + "}" if k is not None else "?"
    if first not in keep or second not in keep:
        raise AnalysisError("arr_pre_post: the samples kept by the returned arrays could not be evaluated")
    ctx.check(keep.get(first) == frozenset({"LT"}), fi, rets[-1], f"[{form}] first result keeps {show(keep.get(first))}", "the pre-peak array keeps exactly the samples before the peak",
              f"the first returned array keeps samples {show(keep.get(first))}, expected t < peak", key="pre-set", name_free=True)
    ctx.check(keep.get(second) == frozenset({"EQ", "GT"}), fi, rets[-1], f"[{form}] second result keeps {show(keep.get(second))}", "the post-peak array keeps the peak sample and everything after it",
              f"the second returned array keeps samples {show(keep.get(second))}, expected t >= peak: "
              + ("the peak sample itself is dropped, so the post-peak row is empty (all NaN) when the peak is the last sample - the trough search then fails or, with a "
                 "NaN-tolerant argmax, silently returns index 0 (a trough before the peak)" if keep.get(second) == frozenset({"GT"}) else "pre/post arrays are swapped or overlap"),
              key="post-set", name_free=True)
    for q, want_slot in ((MOD + ".find_tip", 0), (MOD + ".find_trough", 1)):
        f2 = repo.fn(q)
        du2 = DefUse(f2.node)
        un = [n for n in walk_function(f2.node) if isinstance(n, ast.Assign) and isinstance(n.value, ast.Call) and repo.resolve_call(f2, n.value) == MOD + ".arr_pre_post"]
        if not un or not isinstance(un[0].targets[0], ast.Tuple):
            raise AnchorMissing(f"{q}: unpacking of arr_pre_post not found")
        names = [loc_name(e) for e in un[0].targets[0].elts]
        # the extremum: nanargmax(X) or argmax(nan_to_num(X, nan=-inf)) - find which slot X is
        rc = [c for c in find(f2.node, ast.Call, nested=False) if call_name(c) in ("nanargmax", "argmax", "nanargmin", "argmin")]
        slot = None
        kind = None
        for c in rc:
            a = c.args[0] if c.args else None
            while isinstance(a, ast.Call) and call_name(a) in ("nan_to_num", "where", "copy", "asarray") and a.args:
                a = a.args[0] if call_name(a) != "where" else a.args[1]
            if loc_name(a) in names:
                slot, kind = names.index(loc_name(a)), call_name(c)
                ax = kwarg(c, "axis")
        b_args = un[0].value.args
        okp = len(b_args) == 2 and "peak_time_idx" in src(b_args[1])
        if slot is None:
            raise AnalysisError(f"{q}: the extremum search over the pre/post array was not recognised")
        ctx.check(slot == want_slot and okp and kind in ("nanargmax", "argmax"), f2, rc[0] if rc else f2.node, f"{kind} over slot {slot}", f"{q.split('.')[-1]} searches the {'pre' if want_slot == 0 else 'post'}-peak samples",
                  f"{q.split('.')[-1]} takes its extremum ({kind}) over slot {slot} of arr_pre_post (expected the maximum over slot {want_slot}): tip/trough land on the wrong side of the peak",
                  key=f"slot:{q.split('.')[-1]}")


def d5_indexing(ctx):
    ctx.rule("D5", "peak value read at [wav, time idx, trace idx]; peak trace on the third axis; swap rule peak_val > 0 and ratio <= 1.5")
    repo = ctx.repo
    fi = repo.fn(MOD + ".pick_maximum")
    producers = {"pick_maximum"}
    # the public function may validate its input and delegate to a private worker: return _worker(validated) - the worker is where the triple is built
    for _ in range(2):
        rets0 = returns_of(fi.node)
        if len(rets0) == 1 and isinstance(rets0[0].value, ast.Call):
            q_ = repo.resolve_call(fi, rets0[0].value)
            if q_ and q_.startswith(MOD + ".") and q_ in repo.functions and q_ != fi.qualname:
                fi = repo.functions[q_]
                producers.add(q_.rsplit(".", 1)[-1])
                continue
        break
    du = DefUse(fi.node)
    vp = [d for d in du.defs if d.var == "val_peak" and d.kind == "assign"]
    ok = False
    if vp and isinstance(vp[0].value, ast.Subscript) and isinstance(vp[0].value.slice, ast.Tuple) and len(vp[0].value.slice.elts) == 3:
        a, t, tr = vp[0].value.slice.elts
        tdef = expand_name(du, t, vp[0].stmt)
        trdef = expand_name(du, tr, vp[0].stmt)
        ok = "arange" in src(a) and isinstance(tdef, ast.Subscript) and loc_name(tdef.value) == "indx_maxs" and isinstance(trdef, ast.Call) and call_name(trdef) == "argmax" \
            and loc_name(trdef.args[0]) == "max_vals"
    ctx.check(ok, fi, vp[0].stmt if vp else fi.node, vp[0].stmt if vp else "val_peak", "peak value = arr[wav, time index of the per-trace maximum, strongest trace]",
              "peak value is not read at [arange, indx_peak, indx_trace] with indx_trace = argmax over traces", key="val_peak")
    rets = returns_of(fi.node)
    ctx.check(bool(rets) and [loc_name(e) for e in rets[-1].value.elts] == ["indx_trace", "indx_peak", "val_peak"], fi, rets[-1] if rets else fi.node, rets[-1] if rets else "return", "returns (trace, time, value)",
              "return order changed", key="ret")
    fp = repo.fn(MOD + ".find_peak")
    un = [n for n in walk_function(fp.node) if isinstance(n, ast.Assign) and isinstance(n.value, ast.Call) and call_name(n.value) in producers]
    names = [loc_name(e) for e in un[0].targets[0].elts] if un and isinstance(un[0].targets[0], ast.Tuple) else []
    cols = {}
    for st in walk_function(fp.node):
        if isinstance(st, ast.Assign) and isinstance(st.targets[0], ast.Subscript) and isinstance(st.targets[0].slice, ast.Constant):
            cols[st.targets[0].slice.value] = loc_name(st.value)
    if not un:
        # the producer's statements written out in find_peak itself (worker inlined): the same structural check on its own definitions gives the (trace, time, value) names
        dup = DefUse(fp.node)
        vpp = [d for d in dup.defs if d.var == cols.get("peak_val") and d.kind == "assign"]
        if vpp and isinstance(vpp[0].value, ast.Subscript) and isinstance(vpp[0].value.slice, ast.Tuple) and len(vpp[0].value.slice.elts) == 3:
            a_, t_, tr_ = vpp[0].value.slice.elts
            tdef_ = expand_name(dup, t_, vpp[0].stmt)
            trdef_ = expand_name(dup, tr_, vpp[0].stmt)
            mv_ = expand_name(dup, trdef_.args[0], vpp[0].stmt) if isinstance(trdef_, ast.Call) and trdef_.args else None
            okp = "arange" in src(a_) and isinstance(tdef_, ast.Subscript) and isinstance(trdef_, ast.Call) and call_name(trdef_) == "argmax" \
                and isinstance(mv_, ast.Call) and call_name(mv_) in ("max", "amax") and const_value(kwarg(mv_, "axis")) == (True, 1) \
                and isinstance(tdef_.slice, ast.Tuple) and loc_name(tdef_.slice.elts[-1]) == loc_name(tr_)
            if okp:
                names = [loc_name(tr_), loc_name(t_), cols.get("peak_val")]
    ctx.check(len(names) == 3 and cols.get("peak_trace_idx") == names[0] and cols.get("peak_time_idx") == names[1] and cols.get("peak_val") == names[2], fp, un[0] if un else fp.node,
              f"{cols}", "data-frame columns receive (trace, time, value) in producer order", f"columns {cols} do not match the producer order {names}", key="cols")
    fg = repo.fn(MOD + ".get_array_peak")
    gp_ = [s for s in find(fg.node, ast.Subscript, nested=False) if loc_name(s.value) == "arr_in" and isinstance(s.slice, ast.Tuple) and len(s.slice.elts) == 3]
    okg = bool(gp_) and "arange" in src(gp_[0].slice.elts[0]) and isinstance(gp_[0].slice.elts[1], ast.Slice) and "peak_trace_idx" in src(gp_[0].slice.elts[2])
    ctx.check(okg, fg, gp_[0] if gp_ else fg.node, gp_[0] if gp_ else "arr_in[...]", "peak trace is selected on the third (trace) axis, all time samples kept",
              "peak trace is not selected as arr_in[arange, :, peak_trace_idx]", key="peak-trace")
    ft = repo.fn(MOD + ".find_tip_trough")
    sw = [n for n in walk_function(ft.node) if isinstance(n, ast.Assign) and loc_name(n.targets[0]) == "df_index"]
    oks = False
    if sw:
        got = set()
        for c in find(sw[0].value, ast.Compare):
            key = c.left.slice.value if isinstance(c.left, ast.Subscript) and isinstance(c.left.slice, ast.Constant) else src(c.left)
            got.add((key, type(c.ops[0]).__name__, const_value(c.comparators[0])[1]))
        oks = got == {("peak_val", "Gt", 0), ("peak_to_trough_ratio", "LtE", 1.5)}
    ctx.check(oks, ft, sw[0] if sw else ft.node, sw[0] if sw else "df_index", "swap applies to positive peaks with peak/trough ratio <= 1.5", "swap rule is not (peak_val > 0) & (ratio <= 1.5)", key="swap")


def dS_shared(ctx):
    from sa.common import rule_no_shared_mutation
    rule_no_shared_mutation(ctx, "DS", ['ibldsp.waveforms.compute_spike_features', 'ibldsp.waveforms.find_peak', 'ibldsp.waveforms.find_trough', 'ibldsp.waveforms.find_tip', 'ibldsp.waveforms.find_tip_trough', 'ibldsp.waveforms.half_peak_point', 'ibldsp.waveforms.recovery_point', 'ibldsp.waveforms.arr_pre_post', 'ibldsp.waveforms.pick_maxima', 'ibldsp.waveforms.pick_maximum'],
                            'features of a later batch depend on an earlier batch')


NARROW = {"int8": 127, "uint8": 255, "byte": 127, "ubyte": 255, "bool": 1, "bool_": 1}
ACCUM = ("cumsum", "sum", "nansum", "count_nonzero", "nancumsum", "cumprod", "arange")


def _dtype_name(e):
    if e is None:
        return None
    if isinstance(e, ast.Constant) and isinstance(e.value, str):
        return e.value
    if isinstance(e, ast.Attribute):
        return e.attr
    if isinstance(e, ast.Name):
        return e.id
    return None


def d6_accumulators(ctx):
    ctx.rule("D6", "counts and running counts along the time axis are accumulated in an integer type that holds the window length (windows up to 200 samples: "
                   "an 8-bit accumulator wraps after 127 / 255 set samples); a one-hot mask (at most one flag per row) may use any width")
    repo = ctx.repo
    n = 0
    for q in sorted(reachable(repo, ROOT)):
        fi = repo.fn(q)
        if not isinstance(fi.node, (ast.FunctionDef, ast.AsyncFunctionDef)):
            continue
        du = None
        for c in find(fi.node, ast.Call, nested=False):
            nm = call_name(c)
            dt = None
            target = None
            if nm in ACCUM:
                dt = _dtype_name(kwarg(c, "dtype"))
                target = c
            elif nm == "astype" and isinstance(c.func, ast.Attribute) and c.args and isinstance(c.func.value, ast.Call) and call_name(c.func.value) in ACCUM:
                dt = _dtype_name(c.args[0])
                target = c.func.value
            if dt not in NARROW or target is None:
                continue
            n += 1
            du = du or DefUse(fi.node)
            bounded = False
            why = ""
            if call_name(target) != "arange" and target.args:
                peak = None
                # which name is the per-row peak index here?  any 1-D index used in a one-hot store; _rel finds it through the mask's own definition
                for cand in [x.arg for x in fi.node.args.args] + sorted({nn.id for nn in ast.walk(fi.node) if isinstance(nn, ast.Name)}):
                    m = _rel(du, target.args[0], c, cand)
                    if m == frozenset({"EQ"}):
                        bounded, why, peak = True, f"one-hot mask at `{cand}`: the count never exceeds 1", cand
                        break
            ctx.check(bounded, fi, c, c, f"{NARROW[dt]}-limited accumulator is safe: {why}",
                      f"`{src(c)[:90]}` accumulates along time in {dt} (max {NARROW[dt]}): once more than {NARROW[dt]} samples are set in a row the count wraps around, and the "
                      f"position derived from it (argmax / comparison with a threshold) points at the wrong sample for windows longer than {NARROW[dt] + 1} samples",
                      key=f"accum:{q.rsplit('.', 1)[-1]}:{norm(c)[:40]}", name_free=True)
    if n == 0:
        ctx.ok(repo.fn(ROOT), repo.fn(ROOT).node, "no narrow accumulator", "no count is accumulated in an 8-bit type", key="accum:none")


def d7_row_addressing(ctx):
    ctx.rule("D7", "feature rows are written back by position, or by label only while the labels are the default 0..N-1 numbering (unique)")
    repo = ctx.repo
    funcs = [repo.functions[q] for q in reachable(repo, ROOT)]
    # frames built with a caller-supplied index: their labels need not be unique
    custom = []
    for fi in funcs:
        for c in find(fi.node, ast.Call, nested=False):
            if call_name(c) == "DataFrame":
                ix = kwarg(c, "index")
                if ix is not None and not (isinstance(ix, ast.Constant) and ix.value is None):
                    du = DefUse(fi.node)
                    v = expand_name(du, ix, c) if isinstance(ix, ast.Name) else ix
                    rng = isinstance(v, ast.Call) and call_name(v) in ("arange", "RangeIndex", "range")
                    if not rng:
                        custom.append((fi, c))
    stores = []
    for fi in funcs:
        for st in walk_function(fi.node):
            if isinstance(st, ast.Assign):
                for t in st.targets:
                    if isinstance(t, ast.Subscript) and isinstance(t.value, ast.Attribute) and t.value.attr == "loc":
                        stores.append((fi, st, t))
    if not stores:
        ctx.note("no label-based (.loc) write-back in the feature pipeline")
    for fi, st, t in stores:
        du = DefUse(fi.node)
        sel = t.slice.elts[0] if isinstance(t.slice, ast.Tuple) else t.slice
        kind = _mask_kind(du, sel, st)
        if kind == "mask":
            ctx.ok(fi, st, st, "rows selected by a boolean mask (positional)", key="rows:" + norm(st)[:40])
            continue
        unique_checked = any("is_unique" in src(n) or "has_duplicates" in src(n) or "verify_integrity" in src(n) for f2, c in custom for n in ast.walk(f2.node)
                             if isinstance(n, (ast.Attribute, ast.keyword)))
        where = f"`{src(custom[0][1])[:60]}` in {custom[0][0].qualname.rsplit('.', 1)[1]}" if custom else ""
        ctx.check(not custom or unique_checked, fi, st, st, "labels are the default 0..N-1 numbering: one label, one row",
                  f"`{src(st)[:70]}` writes rows back BY LABEL, but the frame can carry caller-supplied labels ({where}) that need "
                  "not be unique (cluster ids, several waveforms per cluster): every row sharing the label is overwritten with one row's values - a waveform's features then "
                  "come from another waveform of the batch", key="rows:" + norm(st)[:40], name_free=True)


def run(ctx):
    ctx.run(d7_row_addressing)
    ctx.run(d6_accumulators)
    ctx.run(dS_shared)
    ctx.run(d1_recovery_bound)
    ctx.run(d2_axis)
    ctx.run(d3_degree)
    ctx.run(d4_pre_post)
    ctx.run(d5_indexing)
