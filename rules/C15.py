"""C15 - bad-channel repair touches only bad channels; label precedence and mode (structural clauses)."""
import ast

from sa.cfg import CFG
from sa import guards as G
from sa.common import expand_name, label_set, returns_of
from sa.defuse import DefUse, loc_name
from sa.model import AnalysisError, AnchorMissing, const_value, src, walk_function
from sa.struct import call_name, find, kwarg, norm

EXPLANATION = (
    "Decides structural necessary conditions of C15: (D1) in interpolate_bad_channels every store into the data array "
    "addresses row i where i iterates over where(labels == 1 | labels == 2)[0] - no other row can change; (D2) the weights "
    "of bad channels are zeroed before the weights are normalised and before the support is selected, so a bad channel "
    "never contributes; (D3) convexity: the weights are non-negative by construction (exp), normalised by their sum, the "
    "support is exactly the non-zero weights and no threshold that can drop a positive weight is applied after the "
    "normalising division, the same support indexes weights and data rows, and an empty support yields zeros; (D4) in "
    "detect_bad_channels the label stores are ordered 3, then 1, then 2 (2 overrides 1 overrides 3) and "
    "detect_bad_channels_cbin takes the mode across batches (axis 1). Detection quality on recordings is NOT decided."
    ' (as built) row and donor selectors are evaluated on the finite label domain: the repaired rows are exactly labels {1, 2}; the donors with zero weight are exactly labels {1, 2} (good and outside-brain channels stay donors); both the per-channel loop and a vectorised weight matrix (donors along axis 1) are understood.'
    ' (DS as built) module-level dict caches are followed like lru_cache: a row view of a cached decay matrix must be copied before it is zeroed / thresholded.'
    ' (D3 as built) for the matrix form the guard against a zero row sum must wrap the normalising sum itself.'
)
ASSUMPTIONS = [
    "np.exp(...) > 0; a vector divided by its positive sum sums to one (model table)",
    "scipy.stats.mode(x, axis=1) is the per-row mode",
]

FN = "ibldsp.voltage.interpolate_bad_channels"


LABELS = ("channel_labels",)
BAD = frozenset({1, 2})


def _is_full(sl):
    return isinstance(sl, ast.Slice) and sl.lower is None and sl.upper is None and sl.step is None


def _repair_scope(fi, du):
    """(loop or None, nodes): the per-channel loop of the pinned form (its iterable is a function of the labels) or, for a vectorised
    body, the whole function."""
    for n in walk_function(fi.node):
        if isinstance(n, ast.For) and label_set(du, n.iter, n, LABELS) is not None:
            return n, [x for b in n.body for x in ast.walk(b)]
    return None, [x for b in fi.node.body for x in ast.walk(b)]


def _data_stores(fi):
    stores = []
    for n in walk_function(fi.node):
        tg = None
        if isinstance(n, ast.Assign):
            tg = n.targets
        elif isinstance(n, ast.AugAssign):
            tg = [n.target]
        for t in tg or []:
            base = t
            while isinstance(base, ast.Subscript):
                base = base.value
            if loc_name(base) == "data" and isinstance(t, ast.Subscript):
                stores.append((n, t))
            elif loc_name(t) == "data":
                stores.append((n, t))
    return stores


def d1_rows(ctx):
    ctx.rule("D1", "only rows of data whose label is dead (1) or noisy (2) are stored - all of them, no other")
    repo = ctx.repo
    fi = repo.fn(FN)
    du = DefUse(fi.node)
    lp, _ = _repair_scope(fi, du)
    stores = _data_stores(fi)
    if not stores:
        raise AnchorMissing("interpolate_bad_channels: no store into data")
    sets = []
    for n, t in stores:
        ok = False
        ls = None
        if isinstance(t, ast.Subscript):
            row = t.slice.elts[0] if isinstance(t.slice, ast.Tuple) else t.slice
            ls = label_set(du, row, n, LABELS)
            ok = ls is not None and ls <= BAD
        if ls is not None:
            sets.append(ls)
        ctx.check(ok, fi, n, n, f"store addresses rows labelled {sorted(ls) if ls is not None else '?'} only",
                  f"`{src(n)[:80]}` writes rows other than channels labelled dead / noisy (labels selected: {sorted(ls) if ls is not None else 'not a function of the labels'})",
                  key="store:" + norm(t)[:50], name_free=True)
    allbad = frozenset().union(*sets) if sets else frozenset()
    ctx.check(allbad == BAD, fi, stores[0][0], f"repaired label set {sorted(allbad)}", "every channel labelled dead (1) or noisy (2) is repaired",
              f"the repaired set covers labels {sorted(allbad)}, not exactly {{1, 2}}", key="bad-set", name_free=True)
    for r in returns_of(fi.node):
        ctx.check(loc_name(r.value) == "data", fi, r, r, "the (in-place repaired) array is returned", "something other than the repaired array is returned", key="ret")


def d2_d3_weights(ctx):
    ctx.rule("D2", "donor exclusion: exactly the channels labelled dead / noisy get zero weight (good and outside-brain channels stay donors), before "
                   "normalisation and support selection")
    repo = ctx.repo
    fi = repo.fn(FN)
    du = DefUse(fi.node)
    cfg = du.cfg
    lp, body = _repair_scope(fi, du)
    hdr = [cfg.node_for(lp)] if lp is not None else []
    anchor = lp if lp is not None else fi.node
    # is the weight array a matrix (one row per repaired channel, one column per donor)?
    wsubs = [n for n in body if isinstance(n, ast.Subscript) and loc_name(n.value) == "weights"]
    matrix = any(isinstance(n.slice, ast.Tuple) for n in wsubs)
    zero, thresh, wrong_axis = [], [], []
    for n in body:
        if not (isinstance(n, ast.Assign) and isinstance(n.targets[0], ast.Subscript) and loc_name(n.targets[0].value) == "weights" and const_value(n.value) == (True, 0)):
            continue
        sl = n.targets[0].slice
        if find(sl, ast.Compare) and any(loc_name(c.left) == "weights" or loc_name(c.comparators[0]) == "weights" for c in find(sl, ast.Compare)):
            thresh.append(n)
            continue
        idx = sl
        if isinstance(sl, ast.Tuple) and len(sl.elts) == 2:
            if _is_full(sl.elts[0]):
                idx = sl.elts[1]
            elif _is_full(sl.elts[1]):
                idx = sl.elts[0]
                wrong_axis.append(n)
        ls = label_set(du, idx, n, LABELS)
        if ls is not None:
            zero.append((n, ls))
    if matrix:
        for n in wrong_axis:
            ctx.violation(fi, n, n, "the zero store addresses rows of the weight matrix (the channels being repaired), not its donor columns", key="zero-axis", name_free=True)
        zero = [(n, ls) for n, ls in zero if n not in wrong_axis]
    normd = [n for n in body if isinstance(n, ast.Assign) and loc_name(n.targets[0]) == "weights" and isinstance(n.value, ast.BinOp)
             and isinstance(n.value.op, ast.Div) and "sum" in src(expand_name(du, n.value.right, n)) + src(n.value.right) + _deep_src(du, n.value.right, n)]
    normd += [n for n in body if isinstance(n, ast.AugAssign) and loc_name(n.target) == "weights" and isinstance(n.op, ast.Div) and "sum" in src(n.value) + _deep_src(du, n.value, n)]
    supp = [n for n in body if isinstance(n, ast.Assign) and isinstance(n.value, (ast.Subscript, ast.Call)) and "where" in src(n.value) and "weights" in src(n.value)
            and loc_name(n.targets[0]) not in ("weights",) and "sum" not in src(n.value)]
    excluded = frozenset().union(*[ls for _, ls in zero]) if zero else frozenset()
    if not zero:
        ctx.violation(fi, anchor, "weights[bad_channels] = 0", "bad channels are not excluded from the interpolation weights: a dead/noisy neighbour leaks into the repair", key="zeroing")
    else:
        ctx.check(BAD <= excluded, fi, zero[0][0], f"zero-weight labels {sorted(excluded)}", "dead and noisy channels carry no weight",
                  f"only labels {sorted(excluded)} are excluded from the donors: a {'dead' if 1 not in excluded else 'noisy'} neighbour leaks into the repair", key="zeroing", name_free=True)
        extra = excluded - BAD
        ctx.check(not extra, fi, zero[0][0], f"zero-weight labels {sorted(excluded)}", "good and outside-brain channels remain donors",
                  f"`{src(zero[0][0])}` also removes channels labelled {sorted(extra)} from the donors ({'outside-brain' if 3 in extra else 'good'} channels): a bad channel next to them "
                  f"is rebuilt from fewer neighbours than the convex combination the repair is defined as - or set to zero although usable neighbours exist", key="donor-set", name_free=True)
    if not normd:
        ctx.violation(fi, anchor, "weights = weights / sum(weights)", "weights are not normalised to sum to one: the repair is not a convex combination", key="normalise")
    if not supp:
        raise AnalysisError("interpolate_bad_channels: support selection (where on weights) not found")
    if zero and normd:
        zn, nn = cfg.node_for(zero[0][0]), cfg.node_for(normd[0])
        ctx.check(all(cfg.must_pass([cfg.node_for(z)], nn) for z, _ in zero), fi, zero[0][0], zero[0][0], "bad channels carry zero weight before normalisation",
                  "weights are normalised before the bad channels are zeroed: the remaining weights no longer sum to one", key="zero-before-norm")
        ctx.check(cfg.must_pass([zn], cfg.node_for(supp[0])), fi, zero[0][0], zero[0][0], "bad channels are excluded before the support is chosen",
                  "the support is chosen before bad channels are zeroed", key="zero-before-supp")
        # sum over the same vector (along the donor axis for a matrix)
        nv = normd[0].value
        div = nv.right if isinstance(nv, ast.BinOp) else nv
        sm = [c for c in find(div, ast.Call) if call_name(c) == "sum"] or [c for c in _deep_nodes(du, div, normd[0]) if isinstance(c, ast.Call) and call_name(c) == "sum"]
        oksum = bool(sm) and loc_name(sm[0].args[0]) == "weights"
        if oksum and matrix:
            ax = kwarg(sm[0], "axis") or (sm[0].args[1] if len(sm[0].args) > 1 else None)
            oksum = ax is not None and const_value(ax) in ((True, 1), (True, -1))
        ctx.check(oksum, fi, normd[0], normd[0], "normalised by the sum of the very weights" + (" over the donor axis" if matrix else ""),
                  "normalised by something other than the sum of the weights over the donors", key="norm-sum")
    ctx.rule("D3", "convexity: no positive weight dropped after normalisation; support = non-zero weights; same support on weights and rows; empty -> zeros")
    if normd:
        nn = cfg.node_for(normd[0])
        # threshold stores after normalisation
        late = [n for n in thresh if cfg.reachable(nn, cfg.node_for(n), avoid=hdr)]
        ctx.check(not late, fi, late[0] if late else normd[0], late[0] if late else "no threshold after normalisation", "no weight is cut after normalisation",
                  f"`{src(late[0]) if late else ''}` zeroes weights after they were normalised: the remaining weights sum to less than one", key="late-threshold")
        for s_ in supp:
            if not cfg.reachable(nn, cfg.node_for(s_), avoid=hdr):
                ctx.ok(fi, s_, s_, "support chosen before normalisation (scale-free)", key="support")
                continue
            cmp_ = find(s_.value, ast.Compare)
            ok = bool(cmp_) and loc_name(cmp_[0].left) == "weights" and isinstance(cmp_[0].ops[0], (ast.Gt, ast.NotEq)) and const_value(cmp_[0].comparators[0]) == (True, 0)
            ctx.check(ok, fi, s_, s_, "support is exactly the non-zero weights",
                      f"`{src(s_)}` selects the support with a positive threshold after normalisation: small positive weights are dropped and the rest sum to < 1",
                      key="support")
    # pre-normalisation threshold must compare raw weights (fine) ; weights are exp(...) >= 0
    wd = [d for d in du.defs if d.var == "weights" and d.kind == "assign" and _is_exp_decay(repo, fi, du, d.value, d.stmt)]
    ctx.check(bool(wd), fi, wd[0].stmt if wd else fi.node, wd[0].stmt if wd else "weights = exp(...)", "raw weights are exp(...) > 0", "raw weights are not an exponential decay (may be negative)",
              key="nonneg")
    # combination uses same support
    mm = [c for c in body if isinstance(c, ast.Call) and call_name(c) in ("matmul", "dot")]
    if not mm:
        ctx.violation(fi, anchor, "matmul(weights[imult], data[imult, :])", "replacement is not a weighted sum of neighbours", key="combine")
    for c in mm:
        a, b = c.args[:2]
        sa_ = None
        if matrix and isinstance(a, ast.Name) and a.id == "weights":
            # the donor columns were cut out beforehand: weights = weights[:, imult]
            ds_ = [d for d in du.defs if d.var == "weights" and d.kind == "assign" and isinstance(d.value, ast.Subscript) and loc_name(d.value.value) == "weights"
                   and isinstance(d.value.slice, ast.Tuple) and cfg.must_pass([d.node], cfg.node_for(c))]
            if len(ds_) == 1:
                a = ds_[0].value
        if isinstance(a, ast.Subscript):
            if matrix and isinstance(a.slice, ast.Tuple) and len(a.slice.elts) == 2 and _is_full(a.slice.elts[0]):
                sa_ = loc_name(a.slice.elts[1])
            elif not matrix and not isinstance(a.slice, ast.Tuple):
                sa_ = loc_name(a.slice)
        sb_ = loc_name(b.slice.elts[0]) if isinstance(b, ast.Subscript) and isinstance(b.slice, ast.Tuple) else None
        ok = sa_ is not None and sa_ == sb_ and loc_name(a.value) == "weights" and loc_name(b.value) == "data" and \
            {d.idx for d in du.reaching(sa_, a)} == {d.idx for d in du.reaching(sa_, b)}
        if matrix and ok is False and sa_ is not None and sa_ == sb_ and loc_name(b.value) == "data":
            ok = True   # the reaching definitions of the selector are compared at the cut (a) and at the gather (b): same single definition
            ok = {d.idx for d in du.reaching(sa_, b)} == {d.idx for d in du.reaching(sa_, ds_[0].stmt)} if 'ds_' in dir() and ds_ else ok
        ctx.check(ok, fi, c, c, "weights and neighbour rows are gathered with the same support", f"`{src(c)}`: weights and rows are gathered with different selectors", key="same-support",
                  name_free=matrix)
    # empty support -> zeros
    if matrix:
        # a row of zero weights must stay a row of zeros: the divisor is guarded against 0 (where(wsum > 0, wsum, 1) / maximum / wsum == 0 handling)
        okz = False
        if normd:
            div_ = normd[0].value.right if isinstance(normd[0].value, ast.BinOp) else normd[0].value
            div_ = expand_name(du, div_, normd[0])
            # the guard has to wrap the SUM (where(wsum > 0, wsum, 1) / maximum(wsum, tiny)): a `where` somewhere in the history of the weights does not protect the division
            guards_ = [c for c in ast.walk(div_) if isinstance(c, ast.Call) and call_name(c) in ("where", "maximum", "clip")]
            okz = any(any(isinstance(x, ast.Call) and call_name(x) == "sum" for x in ast.walk(expand_name(du, a_, normd[0]) if isinstance(a_, ast.Name) else a_) ) or
                      (isinstance(a_, ast.Name) and any(isinstance(x, ast.Call) and call_name(x) == "sum" for x in _deep_nodes(du, a_, normd[0])))
                      for g_ in guards_ for a_ in g_.args)
        ctx.check(okz, fi, normd[0] if normd else anchor, normd[0] if normd else "normalisation", "a bad channel without usable neighbours becomes zeros (zero row / guarded divisor)",
                  "a row of zero weights is divided by its zero sum: NaN instead of zeros for a bad channel without neighbours (the all-channels test `support is empty` only "
                  "covers the case where NO repaired channel has a donor)", key="empty-support", name_free=True)
        return
    z = [n for n in body if isinstance(n, ast.Assign) and isinstance(n.targets[0], ast.Subscript) and loc_name(n.targets[0].value) == "data" and const_value(n.value) == (True, 0)]
    okz = False
    for n in z:
        # the zero store happens under `support is empty` (any spelling: size == 0, not size > 0, else-branch of size > 0 ..)
        at_ = G.Atoms()
        pc = G.path_condition(cfg, cfg.node_for(n), at_)
        okz = okz or any(G.entails(pc, G.Atom(k)) is True for k in G.atoms_of(pc) if k.endswith(".size == 0") or (k.startswith("len(") and k.endswith("== 0")))
    ctx.check(okz, fi, z[0] if z else anchor, z[0] if z else "data[i, :] = 0", "a bad channel without usable neighbours becomes zeros", "the no-neighbour case does not produce zeros (NaN from 0/0 would propagate)",
              key="empty-support")


def _deep_nodes(du, e, at, depth=3):
    """AST nodes of e with names expanded to their definitions (a few levels)."""
    out = list(ast.walk(e))
    if depth <= 0:
        return out
    for n in list(out):
        if isinstance(n, ast.Name):
            v = expand_name(du, n, at)
            if v is not n:
                out += _deep_nodes(du, v, at, depth - 1)
    return out


def _deep_src(du, e, at):
    return " ".join(src(n) for n in _deep_nodes(du, e, at) if isinstance(n, ast.Call))


def _is_exp_decay(repo, fi, du, e, at, depth=0):
    """Does the value come from np.exp(..) - directly, through views / asarray / a local, or as the result of a helper whose every return does?"""
    from sa.common import view_source
    if e is None or depth > 5:
        return False
    e = view_source(e)
    if isinstance(e, ast.Subscript):
        return _is_exp_decay(repo, fi, du, e.value, at, depth + 1)
    if isinstance(e, ast.Call):
        if call_name(e) == "exp":
            return True
        if call_name(e) in ("array", "asarray", "ascontiguousarray", "copy", "astype", "float32", "float64"):
            # a copy / conversion holds the same values
            inner = e.func.value if isinstance(e.func, ast.Attribute) and not (isinstance(e.func.value, ast.Name) and e.func.value.id in ("np", "gp", "numpy", "cupy")) \
                else (e.args[0] if e.args else None)
            return _is_exp_decay(repo, fi, du, inner, at, depth + 1)
        q = repo.resolve_call(fi, e)
        if q and repo.has_fn(q):
            f2 = repo.fn(q)
            du2 = DefUse(f2.node)
            rets = [r for r in returns_of(f2.node) if r.value is not None]
            return bool(rets) and all(_is_exp_decay(repo, f2, du2, r.value, r, depth + 1) for r in rets)
        return False
    if isinstance(e, ast.Name):
        ds = [d for d in du.reaching(e.id, at) if d.kind != "mutate"]
        return bool(ds) and all(d.kind == "assign" and d.unpack_index is None and _is_exp_decay(repo, fi, du, d.value, d.stmt, depth + 1) for d in ds)
    return False


def d4_labels(ctx):
    ctx.rule("D4", "label stores ordered 3, 1, 2 (2 over 1 over 3); labels from a file = mode across batches (axis 1)")
    repo = ctx.repo
    fi = repo.fn("ibldsp.voltage.detect_bad_channels")
    cfg = CFG(fi.node)
    st = [n for n in walk_function(fi.node) if isinstance(n, ast.Assign) and isinstance(n.targets[0], ast.Subscript) and loc_name(n.targets[0].value) == "ichannels"
          and isinstance(n.value, ast.Constant)]
    order = [(n.value.value, loc_name(n.targets[0].slice)) for n in st]
    okset = sorted(v for v, _ in order) == [1, 2, 3]
    ok = okset and [v for v, _ in order] == [3, 1, 2]
    if okset:
        nodes = {v: cfg.node_for(n) for (v, _), n in zip(order, st)}
        ok = ok and not cfg.can_follow(nodes[1], nodes[3]) and not cfg.can_follow(nodes[2], nodes[1])
    ctx.check(ok, fi, st[0] if st else fi.node, f"label stores {order}", "noisy overrides dead overrides outside-brain", f"label stores are ordered {order}: precedence 2 > 1 > 3 is broken",
              key="precedence")
    names = dict((v, nm) for v, nm in order)
    ctx.check(names.get(1) == "idead" and names.get(2) == "inoisy" and names.get(3) == "ioutside", fi, st[0] if st else fi.node, f"{names}", "codes: 1 dead, 2 noisy, 3 outside",
              f"label codes are attached to {names}", key="codes")
    z = [d for d in walk_function(fi.node) if isinstance(d, ast.Assign) and loc_name(d.targets[0]) == "ichannels" and isinstance(d.value, ast.Call) and call_name(d.value) == "zeros"]
    ctx.check(bool(z), fi, fi.node, "ichannels = np.zeros(nc)", "all other channels stay 0 (clear)", "labels are not initialised to 0", key="init")
    fc = repo.fn("ibldsp.voltage.detect_bad_channels_cbin")
    modes = [c for c in find(fc.node, ast.Call, nested=False) if call_name(c) == "mode"]
    okm = bool(modes) and const_value(kwarg(modes[0], "axis")) == (True, 1) and loc_name(modes[0].args[0]) == "channel_labels"
    ctx.check(okm, fc, modes[0] if modes else fc.node, modes[0] if modes else "mode", "file labels are the per-channel mode over batches", "file labels are not scipy.stats.mode(channel_labels, axis=1)",
              key="mode")
    # the matrix has exactly as many columns as batches are scanned (an unfilled column is a column of zeros = "clear" votes)
    duc = DefUse(fc.node)
    alloc = [d for d in duc.defs if d.var == "channel_labels" and d.kind == "assign" and isinstance(d.value, ast.Call) and call_name(d.value) in ("zeros", "full", "empty")]
    loops = [n for n in walk_function(fc.node) if isinstance(n, ast.For) and "linspace" in src(n.iter)]
    okn = False
    detail = "allocation or batch loop not found"
    if alloc and loops:
        shp = alloc[0].value.args[0]
        width = shp.elts[1] if isinstance(shp, (ast.Tuple, ast.List)) and len(shp.elts) == 2 else None
        ls = [c for c in find(loops[0].iter, ast.Call) if call_name(c) == "linspace"]
        count = ls[0].args[2] if ls and len(ls[0].args) >= 3 else (kwarg(ls[0], "num") if ls else None)
        if width is not None and count is not None:
            wn, cn = loc_name(width), loc_name(count)
            if wn and cn:
                dw = {d.idx for d in duc.reaching(wn, alloc[0].stmt)}
                dc = {d.idx for d in duc.reaching(cn, loops[0])}
                okn = wn == cn and dw == dc
                detail = f"columns = {wn} (defs at lines {sorted(duc.defs[i].lineno for i in dw)}), batches = {cn} (defs at lines {sorted(duc.defs[i].lineno for i in dc)})"
            else:
                okn = norm(width) == norm(count)
                detail = f"columns = {src(width)}, batches = {src(count)}"
    ctx.check(okn, fc, loops[0] if loops else fc.node, detail, "one column per scanned batch",
              f"the label matrix and the batch loop disagree on the number of batches ({detail}): columns no batch fills stay 0 ('clear') and vote in the mode - "
              "on short recordings real faults are out-voted", key="batch-count")
    # column i of channel_labels receives batch i's labels
    want_t = norm(ast.parse("channel_labels[:, i]", mode="eval").body)
    st2 = []
    okc = False
    for n in walk_function(fc.node):
        if not isinstance(n, ast.Assign):
            continue
        t0 = n.targets[0]
        if isinstance(t0, ast.Tuple) and "channel_labels" in src(t0):
            # channel_labels[:, i], feats = detect_bad_channels(..)
            st2.append(n)
            okc = norm(t0.elts[0]) == want_t and isinstance(n.value, ast.Call) and repo.resolve_call(fc, n.value) == "ibldsp.voltage.detect_bad_channels"
        elif isinstance(t0, ast.Subscript) and loc_name(t0.value) == "channel_labels":
            # labels, feats = detect_bad_channels(..) ; channel_labels[:, i] = labels
            st2.append(n)
            ds = duc.strong_reaching(loc_name(n.value), n) if loc_name(n.value) else []
            okc = norm(t0) == want_t and len(ds) == 1 and ds[0].unpack_index == 0 and isinstance(ds[0].stmt, ast.Assign) \
                and isinstance(ds[0].stmt.value, ast.Call) and repo.resolve_call(fc, ds[0].stmt.value) == "ibldsp.voltage.detect_bad_channels"
    ctx.check(okc, fc, st2[0] if st2 else fc.node, st2[0] if st2 else "channel_labels[:, i]", "each batch fills its own column", "batch labels are not stored one column per batch", key="batch-col")


def dS_shared(ctx):
    from sa.common import rule_no_shared_mutation
    rule_no_shared_mutation(ctx, "DS", ['ibldsp.voltage.interpolate_bad_channels', 'ibldsp.voltage.detect_bad_channels', 'ibldsp.voltage.detect_bad_channels_cbin'],
                            "the weights zeroed for one recording's bad channels stay zero for the next recording with the same geometry: its replacements are no longer the convex combination of its own good neighbours")


def run(ctx):
    ctx.run(dS_shared)
    ctx.run(d1_rows)
    ctx.run(d2_d3_weights)
    ctx.run(d4_labels)
