"""C16 - saturation flags follow the proportion rule and the mute gain covers them (structural clauses)."""
import ast

from sa.algebra import Evaluator, Poly, SymExec, Undecided
from sa.calls import bind
from sa import guards as GD
from sa.common import value_alternatives, chain_root, expand_name, resolved_calls, returns_of
from sa.defuse import DefUse, loc_name
from sa.model import AnalysisError, AnchorMissing, const_value, src, walk_function
from sa.struct import call_name, find, kwarg, norm

EXPLANATION = (
    "Decides structural necessary conditions of C16 in voltage.saturation: (D1) the range test is mean over channels "
    "(axis 0) of |data| > max_voltage * 0.98 (strict, factor 0.98 from the property statement), the slew test is the mean "
    "over channels of |diff along time| / fs compared with v_per_sec and padded with a trailing 0 (flag on the sample before "
    "the jump), both proportion tests are strict `> proportion` and combined by OR; the slew comparator's strictness is "
    "ambiguous in the statement and is not armed; (D2) the mute gain's backward slice contains the data only through "
    "the final boolean flags (plus the taper width); (D3) mute = maximum(0, 1 - convolve(flags, cosine window, mode='same')) "
    "hence in [0, 1]; (D4) the function returns (flags, mute) and decompress_destripe_cbin unpacks in that order, calling "
    "with data and full-scale vector cut by the same column bound; Reader.range_volts = sample2volts * max-int. "
    "'0 on every flagged sample' and the taper reach are numeric facts about the cosine window and are NOT decided."
    ' (D6) work arrays allocated before a loop and re-used by every iteration: an iteration that rewrites only part of the buffer does not read beyond the rewritten range (stale rows of the previous channel block). D1 also understands counts accumulated over channel blocks.'
    ' (D1 as built) when the two proportion tests are not combined pairwise the function is evaluated on value terms (E14, sa/arrterm.py: out= / in-place / view semantics): flags must equal (mean_ch(|data| > 0.98 max_voltage) > proportion) | ([mean_ch(|diff(data)|/fs >= v_per_sec), 0] > proportion); a slew test on |data| is reported.'
    ' (D1 time blocks) when the per-sample fractions are filled block of samples by block, the block that is differentiated must reach one sample past the range it fills; padding every block with a 0 drops the slew across block edges.'
    ' (D3 scatter form) the mute written as ones(ns) minus window taps laid around the flagged samples: tap offset k - (W - 1) // 2, taps of the cosine window, BOTH array bounds filtered (a negative index counts from the end), clamp at 0; an early all-ones return needs `no sample flagged`.'
)
ASSUMPTIONS = [
    "scipy.signal.windows.cosine is non-negative; scipy.signal.convolve of non-negative inputs is non-negative (model table)",
    "np.mean of a boolean array along axis 0 is the fraction of channels",
]

FN = "ibldsp.voltage.saturation"


UFUNC_CMP = {"greater": ast.Gt, "greater_equal": ast.GtE, "less": ast.Lt, "less_equal": ast.LtE}


def _block_accumulated(du, e, at):
    """`ACC / nc` (or ACC) where ACC = zeros(ns) is accumulated, in a loop over channel blocks `for first in range(0, nc, blk)`, by
    ACC[..] += count_nonzero(BUF, axis=0) and BUF is filled by a comparison ufunc with out=BUF[rows].  Returns (comparison rebuilt as an ast.Compare
    on the block operands, axis, count call, 'fraction' | 'count', block info) or None."""
    v = e
    unit = "count"
    if isinstance(v, ast.BinOp) and isinstance(v.op, ast.Div) and loc_name(v.right) in ("nc", "data.shape[0]", "len(data)"):
        v, unit = v.left, "fraction"
    acc = loc_name(v)
    if acc is None:
        vv = expand_name(du, v, at)
        if isinstance(vv, ast.BinOp) and isinstance(vv.op, ast.Div) and loc_name(vv.right) in ("nc", "data.shape[0]", "len(data)"):
            vv, unit = vv.left, "fraction"
        acc = loc_name(vv)
    if acc is None:
        return None
    augs = [d for d in du.defs if d.var == acc and d.kind in ("aug", "mutate") and isinstance(d.stmt, ast.AugAssign) and isinstance(d.stmt.op, ast.Add)]
    for d in augs:
        cn = d.stmt.value
        if not (isinstance(cn, ast.Call) and call_name(cn) in ("count_nonzero", "sum") and cn.args):
            continue
        broot = cn.args[0]
        while isinstance(broot, ast.Subscript):
            broot = broot.value
        buf = loc_name(broot)
        if buf is None:
            continue
        ax = kwarg(cn, "axis") or (cn.args[1] if len(cn.args) > 1 else None)
        # the loop and the comparison that fills the buffer in the same iteration
        loop = None
        for n in ast.walk(du.fn):
            if isinstance(n, ast.For) and any(x is d.stmt for b in n.body for x in ast.walk(b)):
                loop = n
        if loop is None:
            continue
        for c in [x for b in loop.body for x in ast.walk(b) if isinstance(x, ast.Call) and call_name(x) in UFUNC_CMP]:
            out = kwarg(c, "out") or (c.args[2] if len(c.args) > 2 else None)
            root = out
            while isinstance(root, ast.Subscript):
                root = root.value
            if loc_name(root) != buf or len(c.args) < 2:
                continue
            cmp_ = ast.copy_location(ast.Compare(left=c.args[0], ops=[UFUNC_CMP[call_name(c)]()], comparators=[c.args[1]]), c)
            ast.fix_missing_locations(cmp_)
            return cmp_, ax, cn, unit, {"loop": loop, "buffer": buf, "out": out, "ufunc": c, "acc_stmt": d.stmt}
    return None


def _strip_rows(e, loop):
    """x for x[first:first + blk] / x[first:first + blk, :] / broadcast_to(x, (nc, 1))[first:first + blk] when the slice is the loop's block; (x, slice text)."""
    if isinstance(e, ast.Subscript):
        sl = e.slice.elts[0] if isinstance(e.slice, ast.Tuple) else e.slice
        if isinstance(sl, ast.Slice) and loc_name(sl.lower) == loc_name(loop.target):
            inner = e.value
            if isinstance(inner, ast.Call) and call_name(inner) == "broadcast_to" and inner.args:
                inner = inner.args[0]
            return inner, norm(sl)
    return e, None


def _mean_of_compare(du, e, at):
    """(mask comparison, axis, call, 'fraction'|'count') behind a channel-proportion operand."""
    blk = _block_accumulated(du, e, at)
    if blk is not None:
        cmp_, ax, cn, unit, info = blk
        loop = info["loop"]
        # the block slices of both operands are the same rows, the blocks tile the channels: range(0, nc, B) with rows [first : first + B]
        ok_tile = False
        it = loop.iter
        if isinstance(it, ast.Call) and call_name(it) == "range" and len(it.args) == 3 and const_value(it.args[0]) == (True, 0) and loc_name(it.args[1]) in ("nc", "data.shape[0]"):
            step = it.args[2]
            rows = []

            def visit(x):
                y, sl = _strip_rows(x, loop)
                if sl is not None:
                    rows.append((x, sl))
                for ch in ast.iter_child_nodes(x):
                    visit(ch)
            visit(cmp_)
            want = norm(ast.Slice(lower=loop.target, upper=ast.BinOp(left=loop.target, op=ast.Add(), right=step), step=None))
            ok_tile = bool(rows) and all(sl == want for _, sl in rows)
        if not ok_tile:
            raise AnalysisError("saturation: channel blocks are not rows [first : first + step] of a range(0, nc, step) loop")

        class Unblock(ast.NodeTransformer):
            def visit_Subscript(self, node):
                node = self.generic_visit(node)
                y, sl = _strip_rows(node, loop)
                if sl is None:
                    return node
                if isinstance(node.slice, ast.Tuple) and all(isinstance(x, ast.Slice) and x.lower is None and x.upper is None for x in node.slice.elts[1:]):
                    return y
                if not isinstance(node.slice, ast.Tuple):
                    return y
                return node
        import copy
        whole = Unblock().visit(copy.deepcopy(cmp_))
        ast.fix_missing_locations(whole)
        whole._origin = info["ufunc"]
        whole._block = info
        if "diff" in src(whole):
            # the slew flag sits on the sample before the jump: the ns-1 differences are accumulated into ACC[:-1] of a zeros(ns) vector (last sample never flagged)
            tg = info["acc_stmt"].target
            okpad = isinstance(tg, ast.Subscript) and isinstance(tg.slice, ast.Slice) and tg.slice.lower is None and tg.slice.upper is not None \
                and const_value(tg.slice.upper) == (True, -1)
            whole._pad_ok = okpad
        return whole, ax, cn, ("fraction" if unit == "fraction" else "count")
    v = expand_name(du, e, at)
    tb = _time_blocked(du, e, at)
    if tb is not None:
        return tb
    frac_div = False
    if isinstance(v, ast.BinOp) and isinstance(v.op, ast.Div) and isinstance(v.left, ast.Call) and call_name(v.left) in ("count_nonzero", "sum") and _is_channel_count(du, v.right, at):
        # count of channels / number of channels  ==  mean over channels
        v, frac_div = v.left, True
    if isinstance(v, ast.Call) and call_name(v) in ("zeros", "zeros_like") and isinstance(e, ast.Name):
        # a zero vector of ns entries filled on [:-1] with the ns - 1 slew fractions: the padded form (last sample never flagged)
        d0 = [d for d in du.strong_reaching(e.id, at) if d.kind == "assign"]
        st = [m for m in du.defs if m.var == e.id and m.kind == "mutate" and d0 and du.cfg.reachable(d0[0].node, m.node) and du.cfg.reachable(m.node, du.cfg.node_for(at))]
        if len(st) == 1 and isinstance(st[0].stmt, ast.Assign) and isinstance(st[0].stmt.targets[0], ast.Subscript):
            tg = st[0].stmt.targets[0]
            okpad = isinstance(tg.slice, ast.Slice) and tg.slice.lower is None and tg.slice.upper is not None and const_value(tg.slice.upper) == (True, -1)
            r = _mean_of_compare(du, st[0].stmt.value, st[0].stmt)
            if r[0] is not None:
                r[0]._pad_ok = okpad
                r[0]._padded_store = True
                return r
    if isinstance(v, ast.Call) and call_name(v) in ("mean", "count_nonzero", "sum") and v.args:
        ax = kwarg(v, "axis") or (v.args[1] if len(v.args) > 1 else None)
        cmp_ = expand_name(du, v.args[0], at)
        if isinstance(cmp_, ast.Compare) and len(cmp_.ops) == 1:
            return cmp_, ax, v, ("fraction" if (call_name(v) == "mean" or frac_div) else "count")
    return None, None, v, None


def _is_channel_count(du, e, at):
    """nc / data.shape[0] / len(data): the number of channels (rows of data), possibly unpacked from data.shape"""
    t = src(e).replace(" ", "")
    if t in ("data.shape[0]", "len(data)"):
        return True
    if isinstance(e, ast.Name):
        for d in du.strong_reaching(e.id, at):
            if d.kind == "unpack" and d.unpack_index == 0 and d.value is not None and src(d.value).replace(" ", "") == "data.shape":
                return True
            if d.kind == "assign" and d.value is not None and src(d.value).replace(" ", "") in ("data.shape[0]", "len(data)"):
                return True
    return False


def _time_blocked(du, e, at):
    """The per-sample fraction is filled block of SAMPLES by block: ACC = zeros(ns); for first in range(0, ns, B): last = min(first + B, ns);
    ACC[first:last] = mean(<test on data[:, lo:hi]>, axis=0) (the slew part padded).  Returns the test with the block slices replaced by the whole
    array, and records in `_tblock` what the rule has to know about the block edges."""
    if not isinstance(e, ast.Name):
        return None
    ds = [d for d in du.defs if d.var == e.id and d.kind == "assign" and isinstance(d.value, ast.Call) and call_name(d.value) in ("zeros", "zeros_like")]
    if not ds:
        return None
    fn_node = du.cfg.fn if hasattr(du.cfg, "fn") else None
    stores = []
    for m in du.defs:
        if m.var == e.id and m.kind == "mutate" and isinstance(m.stmt, ast.Assign) and isinstance(m.stmt.targets[0], ast.Subscript) and isinstance(m.stmt.targets[0].slice, ast.Slice):
            stores.append(m.stmt)
    if len(stores) != 1:
        return None
    st = stores[0]
    sl = st.targets[0].slice
    lo, hi = loc_name(sl.lower), sl.upper
    if not lo or hi is None:
        return None
    # the enclosing loop: for <lo> in range(0, ns, B)
    loop = None
    for n in du.cfg.nodes:
        s_ = n.stmt
        if isinstance(s_, ast.For) and loc_name(s_.target) == lo and any(x is st for x in ast.walk(s_)):
            loop = s_
    if loop is None or not (isinstance(loop.iter, ast.Call) and call_name(loop.iter) == "range" and len(loop.iter.args) == 3):
        return None
    val = expand_name(du, st.value, st)
    padded = False
    if isinstance(val, ast.Subscript) and isinstance(val.value, ast.Attribute) and val.value.attr == "r_":
        parts = val.slice.elts if isinstance(val.slice, ast.Tuple) else [val.slice]
        if len(parts) == 2 and const_value(parts[1]) == (True, 0):
            padded = True
            val = expand_name(du, parts[0], st)
    if not (isinstance(val, ast.Call) and call_name(val) in ("mean", "count_nonzero", "sum") and val.args):
        return None
    ax = kwarg(val, "axis") or (val.args[1] if len(val.args) > 1 else None)
    cmp_ = expand_name(du, val.args[0], st)
    if not (isinstance(cmp_, ast.Compare) and len(cmp_.ops) == 1):
        return None
    # block operands: names defined in the loop as data[:, a:b] (possibly through asarray)
    block_cols = []
    import copy

    class Unblock(ast.NodeTransformer):
        def visit_Name(self, node):
            v_ = expand_name(du, node, st)
            cur = v_
            while isinstance(cur, ast.Call) and call_name(cur) in ("asarray", "array", "ascontiguousarray", "astype") and (cur.args or isinstance(cur.func, ast.Attribute)):
                cur = cur.args[0] if cur.args and not (isinstance(cur.func, ast.Attribute) and call_name(cur) == "astype") else cur.func.value
            if isinstance(cur, ast.Subscript) and loc_name(cur.value) == "data" and isinstance(cur.slice, ast.Tuple) and len(cur.slice.elts) == 2 \
                    and isinstance(cur.slice.elts[1], ast.Slice):
                block_cols.append(cur.slice.elts[1])
                return ast.Name(id="data", ctx=ast.Load())
            return node
    def _direct(self, node):
        node = self.generic_visit(node)
        if isinstance(node, ast.Subscript) and loc_name(node.value) == "data" and isinstance(node.slice, ast.Tuple) and len(node.slice.elts) == 2 \
                and isinstance(node.slice.elts[1], ast.Slice) and isinstance(node.slice.elts[0], ast.Slice) and node.slice.elts[0].lower is None and node.slice.elts[0].upper is None:
            block_cols.append(node.slice.elts[1])
            return ast.Name(id="data", ctx=ast.Load())
        return node

    def _wrap(self, node):
        node = self.generic_visit(node)
        if call_name(node) in ("asarray", "array", "ascontiguousarray") and len(node.args) == 1 and isinstance(node.args[0], ast.Name) and node.args[0].id == "data":
            return node.args[0]
        return node
    Unblock.visit_Subscript = _direct
    Unblock.visit_Call = _wrap
    whole = Unblock().visit(copy.deepcopy(cmp_))
    ast.fix_missing_locations(whole)
    if not block_cols:
        return None
    whole._origin = st
    whole._tblock = {"loop": loop, "store": st, "lo": lo, "hi": hi, "padded": padded, "cols": block_cols}
    return whole, ax, val, ("fraction" if call_name(val) == "mean" else "count")


def _flags_term(fi):
    """term of the first returned value of saturation (E14), or Undecided"""
    from sa.arrterm import TermExec
    body = [s_ for s_ in fi.node.body if not (isinstance(s_, ast.Expr) and isinstance(s_.value, ast.Constant))]
    if any(isinstance(s_, (ast.For, ast.While, ast.If, ast.With, ast.Try)) for s_ in body):
        raise Undecided("saturation is not straight-line code")
    tx = TermExec(fi.params)
    ret = tx.run(body)
    if not ret or len(ret) != 2:
        raise Undecided("saturation does not return a pair")
    return ret[0], ret[1]


def _model_comparators(ctx, repo, fi):
    """D1 on value terms: flags == (mean_ch(|data| > 0.98 * max_voltage) > proportion) | ([mean_ch(|diff(data)| / fs >(=) v_per_sec), 0] > proportion)"""
    from sa.arrterm import show, simplify
    flags, _ = _flags_term(fi)
    D, MV, P, FS, V = ("p", "data"), ("p", "max_voltage"), ("p", "proportion"), ("p", "fs"), ("p", "v_per_sec")
    rng = ("cmp", "Gt", ("mean0", ("cmp", "Gt", ("abs", D), simplify(("mul", MV, ("c", 0.98))))), P)

    def slew(op):
        return ("cmp", "Gt", ("pad0", ("mean0", ("cmp", op, ("div", ("abs", ("diff", D)), FS), V))), P)
    wants = [simplify(("or", rng, slew(op))) for op in ("GtE", "Gt")]
    if flags in wants:
        ctx.ok(fi, fi.node, show(flags)[:200], "flags = (fraction of channels beyond 98 % of full scale > proportion) | (fraction of channels slewing faster than v_per_sec > proportion, "
               "padded at the end)", key="model-flags")
        return True
    # diagnose
    txt = show(flags)
    reason = f"the flags evaluate to {txt[:260]}; expected {show(wants[0])[:260]}"

    def has(t, pat):
        if t == pat:
            return True
        return isinstance(t, tuple) and any(has(x, pat) for x in t if isinstance(x, tuple))
    if has(flags, ("diff", ("abs", D))):
        reason = ("the slew test differentiates |data|, not data: the step between two samples is measured as | |v[t+1]| - |v[t]| |, so a swing through zero "
                  "(-400 uV to +400 uV) reads as no change and the sample is not flagged although the channels exceed the slew limit")
    elif flags[0] == "and":
        reason = "the two tests are AND-ed: range-only or slew-only saturation is no longer flagged"
    ctx.violation(fi, fi.node, txt[:160], reason, key="model-flags", name_free=True)
    return True


def d1_comparators(ctx):
    ctx.rule("D1", "range test |data| > 0.98*max_voltage, slew test |diff|/fs vs v_per_sec padded at the end, both `> proportion`, OR-combined")
    repo = ctx.repo
    fi = repo.fn(FN)
    du = DefUse(fi.node)
    ors_ = [c for c in find(fi.node, ast.Call, nested=False) if call_name(c) in ("logical_or", "logical_and", "bitwise_or", "bitwise_and")]
    binops_ = [b for b in find(fi.node, ast.BinOp, nested=False) if isinstance(b.op, (ast.BitOr, ast.BitAnd)) and find(b, ast.Compare)]
    if not ors_ and not binops_:
        # no explicit pairwise combination: decide on the value terms of the whole (straight-line) function
        try:
            _model_comparators(ctx, repo, fi)
            return
        except Undecided as e:
            raise AnalysisError(f"saturation: the two proportion tests are not combined pairwise and the value model is undecided ({e})")
    ors = [c for c in find(fi.node, ast.Call, nested=False) if call_name(c) in ("logical_or", "logical_and", "bitwise_or", "bitwise_and")]
    binops = [b for b in find(fi.node, ast.BinOp, nested=False) if isinstance(b.op, (ast.BitOr, ast.BitAnd)) and find(b, ast.Compare)]
    comb = None
    if ors:
        comb = (call_name(ors[0]), ors[0].args, ors[0])
    elif binops:
        comb = ("logical_or" if isinstance(binops[0].op, ast.BitOr) else "logical_and", [binops[0].left, binops[0].right], binops[0])
    if comb is None:
        raise AnchorMissing("saturation: combination of the two proportion tests not found")
    ctx.check(comb[0] in ("logical_or", "bitwise_or"), fi, comb[2], comb[2], "a sample is flagged when either test exceeds the proportion",
              "the two tests are AND-ed: range-only or slew-only saturation is no longer flagged", key="or")
    kinds = {}
    for a in comb[1]:
        if not (isinstance(a, ast.Compare) and len(a.ops) == 1):
            raise AnalysisError(f"saturation: proportion test `{src(a)}` is not a comparison")
        cmp_, ax, full, unit = _mean_of_compare(du, a.left, comb[2])
        if unit == "count":
            # count of channels > proportion * n_channels  is the same test in integer form
            try:
                rhs = Evaluator(resolve=lambda e: repo.resolve_expr(fi, e)).ev(expand_name(du, a.comparators[0], comb[2]))
            except Undecided:
                rhs = None
            nsyms = [x for x in (rhs.symbols() if rhs is not None else []) if x not in ("proportion",)]
            okc = isinstance(a.ops[0], ast.Gt) and rhs is not None and len(nsyms) == 1 and ("shape[0]" in nsyms[0] or nsyms[0] in ("nc", "len(data)")) \
                and rhs == Poly.sym("proportion") * Poly.sym(nsyms[0])
            ctx.check(okc, fi, a, a, "strictly more than proportion * n_channels channels",
                      f"`{src(a)}` with threshold `{src(expand_name(du, a.comparators[0], comb[2]))}`: not `count > proportion * n_channels` - when proportion * n_channels is a whole number, exactly that many "
                      "offending channels are (not) flagged, unlike the strict proportion rule", key="prop:" + (loc_name(a.left) or "?"))
        else:
            ctx.check(isinstance(a.ops[0], ast.Gt) and loc_name(a.comparators[0]) == "proportion", fi, a, a, "strictly more than the proportion of channels",
                      f"`{src(a)}`: the proportion test is not a strict `> proportion`", key="prop:" + (loc_name(a.left) or "?"))
        if cmp_ is None:
            # the slew fraction is padded: r_[mean(...), 0]
            v = expand_name(du, a.left, comb[2])
            if isinstance(v, ast.Subscript) and isinstance(v.value, ast.Attribute) and v.value.attr == "r_":
                parts = v.slice.elts if isinstance(v.slice, ast.Tuple) else [v.slice]
                okpad = len(parts) == 2 and const_value(parts[1]) == (True, 0)
                ctx.check(okpad, fi, v, v, "slew fraction is padded with one trailing 0 (flag sits on the sample before the jump)",
                          f"`{src(v)}`: the slew fraction is not padded at the end: flags are shifted by one sample", key="pad")
                # the first part: find its definition before the pad statement
                nm = next((loc_name(x) for x in parts if loc_name(x)), None)
                ds = [d for d in du.defs if d.var == nm and d.kind == "assign" and isinstance(d.value, ast.Call) and call_name(d.value) in ("mean", "count_nonzero", "sum")]
                if ds:
                    cmp_, ax, full, unit = _mean_of_compare(du, ds[0].value, ds[0].stmt)
                elif parts and isinstance(parts[0], ast.Call):  # the fraction written inside the padding expression
                    cmp_, ax, full, unit = _mean_of_compare(du, parts[0], comb[2])
        if cmp_ is None:
            raise AnalysisError(f"saturation: cannot find the channel-fraction expression behind `{src(a.left)}`")
        ctx.check(const_value(ax) == (True, 0), fi, full, full, "fraction is taken over channels (axis 0)", f"fraction is taken over axis {src(ax) if ax else None}, not over channels",
                  key="axis:" + (loc_name(a.left) or "?"))
        if "diff" in src(cmp_):
            kinds["slew"] = cmp_
            tbk = getattr(cmp_, "_tblock", None)
            if tbk is not None:
                # the difference between the LAST sample of a block and the first sample of the next one belongs to the last sample of the block: the block that
                # is differentiated has to reach one sample past the range it fills (data[:, first:last + 1]); padding every block with a 0 drops that edge
                overlap = False
                hi_txt = src(tbk["hi"]).replace(" ", "")
                # the end of a block as the loop defines it: min(first + B, ns) / first + B
                rng = tbk["loop"].iter
                ends = []
                if isinstance(rng, ast.Call) and len(rng.args) == 3:
                    B_, N_ = src(rng.args[2]).replace(" ", ""), src(rng.args[1]).replace(" ", "")
                    ends = [f"min({tbk['lo']}+{B_},{N_})", f"{tbk['lo']}+{B_}", f"min({N_},{tbk['lo']}+{B_})"]
                for c_ in tbk["cols"]:
                    txt_ = src(c_.upper).replace(" ", "") if c_.upper is not None else ""
                    if any((e_ + "+1") in txt_ or ("1+" + e_) in txt_ for e_ in ends):
                        overlap = True
                for c_ in tbk["cols"]:
                    up = c_.upper
                    txt = src(up).replace(" ", "") if up is not None else ""
                    if up is None or norm(up) == norm(tbk["hi"]):
                        continue
                    try:
                        evb = Evaluator()
                        if (evb.ev(up) - evb.ev(tbk["hi"])).const_value() == 1:
                            overlap = True
                    except Undecided:
                        pass
                    if (hi_txt + "+1") in txt or ("1+" + hi_txt) in txt:
                        overlap = True
                ctx.check(overlap, fi, tbk["store"], tbk["store"], "blocks of samples overlap by one sample for the slew test (no edge is lost)",
                          f"`{src(tbk['store'])[:80]}`: the slew of each block of samples is computed on data[:, {tbk['lo']}:{src(tbk['hi'])}] alone"
                          f"{' and padded with a 0' if tbk['padded'] else ''}: the step from the last sample of a block to the first sample of the next block is never "
                          f"evaluated, so a saturation onset exactly at a block edge (sample k * block - 1) is not flagged and not muted - invisible while the input is "
                          "shorter than one block", key="block-edge", name_free=True)
            if hasattr(cmp_, "_pad_ok") and getattr(cmp_, "_padded_store", False):
                ctx.check(cmp_._pad_ok, fi, cmp_, cmp_, "slew fractions are stored into [:-1] of a zero vector (flag sits on the sample before the jump, last sample never flagged)",
                          "the ns-1 slew fractions are not stored into [:-1] of the per-sample vector: flags are shifted by one sample", key="pad")
            elif hasattr(cmp_, "_pad_ok"):
                ctx.check(cmp_._pad_ok, fi, cmp_._block["acc_stmt"], cmp_._block["acc_stmt"], "slew counts land on the sample before the jump (last sample never flagged)",
                          "the ns-1 slew counts are not accumulated into [:-1] of the per-sample vector: flags are shifted by one sample", key="pad")
            ev = Evaluator(resolve=lambda e: repo.resolve_expr(fi, e))
            d = find(cmp_.left, ast.Call, lambda c: call_name(c) == "diff")
            okd = bool(d) and const_value(kwarg(d[0], "axis")) in ((True, -1), (True, 1)) and loc_name(d[0].args[0]) == "data"
            okabs = any(call_name(c) in ("abs", "absolute") for c in find(cmp_.left, ast.Call))
            # |diff| / fs  vs v_per_sec
            class E(Evaluator):
                def ev(self, e):
                    if isinstance(e, ast.Call) and call_name(e) in ("abs", "absolute"):
                        return Poly.sym("ABS")
                    return super().ev(e)
            l = E().ev(cmp_.left)
            okform = l == Poly.sym("ABS") * Poly.sym("fs").pow(-1) and loc_name(cmp_.comparators[0]) == "v_per_sec"
            ctx.check(okd and okabs and okform and isinstance(cmp_.ops[0], (ast.Gt, ast.GtE)), fi, cmp_, cmp_, "slew = |first difference along time| / fs against v_per_sec",
                      f"slew test `{src(cmp_)}` is not |diff(data, axis=-1)| / fs >(=) v_per_sec", key="slew")
        else:
            kinds["range"] = cmp_
            okabs = isinstance(cmp_.left, ast.Call) and call_name(cmp_.left) in ("abs", "absolute") and loc_name(cmp_.left.args[0]) == "data"
            # value of the threshold at the comparison: run the straight-line code before it (a scaled copy held in a local is fine)
            from sa.algebra import SymExec
            ev = Evaluator(env={"max_voltage": Poly.sym("MV")}, resolve=lambda e: repo.resolve_expr(fi, e))
            sx = SymExec(ev, on_undecided="havoc")
            stmt_of_cmp = du.cfg.node_for(getattr(cmp_, "_origin", cmp_)).stmt
            if getattr(cmp_, "_block", None) is not None:
                stmt_of_cmp = cmp_._block["loop"]   # straight-line code before the block loop
            for st_ in fi.node.body:
                if st_ is stmt_of_cmp:
                    break
                if isinstance(st_, ast.Expr) and isinstance(st_.value, ast.Constant):
                    continue
                sx.step(st_)
            try:
                r = ev.ev(cmp_.comparators[0])
            except Undecided:
                r = None
            okr = r is not None and r == Poly.sym("MV") * Poly.const(0.98)
            ctx.check(okabs and okr and isinstance(cmp_.ops[0], ast.Gt), fi, cmp_, cmp_, "range test is |data| > 0.98 * full scale (strict)",
                      f"range test `{src(cmp_)}` is not |data| > max_voltage * 0.98", key="range")
    ctx.check(set(kinds) == {"range", "slew"}, fi, comb[2], f"tests {sorted(kinds)}", "both the range and the slew test take part", f"only {sorted(kinds)} take part", key="both")
    # cross-check on the value terms (E14) when the function is straight-line code: the slew test must differentiate the data itself
    try:
        from sa.arrterm import show
        ft, _ = _flags_term(fi)

        def has(t, pat):
            return t == pat or (isinstance(t, tuple) and any(has(x, pat) for x in t if isinstance(x, tuple)))
        if has(ft, ("diff", ("abs", ("p", "data")))):
            ctx.violation(fi, comb[2], show(ft)[:160], "the slew test differentiates |data|, not data: a swing through zero reads as no change", key="model-flags", name_free=True)
        elif has(ft, ("abs", ("diff", ("p", "data")))):
            ctx.ok(fi, comb[2], "value terms", "on the value terms the slew test is |diff(data)| (the data itself is differentiated)", key="model-flags")
    except Undecided:
        pass
    # max_voltage broadcast per channel
    from sa.common import aliases_param
    okb = False
    for sub in find(fi.node, ast.Subscript, nested=False):
        el = sub.slice.elts if isinstance(sub.slice, ast.Tuple) else [sub.slice]
        if len(el) == 2 and isinstance(el[1], ast.Attribute) and el[1].attr == "newaxis" or (len(el) == 2 and isinstance(el[1], ast.Constant) and el[1].value is None):
            if aliases_param(repo, fi, du, sub.value, sub, ("max_voltage",)) or "max_voltage" in src(sub.value):
                okb = True
    ctx.check(okb, fi, fi.node, "<full scale>[:, np.newaxis]", "per-channel full scale is broadcast along time", "per-channel full scale is not broadcast along the channel axis",
              key="broadcast")


def _scatter_mute(ctx, repo, fi, du, mute, flags, final_flags, rets):
    """The taper subtracted around the flagged samples only: mute = ones(ns); for k in range(W): idx = I + (k - h); mute[idx] -= win[k]; then clamp at 0,
    with I = where(final flags)[0], win = cosine(W), h = (W - 1) // 2 - what 1 - convolve(flags, win, 'same') is, provided every idx outside [0, ns) is dropped
    (numpy counts a negative index from the end: an unfiltered negative idx subtracts the taper at the END of the array).  -> False when not this form."""
    cfg = du.cfg
    init = [d for d in du.defs if d.var == mute and d.kind == "assign"]
    subs = [m for m in du.defs if m.var == mute and m.kind in ("aug", "mutate") and isinstance(m.stmt, ast.AugAssign) and isinstance(m.stmt.op, ast.Sub) and isinstance(m.stmt.target, ast.Subscript)]
    if len(init) != 1 or not (isinstance(init[0].value, ast.Call) and call_name(init[0].value) in ("ones", "ones_like")) or len(subs) != 1:
        return False
    st = subs[0].stmt
    lp = next((l_ for l_ in ast.walk(fi.node) if isinstance(l_, ast.For) and any(x is st for x in ast.walk(l_))), None)
    if lp is None:
        return False
    k = loc_name(lp.target)
    W = lp.iter.args[0] if isinstance(lp.iter, ast.Call) and call_name(lp.iter) in ("range", "arange") and len(lp.iter.args) == 1 else None
    ctx.check(W is not None and loc_name(W) == "mute_window_samples", fi, lp, lp.iter, "one pass per tap of the taper window", "the loop does not run over the mute_window_samples taps of the window", key="scatter-taps", name_free=True)
    # the index vector and its filters
    idx = st.target.slice
    chain, cur, at = [], idx, st
    for _ in range(6):
        if isinstance(cur, ast.Name):
            ds = du.strong_reaching(cur.id, at)
            if len(ds) == 1 and ds[0].kind == "assign" and ds[0].value is not None:
                cur, at = ds[0].value, ds[0].stmt
                continue
        if isinstance(cur, ast.Subscript) and isinstance(cur.slice, (ast.Compare, ast.BinOp, ast.Call, ast.BoolOp)):
            chain.append((cur.slice, at))
            cur = cur.value
            # the filtered vector names its own earlier value: step to the definition before this statement
            if isinstance(cur, ast.Name):
                ds = [d for d in du.reaching(cur.id, at) if d.stmt is not at]
                prev = [d for d in du.defs if d.var == cur.id and d.kind == "assign" and d.stmt is not at and any(d.stmt is x for x in ast.walk(lp)) and cfg.reachable(d.node, cfg.node_for(at))]
                if len(prev) == 1:
                    cur, at = prev[0].value, prev[0].stmt
                    continue
            continue
        break
    base = cur
    okbase = False
    off = None
    if isinstance(base, ast.BinOp) and isinstance(base.op, ast.Add):
        for a_, b_ in ((base.left, base.right), (base.right, base.left)):
            av = expand_name(du, a_, at)
            if isinstance(av, ast.Subscript) and const_value(av.slice) == (True, 0) and isinstance(av.value, ast.Call) and call_name(av.value) in ("where", "nonzero") and av.value.args:
                fl = av.value.args[0]
            elif isinstance(av, ast.Call) and call_name(av) == "flatnonzero" and av.args:
                fl = av.args[0]
            else:
                continue
            fa = {x.idx for x in du.strong_reaching(loc_name(fl), at)} if loc_name(fl) else set()
            okbase = bool(fa) and fa == final_flags
            off = b_
    ctx.check(okbase, fi, st, f"{src(base)[:70]}", "the taper is laid around the samples of the final flags", f"`{src(base)[:70]}` is not <indices of the final flags> + <tap offset>",
              key="scatter-base", name_free=True)
    # offset k - (W - 1) // 2 : the centring of mode='same'
    okoff = False
    if off is not None:
        class E(Evaluator):
            def ev(self, e):
                if isinstance(e, ast.BinOp) and isinstance(e.op, ast.FloorDiv) and const_value(e.right) == (True, 2):
                    return Poly.sym("HALF:" + self.ev(e.left).canon())
                return super().ev(e)
        try:
            ev = E(resolve=lambda x: repo.resolve_expr(fi, x))
            sx = SymExec(ev, on_undecided="havoc")
            for s_ in fi.node.body:
                if isinstance(s_, ast.Assign) and isinstance(s_.targets[0], ast.Name) and s_ is not lp:
                    try:
                        sx.step(s_)
                    except Undecided:
                        pass
            ev.env[k] = Poly.sym("K")
            o = ev.ev(off)
            okoff = o == Poly.sym("K") - Poly.sym("HALF:" + (Poly.sym("mute_window_samples") - Poly.const(1)).canon())
        except Undecided:
            okoff = False
    ctx.check(okoff, fi, st, f"offset {src(off) if off is not None else None}", "tap k lands (k - (W - 1) // 2) samples from the flagged sample (the centring of mode='same')",
              f"tap offset `{src(off) if off is not None else None}` is not k - (mute_window_samples - 1) // 2: the taper is shifted against the flags", key="scatter-offset", name_free=True)
    # both bounds filtered
    lower = upper = False
    for f_, _at in chain:
        for c in [x for x in ast.walk(f_) if isinstance(x, ast.Compare) and len(x.ops) == 1]:
            l_, r_, op = src(c.left).replace(" ", ""), src(c.comparators[0]).replace(" ", ""), type(c.ops[0])
            if (op is ast.Lt and r_ in ("ns", "data.shape[1]", "data.shape[-1]", f"{mute}.size", f"len({mute})")) or (op is ast.LtE and r_.endswith("-1")) or (op is ast.Gt and l_ in ("ns", "data.shape[1]")):
                upper = True
            if (op is ast.GtE and r_ == "0") or (op is ast.Gt and r_ == "-1") or (op is ast.LtE and l_ == "0") or (op is ast.Lt and l_ == "-1"):
                lower = True
    ctx.check(upper, fi, st, "indices below ns", "taps past the end of the array are dropped", "tap positions past the end of the array are not dropped (IndexError)", key="scatter-upper", name_free=True)
    ctx.check(lower, fi, st, "indices from 0", "taps before the start of the array are dropped",
              f"`{src(st)}`: tap positions before sample 0 are not dropped - for a flagged sample within the first (mute_window_samples - 1) // 2 samples the index is negative and numpy counts it "
              "from the END of the array: the taper is subtracted from the last samples, which are muted although nothing is flagged near them (only the upper bound `< ns` is filtered)",
              key="scatter-lower", name_free=True)
    okw = any(isinstance(expand_name(du, n_, st), ast.Call) and call_name(expand_name(du, n_, st)) in ("cosine", "hann", "hanning") and "mute_window_samples" in src(expand_name(du, n_, st))
              for n_ in [st.value.value] if isinstance(st.value, ast.Subscript)) and isinstance(st.value, ast.Subscript) and loc_name(st.value.slice) == k
    ctx.check(okw, fi, st, st.value, "tap k of the cosine window is subtracted", f"`{src(st.value)}` is not tap k of cosine(mute_window_samples)", key="scatter-window", name_free=True)
    # clamp at 0 afterwards
    cl = [c for c in find(fi.node, ast.Call, nested=False) if call_name(c) in ("maximum", "clip") and c.args and loc_name(c.args[0]) == mute and (loc_name(kwarg(c, "out")) == mute or True)]
    okcl = any((call_name(c) == "maximum" and len(c.args) >= 2 and const_value(c.args[1]) == (True, 0) and loc_name(kwarg(c, "out")) == mute) or
               (call_name(c) == "clip" and len(c.args) >= 3 and const_value(c.args[1]) == (True, 0)) for c in cl) and all(cfg.reachable(cfg.node_for(lp), cfg.node_for(c)) for c in cl)
    ctx.check(okcl, fi, cl[0] if cl else lp, cl[0] if cl else "clamp", "the gain is clamped at 0 after the taps were subtracted: within [0, 1]", "the gain is not clamped at 0 after the subtraction", key="range", name_free=True)
    # an early return of the untouched all-ones gain needs `nothing flagged`
    for r in rets:
        if r is rets[-1] or not (isinstance(r.value, ast.Tuple) and len(r.value.elts) == 2 and loc_name(r.value.elts[1]) == mute):
            continue
        from sa import guards as GD
        at_ = GD.Atoms()
        pc = GD.path_condition(cfg, cfg.node_for(r), at_)
        ok0 = False
        for kk in GD.atoms_of(pc):
            a_ = at_.exprs.get(kk)
            t_ = src(a_).replace(" ", "") if a_ is not None else ""
            if GD.entails(pc, GD.Atom(kk)) is True and t_.endswith(".size==0") and ("where(" in t_ or "flatnonzero(" in t_ or "nonzero(" in t_):
                inner = [n_ for n_ in ast.walk(a_) if isinstance(n_, ast.Call) and call_name(n_) in ("where", "flatnonzero", "nonzero") and n_.args]
                if inner and loc_name(inner[0].args[0]) and {x.idx for x in du.strong_reaching(loc_name(inner[0].args[0]), r)} == final_flags:
                    ok0 = True
            if GD.entails(pc, GD.Not(GD.Atom(kk))) is True and isinstance(a_, ast.Call) and call_name(a_) == "any":
                ok0 = True
        ctx.check(ok0, fi, r, r, "no flag: the gain is one everywhere (what 1 - convolve(no flags) gives)", f"`{src(r)}`: an all-ones gain is only right when no sample is flagged", key="range-ones", name_free=True)
    return True


def d2_d3_mute(ctx):
    ctx.rule("D2", "mute depends on the data only through the final flags")
    repo = ctx.repo
    fi = repo.fn(FN)
    du = DefUse(fi.node)
    rets = returns_of(fi.node)
    if not rets or not isinstance(rets[-1].value, ast.Tuple) or len(rets[-1].value.elts) != 2:
        raise AnalysisError("saturation: return is not a pair")
    flags_e, mute_e = rets[-1].value.elts
    flags_defs = du.strong_reaching(loc_name(flags_e), rets[-1]) if loc_name(flags_e) else []
    final_flags = {d.idx for d in flags_defs}
    # backward slice of mute
    seen_defs = set()
    bad = []
    if loc_name(mute_e):
        work = [(loc_name(mute_e), rets[-1])]
    else:  # the gain expression is written in the return statement itself
        work = [(n.id, rets[-1]) for n in ast.walk(mute_e) if isinstance(n, ast.Name) and n.id not in ("np", "scipy")]
    visited = set()
    while work:
        nm, at = work.pop()
        if nm is None:
            continue
        strong_ = du.strong_reaching(nm, at)
        # in-place updates of the value that reaches `at`: those that come after its (strong) definition, not the ones an intervening re-binding has overwritten
        inplace = [m for m in du.defs if m.var == nm and m.kind in ("mutate", "aug") and m.stmt is not None and du.cfg.reachable(m.node, du.cfg.node_for(at))
                   and any(d_.node.id == m.node.id or du.cfg.reachable(d_.node, m.node) for d_ in strong_ if d_.kind not in ("mutate",))]
        for m in inplace:
            if m.idx in visited:
                continue
            visited.add(m.idx)
            srcs_ = [m.stmt.value] if isinstance(m.stmt, (ast.Assign, ast.AugAssign)) else []
            tg_ = (m.stmt.targets[0] if isinstance(m.stmt, ast.Assign) else m.stmt.target) if isinstance(m.stmt, (ast.Assign, ast.AugAssign)) else None
            if isinstance(tg_, ast.Subscript):
                srcs_.append(tg_.slice)
            for v_ in srcs_:
                for n in ast.walk(v_):
                    if isinstance(n, ast.Name) and n.id not in ("np", "scipy", nm):
                        work.append((n.id, m.stmt))
        for d in du.strong_reaching(nm, at):
            if d.idx in visited:
                continue
            visited.add(d.idx)
            if d.idx in final_flags:
                continue  # the flags are the allowed entry point of the data
            if d.kind == "param":
                if d.var in ("data", "max_voltage", "v_per_sec", "fs", "proportion"):
                    bad.append(d.var)
                continue
            if d.value is None:
                continue
            shape_only = {id(n.value) for n in ast.walk(d.value) if isinstance(n, ast.Attribute) and n.attr in ("shape", "size", "ndim", "dtype") and isinstance(n.value, ast.Name)}
            for n in ast.walk(d.value):
                if isinstance(n, ast.Name) and n.id not in ("np", "scipy") and id(n) not in shape_only:
                    work.append((n.id, d.stmt))
    ctx.check(not bad, fi, rets[-1], f"slice of {src(mute_e)}", "the mute gain is a function of the flags (and the taper width) only",
              f"the mute gain also depends on {sorted(set(bad))} directly (not through the flags)", key="slice")
    # the flags feeding the mute are the final boolean ones
    if loc_name(mute_e):
        md = [(d.value, d.stmt) for d in du.strong_reaching(loc_name(mute_e), rets[-1])]
    else:
        md = [(mute_e, rets[-1])]
    ctx.rule("D3", "mute = maximum(0, 1 - convolve(flags, cosine window, mode='same')) in [0, 1]; returns (flags, mute)")
    if not md:
        raise AnalysisError("saturation: the returned gain has no definition")
    if loc_name(mute_e) and _scatter_mute(ctx, repo, fi, du, loc_name(mute_e), loc_name(flags_e), final_flags, rets):
        md = []
    for v, d_stmt in md:
        form = None
        if isinstance(v, ast.Call) and call_name(v) == "maximum" and len(v.args) == 2:
            zero = [a for a in v.args if const_value(a) == (True, 0)]
            other = [a for a in v.args if const_value(a) != (True, 0)]
            if zero and other and isinstance(other[0], ast.BinOp) and isinstance(other[0].op, ast.Sub) and const_value(other[0].left) == (True, 1):
                form = other[0].right
        elif isinstance(v, ast.Call) and call_name(v) == "clip" and len(v.args) == 3 and const_value(v.args[1]) == (True, 0) and const_value(v.args[2]) == (True, 1):
            a0 = v.args[0]
            if isinstance(a0, ast.BinOp) and isinstance(a0.op, ast.Sub) and const_value(a0.left) == (True, 1):
                form = a0.right
        if form is None and isinstance(v, ast.Call) and call_name(v) in ("ones", "ones_like"):
            # shortcut when nothing is flagged: 1 - convolve(all-False, w) == 1 everywhere
            from sa import guards as GD
            at_ = GD.Atoms()
            pc = GD.path_condition(du.cfg, du.cfg.node_for(d_stmt), at_)
            fl = loc_name(flags_e)
            none_flagged = False
            for k in GD.atoms_of(pc):
                a_ = at_.exprs.get(k)
                if isinstance(a_, ast.Call) and call_name(a_) in ("any",) and (loc_name(a_.args[0]) == fl if a_.args else loc_name(a_.func.value) == fl) \
                        and GD.entails(pc, GD.Not(GD.Atom(k))) is True:
                    none_flagged = True
            size_ok = fl is not None and fl in src(v)
            ctx.check(none_flagged and size_ok, fi, d_stmt, d_stmt, "no flag: the gain is one everywhere (what 1 - convolve(no flags) gives)",
                      f"`{src(d_stmt)}`: an all-ones gain is only right when no sample is flagged", key="range-ones")
            continue
        ctx.check(form is not None, fi, d_stmt, d_stmt, "gain is 1 - (non-negative), clipped at 0: within [0, 1]",
                  f"`{src(d_stmt)}` is not max(0, 1 - x) / clip(1 - x, 0, 1): the gain can leave [0, 1]", key="range")
        if form is not None:
            okc = isinstance(form, ast.Call) and call_name(form) in ("convolve", "fftconvolve", "oaconvolve") and len(form.args) >= 2
            if okc:
                a, w = form.args[0], form.args[1]
                fa = {x.idx for x in du.strong_reaching(loc_name(a), d_stmt)} if loc_name(a) else set()
                wv = expand_name(du, w, d_stmt)
                okw = isinstance(wv, ast.Call) and call_name(wv) in ("cosine", "hann", "hanning") and "mute_window_samples" in src(wv)
                mode = kwarg(form, "mode") or (form.args[2] if len(form.args) > 2 else None)
                okc = fa == final_flags and bool(fa) and okw and const_value(mode) == (True, "same")
            ctx.check(okc, fi, d_stmt, form, "x is the final flags convolved (same length) with the non-negative taper window",
                      f"`{src(form)}` is not convolve(<final flags>, cosine(mute_window_samples), mode='same')", key="conv")
    okflags = all(isinstance(du.defs[i].value, ast.Call) and call_name(du.defs[i].value) in ("logical_or", "logical_and") or isinstance(du.defs[i].value, ast.BinOp)
                  for i in final_flags) and bool(final_flags)
    if not okflags:
        try:
            ft, _ = _flags_term(fi)
            okflags = ft[0] in ("or", "and", "cmp")      # a boolean combination on the value model (e.g. np.any over the stacked tests)
        except Undecided:
            pass
    ctx.check(okflags, fi, rets[-1], rets[-1], "first returned value is the boolean flag vector",
              "first returned value is not the combined boolean flags", key="ret-flags")


def d5_purity(ctx):
    ctx.rule("D5", "saturation does not modify its arguments in place (the flags of a call must not depend on earlier calls)")
    repo = ctx.repo
    from sa.common import param_mutations, shared_returning
    fi = repo.fn(FN)
    muts = param_mutations(repo, fi, ("data", "max_voltage"))
    if not muts:
        ctx.ok(fi, fi.node, "no in-place operation on data / max_voltage or their views", "arguments are left untouched", key="purity")
    for st, tgt, p in muts:
        ctx.violation(fi, st, st, f"`{src(st)[:60]}` modifies in place an array that may be the caller's `{p}` (np.atleast_1d / asarray / views return the same buffer for an "
                      "ndarray argument): a per-channel range reused across batches is scaled again on every call, so the 98 % threshold - and the flags - depend on the call history",
                      key="purity:" + p, name_free=False)
    # the full-scale vector handed out by the reader is recomputed on each access (not a cached, shared array)
    fr = repo.fn("spikeglx.Reader.range_volts")
    sh = shared_returning(repo)
    ctx.check("spikeglx.Reader.range_volts" not in sh, fr, fr.node, "Reader.range_volts is a plain property", "each access returns a fresh vector",
              "Reader.range_volts is memoised: every caller shares one array, so any in-place use downstream corrupts the full-scale values for the rest of the session",
              key="range-volts-fresh")


def d6_scratch(ctx):
    ctx.rule("D6", "work arrays re-used across channel blocks: an iteration reads only the rows it has just written (no stale rows of the previous block are counted)")
    from sa.common import stale_scratch_reads
    fi = ctx.repo.fn(FN)
    hits = stale_scratch_reads(fi)
    for loop, buf, wnode, wreg, rnode, rreg in hits:
        ctx.violation(fi, rnode, rnode, f"`{buf}` is allocated once and re-used by every iteration of the loop at line {loop.lineno}; this iteration fills only `{buf}[{wreg}]` "
                      f"(line {wnode.lineno}) but then reads {rreg}: when the written range is shorter than the buffer (last, shorter block of channels) the remaining rows still hold "
                      "the previous block's comparison results and are counted again - the fraction of offending channels is over-estimated, samples below the proportion get "
                      "flagged and the mute gain drops around them", key=f"stale:{buf}", name_free=True)
    if not hits:
        ctx.ok(fi, fi.node, "no partially rewritten scratch buffer is read beyond the rewritten range", "no stale work-array rows", key="stale:none")


def d4_callsite(ctx):
    ctx.rule("D4", "call site: data and full-scale vector cut by the same column bound; unpack order (flags, mute); range_volts = sample2volts * max-int")
    repo = ctx.repo
    outer = repo.fn("ibldsp.voltage.decompress_destripe_cbin")
    inner = [fi for q, fi in repo.functions.items() if q.startswith(outer.qualname + ".")]
    callee = repo.fn(FN)
    n = 0
    for fi in inner + [outer]:
        du = None
        for c in resolved_calls(repo, fi, FN):
            n += 1
            du = du or DefUse(fi.node)
            b = bind(c, callee)
            data, mv = b.bound.get("data"), b.bound.get("max_voltage")
            dv = expand_name(du, data, c)
            if isinstance(dv, ast.Attribute) and dv.attr == "T":
                dv = dv.value
            mv = expand_name(du, mv, c) if mv is not None else None
            if isinstance(mv, ast.Name) and fi.parent is not None:
                mv = expand_name(DefUse(fi.parent.node), mv, fi.node)    # hoisted into the enclosing function
            dcol = mcol = None
            if isinstance(dv, ast.Subscript) and isinstance(dv.slice, ast.Tuple) and len(dv.slice.elts) == 2 and isinstance(dv.slice.elts[1], ast.Slice):
                dcol = norm(dv.slice.elts[1])
            if isinstance(mv, ast.Subscript) and isinstance(mv.slice, ast.Slice) and isinstance(mv.value, ast.Attribute) and mv.value.attr == "range_volts":
                mcol = norm(mv.slice)
            ctx.check(dcol is not None and dcol == mcol, fi, c, c, "voltage columns and full-scale entries are selected by the same bound",
                      f"data columns `{src(dv)[:60]}` and full scale `{src(mv) if mv else None}` are not cut by the same bound: channels compared with another channel's range", key="same-cols")
            fsarg = b.bound.get("fs")
            ctx.check(fsarg is not None and src(fsarg).endswith(".fs"), fi, c, c, "sampling rate of the recording is passed", "the recording's sampling rate is not passed (default 30 kHz used for the slew test)",
                      key="fs")
            st = du.cfg.node_for(c).stmt
            okun = isinstance(st, ast.Assign) and isinstance(st.targets[0], ast.Tuple) and len(st.targets[0].elts) == 2
            ctx.check(okun, fi, st, st, "result unpacked as (flags, mute)", "result is not unpacked as a pair", key="unpack")
            if okun:
                f_name, m_name = [loc_name(e) for e in st.targets[0].elts]
                # flags go to the saturation file, mute multiplies the chunk
                uses_f = [s for s in walk_function(fi.node) if isinstance(s, ast.Assign) and loc_name(s.value) == f_name]
                uses_m = [bb for bb in find(fi.node, ast.BinOp, nested=False) if isinstance(bb.op, ast.Mult) and any(m_name in src(x) for x in (bb.left, bb.right))]
                ctx.check(bool(uses_f) and bool(uses_m), fi, st, f"{f_name} stored, {m_name} multiplied", "flags are stored, the gain multiplies the data",
                          "flags and gain are swapped or unused", key="roles")
    if n == 0:
        raise AnchorMissing("decompress_destripe_cbin: call to saturation not found")
    fr = repo.fn("spikeglx.Reader.range_volts")
    du = DefUse(fr.node)
    # every value the property can return, with its branch predicates: with metadata it is sample2volts * max-int
    n_meta = 0
    for r in returns_of(fr.node):
        if r.value is None:
            continue
        for gs, v in value_alternatives(du, r.value, r):
            at = GD.Atoms()
            pc = GD.And(*[GD.formula(t, at, pol) for t, pol in gs])
            if GD.entails(pc, GD.Not(GD.Atom("self.meta"))) is True:
                continue  # no metadata: documented NaN vector
            n_meta += 1
            ok = isinstance(v, ast.BinOp) and isinstance(v.op, ast.Mult)
            if ok:
                parts = (v.left, v.right)
                ok = any(src(p) == "self.sample2volts" for p in parts) and any(isinstance(p, ast.Call) and call_name(p) == "_get_max_int_from_meta" for p in parts)
            ctx.check(ok, fr, r, v, "full scale = volts per bit * max integer", f"`{src(v)}` is not sample2volts * max-int", key="range-volts")
    if n_meta == 0:
        raise AnchorMissing("Reader.range_volts: no value returned on the metadata path")


def run(ctx):
    ctx.run(d1_comparators)
    ctx.run(d2_d3_mute)
    ctx.run(d4_callsite)
    ctx.run(d5_purity)
    ctx.run(d6_scratch)
