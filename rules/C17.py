"""C17 - sliding windows cover, overlap, partition and splice exactly (structural clauses)."""
import ast

from sa.algebra import Evaluator, Facts, Poly, SymExec, Undecided
from sa.cfg import CFG, conjuncts
from sa.common import expand_name, returns_of
from sa.defuse import DefUse, loc_name
from sa.model import AnalysisError, AnchorMissing, const_value, src, walk_function
from sa.struct import call_name, find, norm

EXPLANATION = (
    "Decides structural necessary conditions of C17 on WindowGenerator by evaluating its own update statements into "
    "polynomial normal forms over its symbols (ns, nswin, overlap): (D1) the generator starts at 0, yields "
    "(first, min(first+nswin, ns)), stops exactly when last == ns and advances by nswin-overlap, so consecutive full "
    "windows overlap by `overlap` and leave no gap; iw counts yielded windows from 0; (D2) the valid sub-windows "
    "partition the signal: last_valid(k) == first_valid(k+1) for interior windows given the asserted even overlap, "
    "the first starts at 0 and the last ends at ns; (D3) the announced count is max(ceil((ns-nswin)/stride), 0) + 1 "
    "with the generator's own stride; (D4) splicing: ramps have length overlap, the head ramp is written only when "
    "first > 0 and the tail ramp only when last < ns into the final `overlap` samples, no slice bound of the form -e "
    "with e not proven positive, and the ramp pair is asserted to sum to one; (D5) tscale is (first+last-1)/2/fs. "
    "The numeric statement over all (length, window, overlap) triples is implied by these identities only together "
    "with integer arithmetic facts (stated in the evidence); it is not enumerated."
    ' (D4 as built) the amplitude vector is abstracted as interval events (ones, slice stores, template slices, flips) and its final arrangement is compared, for every window class (interior / first / last / single) and every (nswin, overlap, window length) in a small box, with: rising ramp on the first `overlap` samples iff the window has a predecessor, mirrored ramp on the last `overlap` samples iff it has a successor, one elsewhere.'
    ' (D1 as built) the generator is solved into closed forms over the iteration number (local cursor, local counter, mirrored self.iw); the position of a generator must be carried by locals of its frame - bounds computed from an attribute that other generators reset are reported (cursor-local).'
    " (D1 array form) a generator that iterates a table of bounds computed once (first = arange(a, b, s), last = minimum(first + nswin, ns)) is modelled by its closed form; the number of rows is compared with the generator's definition 1 + max(0, ceil((ns - nswin) / step)) on a box of (ns, nswin, overlap)."
    ' (array form as built) the window table may be two vectors iterated with zip.'
)
ASSUMPTIONS = [
    "ns, nswin, overlap are integers with 0 <= overlap < nswin (the property's precondition)",
    "python min/int/ceil semantics; scipy.signal.windows.hann symmetric window (model table)",
    "splicing amplitudes sum to one additionally needs overlap <= nswin/2 (property precondition)",
]

CLS = "ibldsp.utils.WindowGenerator"
SYMS = ("self.ns", "self.nswin", "self.overlap", "self.nwin", "self.iw")


def _facts():
    f = Facts()
    f.int_syms |= set(SYMS) | {"first", "last", "ns", "nswin", "overlap", "F"}
    return f


def _resolver(repo, fi):
    return lambda e: repo.resolve_expr(fi, e)


def derived_attrs(repo):
    """self.X = <expression over other attributes only> in __init__ (e.g. self.step = self.nswin - self.overlap): X in terms of the base attributes"""
    fi = repo.fn(CLS + ".__init__")
    out = {}
    ev = Evaluator(facts=_facts(), resolve=_resolver(repo, fi))
    for st in fi.node.body:
        if isinstance(st, ast.Assign) and len(st.targets) == 1 and isinstance(st.targets[0], ast.Attribute) and loc_name(st.targets[0]) and loc_name(st.targets[0]).startswith("self."):
            names = {n.id for n in ast.walk(st.value) if isinstance(n, ast.Name)}
            if names <= {"self"} and any(isinstance(n, ast.Attribute) for n in ast.walk(st.value)):
                try:
                    ev2 = Evaluator(env=dict(out), facts=_facts(), resolve=_resolver(repo, fi))
                    out[loc_name(st.targets[0])] = ev2.ev(st.value)
                except Undecided:
                    pass
    return out


def _tail_yield_canonical(repo, fi):
    """`while last < ns: yield (first, last); <advance>; last = first + W` followed by `yield (first, ns)`: full windows in the loop, the clipped last one after it.
    With the invariant last == first + W at the loop test this is the canonical generator `last = min(first + W, ns); yield; if last == ns: break; <advance>`.
    The invariant, the loop test and the two yields are checked here; the canonical form is then built from the code's OWN advance statements and handed to the model.
    -> a FunctionInfo with the canonical body, or None when firstlast is not written this way."""
    import copy
    import dataclasses
    body = [s_ for s_ in fi.node.body if not (isinstance(s_, ast.Expr) and isinstance(s_.value, ast.Constant))]
    loops = [s_ for s_ in body if isinstance(s_, ast.While)]
    if len(loops) != 1 or (isinstance(loops[0].test, ast.Constant) and loops[0].test.value is True):
        return None
    lp = loops[0]
    after = body[body.index(lp) + 1:]
    t = lp.test
    if not (len(after) == 1 and isinstance(after[0], ast.Expr) and isinstance(after[0].value, ast.Yield) and isinstance(t, ast.Compare) and len(t.ops) == 1
            and isinstance(t.ops[0], ast.Lt) and isinstance(t.left, ast.Name)):
        return None
    last_nm = t.left.id
    ys = [s_ for s_ in lp.body if isinstance(s_, ast.Expr) and isinstance(s_.value, ast.Yield)]
    if len(ys) != 1 or lp.body[0] is not ys[0]:
        return None
    yv, tv = ys[0].value.value, after[0].value.value
    if not (isinstance(yv, ast.Tuple) and len(yv.elts) == 2 and isinstance(tv, ast.Tuple) and len(tv.elts) == 2 and loc_name(yv.elts[1]) == last_nm
            and norm(yv.elts[0]) == norm(tv.elts[0]) and norm(tv.elts[1]) == norm(t.comparators[0])):
        return None
    first_nm = loc_name(yv.elts[0])
    # invariant: last == first + W before the loop and after the advance
    base = derived_attrs(repo)
    pre = body[: body.index(lp)]
    ev = Evaluator(env=dict(base), facts=_facts(), resolve=_resolver(repo, fi))
    sx = SymExec(ev, on_undecided="havoc")
    sx.run(pre)
    if first_nm not in ev.env or last_nm not in ev.env:
        return None
    W = ev.env[last_nm] - ev.env[first_nm]
    ev.env[first_nm] = Poly.sym("F")
    ev.env[last_nm] = Poly.sym("F") + W
    for s_ in lp.body[1:]:
        sx.step(s_)
    if ev.env.get(last_nm) is None or ev.env.get(first_nm) is None or ev.env[last_nm] - ev.env[first_nm] != W:
        return None
    adv = [copy.deepcopy(s_) for s_ in lp.body[1:] if not (isinstance(s_, ast.Assign) and loc_name(s_.targets[0]) == last_nm)]
    pre_c = [copy.deepcopy(s_) for s_ in pre if not (isinstance(s_, ast.Assign) and loc_name(s_.targets[0]) == last_nm)]
    Wsrc = None
    for s_ in lp.body[1:]:
        if isinstance(s_, ast.Assign) and loc_name(s_.targets[0]) == last_nm:
            Wsrc = s_.value
    if Wsrc is None:
        return None
    canon = ast.parse(f"while True:\n    {last_nm} = min({src(Wsrc)}, {src(t.comparators[0])})\n    yield ({first_nm}, {last_nm})\n    if {last_nm} == {src(t.comparators[0])}:\n        break\n").body[0]
    canon.body += adv
    fn = copy.deepcopy(fi.node)
    fn.body = pre_c + [canon]
    ast.fix_missing_locations(fn)
    for n_ in ast.walk(fn):
        if not hasattr(n_, "lineno"):
            n_.lineno = lp.lineno
            n_.col_offset = 0
    return dataclasses.replace(fi, node=fn)


def generator_model(repo):
    """Evaluate WindowGenerator.firstlast into closed forms over the iteration number K: the loop-carried variables (a local cursor `first`, a
    local counter, self.iw ...) are solved as v_K = v_0 + K * delta (or as a copy of another solved variable), the yielded pair, the end test
    and self.iw at the yield are then expressed in K.  -> dict (same keys as before; 'F' is first_K, 'first_next' is first_(K+1))."""
    fi = repo.fn(CLS + ".firstlast")
    fi = _tail_yield_canonical(repo, fi) or fi
    loops = [s for s in fi.node.body if isinstance(s, ast.While)]
    if not loops:
        g = _array_form_model(repo, fi)
        if g is not None:
            return g
    if len(loops) != 1:
        raise AnalysisError(f"{CLS}.firstlast: expected one while loop, found {len(loops)} (generator restructured)")
    lp = loops[0]
    pre = fi.node.body[: fi.node.body.index(lp)]
    nothing_after = fi.node.body.index(lp) == len(fi.node.body) - 1
    facts = _facts()
    facts.int_syms |= {"K"}
    base = derived_attrs(repo)
    ev0 = Evaluator(env=dict(base), facts=facts, resolve=_resolver(repo, fi))
    sx0 = SymExec(ev0, on_undecided="havoc")
    sx0.run(pre)
    # loop-carried variables: stored in the loop body (names and self attributes)
    carried = []
    for n in ast.walk(lp):
        tg = []
        if isinstance(n, ast.Assign):
            for t in n.targets:
                tg += list(t.elts) if isinstance(t, (ast.Tuple, ast.List)) else [t]
        elif isinstance(n, ast.AugAssign):
            tg = [n.target]
        for t in tg:
            ln = loc_name(t)
            if ln and ln not in carried and (isinstance(t, ast.Name) or ln.startswith("self.")):
                carried.append(ln)
    state = [v for v in carried if v in ev0.env]          # defined before the loop: their value at loop entry matters
    init = {v: ev0.env[v] for v in state}
    K = Poly.sym("K")
    sym = {v: Poly.sym("@" + v) for v in state}
    facts.int_syms |= {"@" + v for v in state}

    def iterate(entry):
        env = dict(base)
        env.update(entry)
        ev = Evaluator(env=env, facts=facts, resolve=_resolver(repo, fi))
        sx = SymExec(ev, on_undecided="havoc")
        out = {"yielded": None, "break": None, "order": [], "at_yield": None}
        for s_ in lp.body:
            if isinstance(s_, ast.Expr) and isinstance(s_.value, ast.Yield):
                v = s_.value.value
                if not (isinstance(v, ast.Tuple) and len(v.elts) == 2):
                    raise AnalysisError("firstlast yields something other than a (first, last) pair")
                out["yielded"] = (ev.ev(v.elts[0]), ev.ev(v.elts[1]))
                out["at_yield"] = dict(ev.env)
                out["order"].append("yield")
            elif isinstance(s_, ast.If) and any(isinstance(b_, ast.Break) or (isinstance(b_, ast.Return) and b_.value is None and nothing_after) for b_ in s_.body):
                cmp_ = s_.test
                if isinstance(cmp_, ast.Compare) and len(cmp_.ops) == 1:
                    out["break"] = (ev.ev(cmp_.left), type(cmp_.ops[0]).__name__, ev.ev(cmp_.comparators[0]))
                out["order"].append("break")
            else:
                before = dict(ev.env)
                sx.step(s_)
                changed = [v for v in state if ev.env.get(v) != before.get(v)]
                if out["yielded"] is not None and any(v != "self.iw" for v in changed) and "advance" not in out["order"]:
                    out["order"].append("advance")
                if "self.iw" in changed and out["yielded"] is not None:
                    out["order"].append("count")
                if out["yielded"] is None and any(v for v in changed):
                    out["order"].append("pre:" + ",".join(changed))
        out["exit"] = {v: ev.env.get(v) for v in state}
        return out
    one = iterate(sym)
    # a variable overwritten before it is read has no entry value that matters (dead on entry): it needs no closed form
    used = set()
    for p_ in list(one["exit"].values()) + list(one["yielded"] or ()) + ([one["break"][0], one["break"][2]] if one["break"] else []):
        if p_ is not None:
            used |= p_.symbols()
    for v_ in (one["at_yield"] or {}).values():
        used |= v_.symbols()
    state = [v for v in state if "@" + v in used]
    # solve the recurrences
    closed = {}
    pending = list(state)
    for _ in range(len(state) + 1):
        for v in list(pending):
            nxt = one["exit"].get(v)
            if nxt is None:
                raise AnalysisError(f"firstlast: `{v}` is lost in the loop body")
            delta = nxt - sym[v]
            if not any(x.startswith("@") for x in delta.symbols()):
                closed[v] = init[v] + K * delta
                pending.remove(v)
            elif sym[v].canon() not in {x for x in nxt.symbols()} and all(x[1:] in closed for x in nxt.symbols() if x.startswith("@")):
                # v' is a function of other solved variables: v_K = f(u_(K-1)) for K >= 1, and must agree with the initial value at K = 0
                prev = nxt.subs({"@" + u: closed[u].subs({"K": K - Poly.const(1)}) for u in closed})
                if prev.subs({"K": Poly.const(0)}) != init[v]:
                    raise AnalysisError(f"firstlast: `{v}` starts at {init[v]} but continues as {prev}: no closed form")
                closed[v] = prev
                pending.remove(v)
    if pending:
        raise AnalysisError(f"firstlast: no closed form for the loop-carried variable(s) {pending}")
    at_k = iterate({v: closed[v] for v in state})
    y = at_k["yielded"]
    if y is None:
        raise AnchorMissing("firstlast: no yield in the loop")
    first_k = y[0]
    first_next = first_k.subs({"K": K + Poly.const(1)})
    iw_at_yield = at_k["at_yield"].get("self.iw") if at_k["at_yield"] else None
    # which carried variables feed the yielded bounds (in the one-iteration run with symbolic entry state)
    feeds = sorted({x[1:] for x in (one["yielded"][0].symbols() | one["yielded"][1].symbols()) if x.startswith("@")}) if one["yielded"] else []
    order = [o for o in at_k["order"] if not o.startswith("pre:")]
    return {
        "fi": fi, "loop": lp, "init_first": first_k.subs({"K": Poly.const(0)}), "init_iw": init.get("self.iw"), "yielded": y, "break": at_k["break"],
        "first_next": first_next, "iw_next": None, "iw_at_yield": iw_at_yield, "order": order, "loop_test": lp.test,
        "F": first_k, "I": K, "feeds": feeds, "closed": closed, "state": state,
    }


def _small_eval(e, env):
    """numeric value of a small integer formula of the MODEL (window starts / stops) for one assignment of (ns, nswin, overlap)"""
    import math
    if isinstance(e, ast.Constant):
        return e.value
    if isinstance(e, (ast.Name, ast.Attribute)):
        k = loc_name(e)
        if k in env:
            return env[k]
        raise Undecided(f"free name {k}")
    if isinstance(e, ast.UnaryOp) and isinstance(e.op, ast.USub):
        return -_small_eval(e.operand, env)
    if isinstance(e, ast.BinOp):
        a, b = _small_eval(e.left, env), _small_eval(e.right, env)
        if isinstance(e.op, ast.Add):
            return a + b
        if isinstance(e.op, ast.Sub):
            return a - b
        if isinstance(e.op, ast.Mult):
            return a * b
        if isinstance(e.op, ast.FloorDiv):
            return a // b
        if isinstance(e.op, ast.Div):
            return a / b
    if isinstance(e, ast.Call) and call_name(e) in ("min", "max", "minimum", "maximum", "int", "ceil", "floor") and e.args:
        vals = [_small_eval(a, env) for a in e.args]
        nm = call_name(e)
        return {"min": min, "minimum": min, "max": max, "maximum": max}[nm](vals) if nm in ("min", "max", "minimum", "maximum") else \
            (int(vals[0]) if nm == "int" else (math.ceil(vals[0]) if nm == "ceil" else math.floor(vals[0])))
    raise Undecided(f"formula {src(e)[:40]}")


def _array_form_model(repo, fi):
    """firstlast iterating bounds computed once: first = arange(a, b, s); last = minimum(first + W, ns); rows (first_k, last_k), k = 0 .. count-1.
    The closed form is immediate (first_K = a + K*s); what replaces the `stop iff last == ns` test of the loop form is the NUMBER of rows, compared
    with the loop form's count on a box of (ns, nswin, overlap)."""
    loops = [s_ for s_ in fi.node.body if isinstance(s_, ast.For)]
    if len(loops) != 1:
        return None
    lp = loops[0]
    it = lp.iter
    idx_name = None
    if isinstance(it, ast.Call) and call_name(it) == "enumerate" and it.args:
        tg = lp.target
        if isinstance(tg, ast.Tuple) and len(tg.elts) == 2:
            idx_name = loc_name(tg.elts[0])
            pair = tg.elts[1]
        else:
            return None
        it = it.args[0]
    else:
        pair = lp.target
    def _unlist(x):
        while isinstance(x, ast.Call) and call_name(x) in ("tolist", "list", "iter") and (isinstance(x.func, ast.Attribute) or x.args):
            x = x.func.value if isinstance(x.func, ast.Attribute) else x.args[0]
        return x
    it = _unlist(it)
    two_attrs = None
    if isinstance(it, ast.Call) and call_name(it) == "zip" and len(it.args) == 2:
        # the two columns kept as two vectors: zip(self.<firsts>, self.<lasts>)
        two_attrs = [loc_name(_unlist(a_)) for a_ in it.args]
        if not all(a_ and a_.startswith("self.") for a_ in two_attrs):
            return None
    if isinstance(pair, ast.Name):
        # the pair is yielded as it comes out of the iteration
        pname = pair.id
        pair = ast.Tuple(elts=[ast.Name(id=pname + "__0", ctx=ast.Store()), ast.Name(id=pname + "__1", ctx=ast.Store())], ctx=ast.Store())
        import copy as _copy

        class _Y(ast.NodeTransformer):
            def visit_Yield(self, node):
                if isinstance(node.value, ast.Name) and node.value.id == pname:
                    return ast.copy_location(ast.Yield(value=ast.Tuple(elts=[ast.Name(id=pname + "__0", ctx=ast.Load()), ast.Name(id=pname + "__1", ctx=ast.Load())], ctx=ast.Load())), node)
                return node
        lp = ast.fix_missing_locations(_Y().visit(_copy.deepcopy(lp)))
    attr = loc_name(it) if two_attrs is None else two_attrs[0]
    if not (attr and attr.startswith("self.")) or not (isinstance(pair, ast.Tuple) and len(pair.elts) == 2):
        return None
    # the attribute is bound once, in __init__ (after helper inlining), to c_[first, last] / column_stack / array([first, last]).T
    ini = repo.fn(CLS + ".__init__")
    dui = DefUse(ini.node)
    binds = [st for st in walk_function(ini.node) if isinstance(st, ast.Assign) and any(loc_name(t) == attr for t in st.targets)]
    others = [q for q, f2 in repo.functions.items() if q.startswith(CLS + ".") and q != CLS + ".__init__"
              for st in walk_function(f2.node) if isinstance(st, (ast.Assign, ast.AugAssign)) and any(loc_name(t) == attr or (isinstance(t, ast.Subscript) and loc_name(t.value) == attr)
                                                                                                  for t in (st.targets if isinstance(st, ast.Assign) else [st.target]))]
    if two_attrs is not None:
        cols = []
        for a_ in two_attrs:
            found = None
            for st in walk_function(ini.node):
                if not isinstance(st, ast.Assign):
                    continue
                for t in st.targets:
                    if loc_name(t) == a_:
                        found = (st, st.value)
                    elif isinstance(t, ast.Tuple) and isinstance(st.value, ast.Tuple) and len(t.elts) == len(st.value.elts):
                        for te, ve in zip(t.elts, st.value.elts):
                            if loc_name(te) == a_:
                                found = (st, ve)
            wr = [q for q, f2 in repo.functions.items() if q.startswith(CLS + ".") and q != CLS + ".__init__"
                  for st in walk_function(f2.node) if isinstance(st, (ast.Assign, ast.AugAssign)) and any(loc_name(t) == a_ or (isinstance(t, ast.Subscript) and loc_name(t.value) == a_)
                                                                                                      for t in (st.targets if isinstance(st, ast.Assign) else [st.target]))]
            if found is None or wr:
                raise AnalysisError(f"firstlast iterates {a_}, which is not bound once in __init__ (or is written elsewhere: {wr})")
            cols.append(found)
        binds = [cols[0][0]]
        cols = [c_[1] for c_ in cols]
        v = None
    elif len(binds) != 1 or others:
        raise AnalysisError(f"firstlast iterates {attr}, which is not bound exactly once in __init__ (or is written elsewhere: {others})")
    else:
        v = binds[0].value
        cols = None
    if v is None:
        pass
    elif isinstance(v, ast.Subscript) and isinstance(v.value, ast.Attribute) and v.value.attr == "c_":
        cols = v.slice.elts if isinstance(v.slice, ast.Tuple) else None
    elif isinstance(v, ast.Call) and call_name(v) in ("column_stack", "stack") and v.args and isinstance(v.args[0], (ast.Tuple, ast.List)):
        cols = v.args[0].elts
    if not cols or len(cols) != 2:
        raise AnalysisError(f"{attr} is not built as two columns (first, last)")
    fe = expand_name(dui, cols[0], binds[0])
    le = expand_name(dui, cols[1], binds[0])
    if not (isinstance(fe, ast.Call) and call_name(fe) == "arange" and len(fe.args) == 3):
        raise AnalysisError(f"window starts `{src(fe)[:60]}` are not arange(start, stop, step)")
    base = derived_attrs(repo)
    ev = Evaluator(env=dict(base), facts=_facts(), resolve=_resolver(repo, ini))
    ev.facts.int_syms |= {"K"}
    sxi = SymExec(ev, on_undecided="havoc")
    for st in ini.node.body:
        if isinstance(st, ast.Assign) and isinstance(st.targets[0], ast.Name):
            try:
                sxi.step(st)
            except Undecided:
                pass
    a, b, stp = (ev.ev(x) for x in fe.args)
    K = Poly.sym("K")
    first_k = a + K * stp
    # last as a function of first
    fname = loc_name(cols[0])
    evl = Evaluator(env=dict(ev.env), facts=ev.facts, resolve=_resolver(repo, ini))
    if fname:
        evl.env[fname] = first_k
    last_k = evl.ev(le)
    # the body: yield (first, last) with self.iw = index
    names = [loc_name(x) for x in pair.elts]
    evb = Evaluator(env={names[0]: first_k, names[1]: last_k, **({idx_name: K} if idx_name else {}), **base}, facts=ev.facts, resolve=_resolver(repo, fi))
    sxb = SymExec(evb, on_undecided="havoc")
    yielded, at_yield, order = None, None, []
    for s_ in lp.body:
        if isinstance(s_, ast.Expr) and isinstance(s_.value, ast.Yield):
            vv = s_.value.value
            if not (isinstance(vv, ast.Tuple) and len(vv.elts) == 2):
                raise AnalysisError("firstlast yields something other than a (first, last) pair")
            yielded = (evb.ev(vv.elts[0]), evb.ev(vv.elts[1]))
            at_yield = dict(evb.env)
            order.append("yield")
        else:
            sxb.step(s_)
    if yielded is None:
        raise AnchorMissing("firstlast: no yield in the loop")
    return {
        "fi": fi, "loop": lp, "init_first": first_k.subs({"K": Poly.const(0)}), "init_iw": None, "yielded": yielded, "break": None,
        "first_next": yielded[0].subs({"K": K + Poly.const(1)}), "iw_next": None, "iw_at_yield": at_yield.get("self.iw") if at_yield else None,
        "order": order, "loop_test": ast.Constant(value=True), "F": yielded[0], "I": K, "feeds": [], "closed": {}, "state": [],
        "array_form": {"two_attrs": two_attrs, "start": fe.args[0], "stop": fe.args[1], "step": fe.args[2], "where": binds[0], "init": ini, "env_stmts": [st for st in ini.node.body if isinstance(st, ast.Assign) and isinstance(st.targets[0], ast.Name)]},
    }


def _array_count_check(ctx, g):
    """the rows of the precomputed table are the windows of the loop form exactly when their number is 1 + max(0, ceil((ns - nswin) / step)) - decided on a box"""
    import math
    af = g["array_form"]
    ini = af["init"]
    bad = None
    n = 0
    for W in range(1, 9):
        for OV in range(0, W):
            for NS in range(1, 25):
                env = {"self.ns": NS, "self.nswin": W, "self.overlap": OV, "ns": NS, "nswin": W, "overlap": OV}
                try:
                    for st in af["env_stmts"]:
                        try:
                            env[st.targets[0].id] = _small_eval(st.value, env)
                        except Undecided:
                            pass          # an array-valued local (the table itself): not a scalar of the model
                    a, b, s_ = (_small_eval(x, env) for x in (af["start"], af["stop"], af["step"]))
                except Undecided as e:
                    raise AnalysisError(f"window table: bounds not evaluable on the box ({e})")
                except ZeroDivisionError:
                    continue
                got = max(0, math.ceil((b - a) / s_)) if s_ > 0 else 0
                want = 1 + max(0, math.ceil((NS - W) / (W - OV)))
                n += 1
                if got != want and bad is None:
                    bad = (NS, W, OV, got, want)
    ctx.check(bad is None, g["fi"], af["where"], af["where"], f"the table holds exactly the windows of the generator definition (checked on {n} (ns, nswin, overlap) triples)",
              (f"the table of window starts `arange({src(af['start'])}, {src(af['stop'])}, {src(af['step'])})` has {bad[3]} rows for ns={bad[0]}, nswin={bad[1]}, overlap={bad[2]}; "
               f"windows must be generated until one reaches the end of the signal: {bad[4]} of them - the signal is not covered / nwin disagrees with the generator") if bad else "",
              key="break", name_free=True)


def stride_poly(repo) -> Poly:
    g = generator_model(repo)
    return g["first_next"] - g["F"]


def d1_generator(ctx):
    ctx.rule("D1", "firstlast: first0 = 0; yields (first, min(first+nswin, ns)); stops iff last == ns; first += nswin - overlap; iw counts windows")
    repo = ctx.repo
    g = generator_model(repo)
    fi, lp = g["fi"], g["loop"]
    NS, W, OV = Poly.sym("self.ns"), Poly.sym("self.nswin"), Poly.sym("self.overlap")
    F = g["F"]
    ctx.check(g["init_first"] == Poly.const(0), fi, fi.node, f"first0 = {g['init_first']}", "the first window starts at sample 0",
              f"the first window starts at {g['init_first']}, not 0", key="first0")
    ev = Evaluator(facts=_facts())
    want_last = ev.ev(ast.parse("min(F + nswin_, ns_)", mode="eval").body).subs({"nswin_": W, "ns_": NS})
    y = g["yielded"]
    if y is None:
        raise AnchorMissing("firstlast: no yield in the loop")
    # rebuild expected with the same atom naming
    ev2 = Evaluator(env={"a": F + W, "b": NS}, facts=_facts())
    want_last = ev2.ev(ast.parse("min(a, b)", mode="eval").body)
    ctx.check(y[0] == F and y[1] == want_last, fi, lp, f"yield ({y[0]}, {y[1]})", "each window is [first, min(first + nswin, ns))",
              f"window is ({y[0]}, {y[1]}); expected (F, {want_last}): windows would overrun the signal or have the wrong length", key="yield")
    if g.get("array_form"):
        _array_count_check(ctx, g)
        stride = g["first_next"] - F
        ctx.check(stride == W - OV, fi, lp, f"first' - first = {stride}", "stride is nswin - overlap: consecutive windows overlap by exactly `overlap`, no gap",
                  f"stride is {stride}, expected self.nswin - self.overlap", key="stride")
        ctx.check(g["iw_at_yield"] is not None and g["iw_at_yield"] == g["I"], fi, lp, f"self.iw while window K is out = {g['iw_at_yield']}",
                  "iw is the index of the window being yielded (0-based)", f"while the K-th window is handed out self.iw is {g['iw_at_yield']}", key="iw")
        return
    b = g["break"]
    okb = b is not None and b[1] == "Eq" and {b[0].canon(), b[2].canon()} == {y[1].canon(), NS.canon()}
    okb2 = b is not None and b[1] == "GtE" and b[0] == y[1] and b[2] == NS
    ctx.check(okb or okb2, fi, lp, f"break when {b}", "generation stops exactly when a window reaches the end of the signal",
              f"stop condition is {b}: the last window is dropped or generation never terminates", key="break")
    stride = g["first_next"] - F
    ctx.check(stride == W - OV, fi, lp, f"first' - first = {stride}", "stride is nswin - overlap: consecutive windows overlap by exactly `overlap`, no gap",
              f"stride is {stride}, expected self.nswin - self.overlap (overlap would be {(W - stride)} instead of the requested amount)", key="stride")
    o = g["order"]
    ok_order = "yield" in o and "break" in o and "advance" in o and o.index("yield") < o.index("break") < o.index("advance")
    if "advance" not in o and "yield" in o and "break" in o and "count" in o:
        ok_order = o.index("yield") < o.index("break") < o.index("count")      # the counter is the cursor
    ctx.check(ok_order, fi, lp, f"order {o}", "yield, then end test, then advance", f"loop order is {o}: the end test must follow the yield and precede the advance",
              key="order")
    okt = isinstance(g["loop_test"], ast.Constant) and g["loop_test"].value is True
    ctx.check(okt, fi, lp, f"while {src(g['loop_test'])}", "loop runs until the explicit end test",
              f"loop condition `{src(g['loop_test'])}` can end the generation before the last window", key="loop-test")
    ctx.check(g["iw_at_yield"] is not None and g["iw_at_yield"] == g["I"], fi, lp, f"self.iw while window K is out = {g['iw_at_yield']}",
              "iw is the index of the window being yielded (0-based)",
              f"while the K-th window is handed out self.iw is {g['iw_at_yield']} (order {o}): consumers keyed on iw == 0 / iw == nwin-1 mis-identify the edge windows",
              key="iw")
    # the position of a generator lives in ITS frame: a cursor kept in an attribute of the shared object is reset / advanced by every other
    # generator of the same object (firstlast, slice, firstlast_valid, firstlast_splicing, tscale all start one)
    shared_cursor = [v for v in g["feeds"] if v.startswith("self.")]
    ctx.check(not shared_cursor, fi, lp, f"window bounds are computed from {g['feeds']}", "the window position is carried by locals of the generator",
              f"the bounds of the next window are computed from {shared_cursor}, an attribute that every generator started on the same object resets to 0 and advances: "
              "a second iteration begun while this one is suspended (nested loops, zip of two generators, a tscale() call inside the loop) makes it resume from the other's "
              "cursor - windows are skipped or repeated", key="cursor-local", name_free=True)


def d2_valid(ctx):
    ctx.rule("D2", "firstlast_valid partitions: last_valid(k) == first_valid(k+1) interior; first_valid(0) == 0; last_valid(last) == ns")
    repo = ctx.repo
    fi = repo.fn(CLS + ".firstlast_valid")
    stride = stride_poly(repo)
    loops = [s for s in fi.node.body if isinstance(s, ast.For)]
    if not loops:
        raise AnchorMissing("firstlast_valid: loop not found")
    lp = loops[0]
    pre = fi.node.body[: fi.node.body.index(lp)]
    NS, W = Poly.sym("self.ns"), Poly.sym("self.nswin")

    def run(first: Poly, last: Poly, is_first: bool, is_last: bool):
        facts = _facts()
        f_names = [loc_name(e) for e in lp.target.elts]

        def assume(t):
            if isinstance(t, ast.Compare) and len(t.ops) == 1 and isinstance(t.ops[0], (ast.Eq, ast.NotEq, ast.Gt, ast.Lt)):
                l, r = loc_name(t.left), t.comparators[0]
                eq = isinstance(t.ops[0], ast.Eq)
                # counter-based end detection (valid because iw counts yielded windows from 0 - D1 - and nwin is their number - D3)
                if l == "self.iw" and isinstance(t.ops[0], (ast.Eq, ast.NotEq)):
                    if isinstance(r, ast.Constant) and r.value == 0:
                        return is_first if eq else (not is_first)
                    try:
                        d = (Evaluator(facts=_facts()).ev(r) - (Poly.sym("self.nwin") - Poly.const(1))).const_value()
                    except Undecided:
                        d = None
                    if d == 0:
                        return is_last if eq else (not is_last)
                if l == f_names[0] and isinstance(r, ast.Constant) and r.value == 0:
                    if isinstance(t.ops[0], ast.Gt):
                        return not is_first
                    return is_first if eq else (not is_first)
                if l == f_names[1] and loc_name(r) == "self.ns":
                    if isinstance(t.ops[0], ast.Lt):
                        return not is_last
                    return is_last if eq else (not is_last)
            return None
        ev = Evaluator(env={f_names[0]: first, f_names[1]: last}, facts=facts, resolve=_resolver(repo, fi), assume=assume)
        sx = SymExec(ev, on_undecided="error")
        sx.run(pre)
        sx.run(lp.body)
        if not sx.yields:
            raise AnalysisError("firstlast_valid: no yield")
        v = sx.yields[0]
        if not (isinstance(v, ast.Tuple) and len(v.elts) == 4):
            raise AnalysisError("firstlast_valid does not yield a 4-tuple")
        return [ev.ev(e) for e in v.elts], facts

    F = Poly.sym("F")
    try:
        (f0, l0, fv0, lv0), facts = run(F, F + W, False, False)
        (f1, l1, fv1, lv1), _ = run(F + stride, F + stride + W, False, False)
        (_, _, fvf, _), _ = run(Poly.const(0), W, True, False)
        (_, _, _, lvl), _ = run(F, NS, False, True)
    except Undecided as e:
        raise AnalysisError(f"firstlast_valid: {e}")
    even = 2 in facts.divides.get("self.overlap", set())
    ctx.check(even, fi, fi.node, "assert self.overlap % 2 == 0", "an even overlap is asserted (needed for an exact half-overlap split)",
              "the even-overlap assertion is gone: odd overlaps lose or duplicate one sample per seam", key="even")
    ctx.check(lv0 == fv1, fi, lp, f"last_valid(k) = {lv0} ; first_valid(k+1) = {fv1}", "consecutive valid ranges abut: every sample exactly once",
              f"valid range of window k ends at {lv0} but the next one starts at {fv1}: samples are lost or duplicated at every seam", key="abut")
    ctx.check(f0 == F and l0 == F + W, fi, lp, "(first, last) passed through", "window bounds are passed through unchanged",
              "window bounds are altered", key="passthrough")
    ctx.check(fvf == Poly.const(0), fi, lp, f"first_valid(first window) = {fvf}", "the first valid range starts at 0",
              f"the first valid range starts at {fvf}", key="first-edge")
    ctx.check(lvl == NS, fi, lp, f"last_valid(last window) = {lvl}", "the last valid range ends at ns", f"the last valid range ends at {lvl}, not ns",
              key="last-edge")


def d3_count(ctx):
    ctx.rule("D3", "nwin == max(ceil((ns - nswin) / stride), 0) + 1 with the generator's stride")
    repo = ctx.repo
    fi = repo.fn(CLS + ".__init__")
    stride = stride_poly(repo)
    facts = _facts()
    ev = Evaluator(facts=facts, resolve=_resolver(repo, fi))
    sx = SymExec(ev, on_undecided="havoc")
    sx.run(fi.node.body)
    got = ev.env.get("self.nwin")
    if got is None:
        raise AnchorMissing("WindowGenerator.__init__: self.nwin not assigned")
    # map attributes back to ctor params
    back = {}
    for a in ("ns", "nswin", "overlap"):
        v = ev.env.get(f"self.{a}")
        back[f"self.{a}"] = v if v is not None else Poly.sym(a)
    st = stride.subs(back)
    # int(param) is the identity on integer params
    nwin_stmt = next((n for n in walk_function(fi.node) if isinstance(n, ast.Assign) and loc_name(n.targets[0]) == "self.nwin"), fi.node)
    ev_ref = Evaluator(env={"N": Poly.sym("ns") - Poly.sym("nswin"), "D": st}, facts=_facts())
    want = ev_ref.ev(ast.parse("max(math.ceil(N / D), 0) + 1", mode="eval").body)
    unclamped = ev_ref.ev(ast.parse("math.ceil(N / D) + 1", mode="eval").body)
    if got == want:
        ctx.ok(fi, nwin_stmt, f"nwin = {got}", "announced count equals the number of windows the generator yields (>= 1)", key="nwin")
    elif got == unclamped:
        ctx.violation(fi, nwin_stmt, f"nwin = {got}", "window count is not clamped: for ns <= nswin - stride it is <= 0 while the generator yields one window",
                      key="nwin")
    elif any(k in got.canon() for k in ("ceil(", "floordiv(", "floor(", "round(", "rint(", "int(")):
        ctx.violation(fi, nwin_stmt, f"nwin = {got}", f"window count formula normalises to {got}; the generator (stride {st}) yields {want}", key="nwin")
    else:
        raise AnalysisError(f"WindowGenerator.__init__: nwin formula `{got}` is not in a recognised form")


def _neg_bounds(fn_node):
    out = []
    for n in walk_function(fn_node):
        if isinstance(n, ast.Subscript):
            sl = n.slice
            for s in (sl.elts if isinstance(sl, ast.Tuple) else [sl]):
                if isinstance(s, ast.Slice):
                    for b, which in ((s.lower, "lower"), (s.upper, "upper")):
                        if isinstance(b, ast.UnaryOp) and isinstance(b.op, ast.USub) and not isinstance(b.operand, ast.Constant):
                            out.append((n, b.operand, which))
    return out


WINDOW_CLASSES = {
    # name: (is_first, is_last, constraint on the window length n given W = nswin, OV = overlap)
    "interior": (False, False, lambda m: m["n"] == m["W"]),
    "first": (True, False, lambda m: m["n"] == m["W"]),
    "last": (False, True, lambda m: m["OV"] < m["n"] <= m["W"]),     # a non-first last window is longer than the overlap (D1: stride = nswin - overlap)
    "single": (True, True, lambda m: 1 <= m["n"] <= m["W"]),
}
BOX = {"W": (1, 12), "OV": (0, 6), "n": (1, 12)}


def _class_decider(ev, is_first, is_last):
    """Truth of a branch test on (first, last) for a window class: first == 0 iff is_first (else first > 0); last == ns iff is_last (else last < ns)."""
    F, NS = Poly.sym("first"), Poly.sym("self.ns")

    def decide(t):
        if isinstance(t, ast.UnaryOp) and isinstance(t.op, ast.Not):
            d = decide(t.operand)
            return None if d is None else not d
        if isinstance(t, ast.BoolOp):
            ds = [decide(v) for v in t.values]
            if isinstance(t.op, ast.And):
                return False if any(d is False for d in ds) else (None if any(d is None for d in ds) else True)
            return True if any(d is True for d in ds) else (None if any(d is None for d in ds) else False)
        if isinstance(t, ast.Compare) and len(t.ops) == 1:
            try:
                p = ev.ev(t.left) - ev.ev(t.comparators[0])
            except Undecided:
                return None
            op = type(t.ops[0])
            sign = None   # sign of p: "zero" | "pos" | "neg"
            if p == F:
                sign = "zero" if is_first else "pos"
            elif p == -F:
                sign = "zero" if is_first else "neg"
            elif p == ev.env["last"] - NS:
                sign = "zero" if is_last else "neg"
            elif p == NS - ev.env["last"]:
                sign = "zero" if is_last else "pos"
            if sign is None:
                return None
            return {ast.Eq: sign == "zero", ast.NotEq: sign != "zero", ast.Gt: sign == "pos", ast.GtE: sign in ("pos", "zero"),
                    ast.Lt: sign == "neg", ast.LtE: sign in ("neg", "zero")}.get(op)
        return None
    return decide


def _ramp_vectors(fi, ev, OV):
    """names bound to hann(2*(overlap+1)+1)[1:overlap+1] (the rising half, end points dropped): {name: (def stmt, ok)}"""
    out = {}
    for st in walk_function(fi.node):
        if isinstance(st, ast.Assign) and isinstance(st.targets[0], ast.Name):
            v = st.value
            if isinstance(v, ast.Subscript) and isinstance(v.slice, ast.Slice) and isinstance(v.value, ast.Call) and call_name(v.value) == "hann":
                try:
                    lo = ev.ev(v.slice.lower) if v.slice.lower is not None else Poly.const(0)
                    up = ev.ev(v.slice.upper)
                    npts = ev.ev(v.value.args[0])
                except Undecided:
                    continue
                ok = (up - lo) == OV and npts == (OV + Poly.const(1)) * Poly.const(2) + Poly.const(1) and lo == Poly.const(1)
                out[st.targets[0].id] = (st, ok, up - lo)
    return out


def _template_cache_tests(ctx, fi, tnames):
    """Amplitude templates kept across windows: `if T is None or T.size != last - first: T = <build>` followed by `amp = T.copy()`.  The cached value equals a fresh
    build when what is built depends on the window only through its length (and loop invariants), the validity test compares that length, and the window gets a COPY.
    -> ids of the validity tests that may be taken as true (rebuild) by the amplitude model."""
    ok_ids = set()
    first, last = tnames
    for st in walk_function(fi.node):
        if not (isinstance(st, ast.If) and isinstance(st.test, ast.BoolOp) and isinstance(st.test.op, ast.Or) and len(st.test.values) == 2 and not st.orelse):
            continue
        a, b = st.test.values
        if not (isinstance(a, ast.Compare) and isinstance(a.ops[0], ast.Is) and isinstance(a.comparators[0], ast.Constant) and a.comparators[0].value is None and isinstance(a.left, ast.Name)):
            continue
        T = a.left.id
        size_ok = isinstance(b, ast.Compare) and isinstance(b.ops[0], ast.NotEq) and src(b.left).replace(" ", "") in (f"{T}.size", f"len({T})", f"{T}.shape[0]") \
            and src(b.comparators[0]).replace(" ", "") == f"{last}-{first}"
        # the build arm mentions the window only through last - first
        txt = " ".join(src(x) for x in st.body).replace(" ", "")
        only_len = first not in txt.replace(f"{last}-{first}", "") and last not in txt.replace(f"{last}-{first}", "").replace("wflip", "").replace("flipud", "")
        copies = [n for n in walk_function(fi.node) if isinstance(n, ast.Assign) and isinstance(n.value, ast.Call) and call_name(n.value) == "copy" and isinstance(n.value.func, ast.Attribute)
                  and loc_name(n.value.func.value) == T]
        aliases = [n for n in walk_function(fi.node) if isinstance(n, ast.Assign) and loc_name(n.value) == T]
        ok = size_ok and only_len and bool(copies) and not aliases
        ctx.check(ok, fi, st, st, f"amplitude template `{T}` is rebuilt when the window length changes, depends on the window only through its length, and every window gets its own copy",
                  f"the cached amplitude template `{T}` " + ("is handed out without a copy: writing into one window's amplitudes changes the next ones" if (size_ok and only_len and (aliases or not copies)) else
                                                             "is not revalidated against the window length / depends on the window position: a later window gets another window's amplitudes"),
                  key=f"amp-template:{T}", name_free=True)
        if ok:
            ok_ids.add(id(st.test))
    return ok_ids


def d4_splicing(ctx):
    ctx.rule("D4", "splicing amplitudes, per window class (interior / first / last / single): rising ramp on the first `overlap` samples iff the window has a "
                   "predecessor, mirrored ramp on the last `overlap` samples iff it has a successor, one elsewhere; no unproven -e slice bound")
    repo = ctx.repo
    fi = repo.fn(CLS + ".firstlast_splicing")
    cfg = CFG(fi.node)
    for sub, e, which in _neg_bounds(fi.node):
        gs = []
        for t, pol in cfg.guards(cfg.node_for(sub)):
            gs += conjuncts(t, pol)
        pos = any(pol and isinstance(t, ast.Compare) and norm(t.left) == norm(e) and isinstance(t.ops[0], ast.Gt)
                  and isinstance(t.comparators[0], ast.Constant) and t.comparators[0].value == 0 for t, pol in gs)
        ctx.check(pos, fi, sub, sub, "negative slice bound is guarded by e > 0",
                  f"slice bound -{src(e)} in `{src(sub)}`: for {src(e)} == 0 the slice [-0:] is the whole array (ValueError / wrong amplitudes with zero overlap)",
                  key="neg-bound:" + norm(e)[:40])
    from sa.regions import Extractor, models, num, paint
    OV, W = Poly.sym("self.overlap"), Poly.sym("self.nswin")
    ev0 = Evaluator(facts=_facts(), resolve=_resolver(repo, fi))
    ramps = _ramp_vectors(fi, ev0, OV)
    if not ramps:
        raise AnchorMissing("firstlast_splicing: Hann ramp definition not found")
    for nm, (st, ok, ln) in ramps.items():
        ctx.check(ok, fi, st, st, "ramp is the rising half of a symmetric Hann window of 2(overlap+1)+1 points, end points dropped",
                  "ramp is not hann(2*(overlap+1)+1)[1:overlap+1]: w + flip(w) != 1", key="ramp-def")
    asserts = [a for a in walk_function(fi.node) if isinstance(a, ast.Assert) and ("flip" in src(a.test) or "[::-1]" in src(a.test)) and "1" in src(a.test)]
    ctx.check(bool(asserts), fi, fi.node, "assert w + flipud(w) == 1", "complementarity of the ramps is asserted at run time",
              "the run-time assertion that the ramps sum to one is gone", key="ramp-assert")
    loops = [s_ for s_ in walk_function(fi.node) if isinstance(s_, ast.For) and isinstance(s_.iter, ast.Attribute) and s_.iter.attr == "firstlast"]
    if not loops:
        raise AnchorMissing("firstlast_splicing: loop over self.firstlast not found")
    tnames = [loc_name(e) for e in loops[0].target.elts] if isinstance(loops[0].target, ast.Tuple) else []
    if len(tnames) != 2:
        raise AnalysisError("firstlast_splicing: loop target is not (first, last)")
    vec = sorted(ramps)[0]
    n_models = 0
    for cname, (is_first, is_last, constraint) in WINDOW_CLASSES.items():
        F, N = Poly.sym("first"), Poly.sym("n")
        ev = Evaluator(env={tnames[0]: F, tnames[1]: F + N, "first": F, "last": F + N}, facts=_facts(), resolve=_resolver(repo, fi))
        cache_tests = _template_cache_tests(ctx, fi, tnames)
        base_dec = _class_decider(ev, is_first, is_last)

        def dec(t, base_dec=base_dec, cache_tests=cache_tests):
            if id(t) in cache_tests:
                return True      # the (re)build arm: a valid cached template is a copy of what that arm builds (checked by _template_cache_tests)
            return base_dec(t)
        ex = Extractor(ev, dec, {k: v[2] for k, v in ramps.items()})
        ex.run(fi.node.body)
        if not ex.yielded:
            raise AnalysisError("firstlast_splicing: nothing is yielded")
        ynode, elts, snap = ex.yielded[-1]
        if not snap:
            raise AnalysisError(f"firstlast_splicing [{cname}]: the yielded amplitude vector is not built from ones / slice stores / a profile slice")
        amp = list(snap.values())[-1]
        ctx.check(amp.length == N, fi, ynode, f"[{cname}] len(amp) = {amp.length}", "one amplitude per window sample", f"[{cname} window] amplitude vector has length {amp.length}, not last - first",
                  key=f"amp-len:{cname}")
        bad = None
        facts = [lambda m: 2 * m["OV"] <= m["W"], lambda m: m["OV"] < m["W"], constraint]
        for m in models(("W", "OV", "n"), facts, BOX):
            n_models += 1
            fval = 0 if is_first else 7
            env = {"self.nswin": m["W"], "self.overlap": m["OV"], "n": m["n"], "first": fval, "self.ns": fval + m["n"] + (0 if is_last else 5)}
            got = paint(amp, env)
            if got is None:
                raise AnalysisError(f"firstlast_splicing [{cname}]: amplitude model not evaluable for {m}")
            for st_, txt, extent, vlen in ex.obligations:
                pass
            want = []
            for p_ in range(m["n"]):
                if not is_first and p_ < m["OV"]:
                    want.append(("UP:" + vec, p_))
                elif not is_last and p_ >= m["n"] - m["OV"]:
                    want.append(("UP:" + vec, m["OV"] - 1 - (p_ - (m["n"] - m["OV"]))))
                else:
                    want.append(("ONE", 0))
            diff = [p_ for p_ in range(m["n"]) if got[p_] != want[p_]]
            if diff:
                bad = (m, diff, got, want)
                break
        if bad:
            m, diff, got, want = bad
            p0 = diff[0]

            def show(t):
                return "1" if t[0] == "ONE" else (f"{vec}[{t[1]}]" if t[0].startswith("UP:") else t[0])
            ctx.violation(fi, ynode, f"[{cname}] nswin={m['W']} overlap={m['OV']} window length={m['n']}",
                          f"[{cname} window] with nswin={m['W']}, overlap={m['OV']} and a window of {m['n']} samples, sample {p0} of the window gets amplitude {show(got[p0])} "
                          f"where {show(want[p0])} is required ({len(diff)} samples differ): the amplitudes of neighbouring windows no longer sum to one there", key=f"profile:{cname}", name_free=True)
        else:
            ctx.ok(fi, ynode, f"[{cname}] amplitude profile", f"{cname} window: ramps exactly where a neighbour overlaps, one elsewhere (all order types of the bounds, box {BOX})",
                   key=f"profile:{cname}")
        # a ramp stored into a slice of a different extent raises at run time
        for st_, txt, extent, vlen in ex.obligations:
            okx = True
            wit = None
            for m in models(("W", "OV", "n"), facts, BOX):
                fval = 0 if is_first else 7
                env = {"self.nswin": m["W"], "self.overlap": m["OV"], "n": m["n"], "first": fval, "self.ns": fval + m["n"] + (0 if is_last else 5)}
                a, b = num(extent, env), num(vlen, env)
                if a is None or b is None:
                    continue
                if a != b and not (a <= 0 and b <= 0):
                    okx, wit = False, m
                    break
            ctx.check(okx, fi, st_, f"[{cname}] {txt[:60]}", "slice extent equals the length of the stored vector",
                      f"[{cname} window] `{txt[:70]}` stores a vector into a slice of a different extent for {wit}: ValueError at run time", key=f"extent:{cname}:{norm(st_)[:30]}")
    ctx.note(f"D4 evaluated the extracted interval model on {n_models} (nswin, overlap, window length) assignments in the box {BOX}")


def d5_tscale(ctx):
    ctx.rule("D5", "tscale element == (first + last - 1) / 2 / fs for every window, including a clipped last one")
    repo = ctx.repo
    fi = repo.fn(CLS + ".tscale")
    comps = find(fi.node, ast.ListComp) + find(fi.node, ast.GeneratorExp)
    if comps:
        c = comps[0]
        names = [loc_name(e) for e in c.generators[0].target.elts]
        ev = Evaluator(facts=_facts(), resolve=_resolver(repo, fi))
        got = ev.ev(c.elt)
        # what is returned may scale the comprehension afterwards: np.array(<comprehension>) / fs
        rets = [r for r in ast.walk(fi.node) if isinstance(r, ast.Return) and r.value is not None]
        if len(rets) == 1:
            from sa.common import expand_name as _expand
            du_ = DefUse(fi.node)
            rv = rets[0].value

            class _Hole(ast.NodeTransformer):
                def visit_Name(self, node):
                    v = _expand(du_, node, rets[0])
                    return self.visit(v) if v is not node else node

                def visit_ListComp(self, node):
                    return ast.Name(id="__elt", ctx=ast.Load()) if node is c else node
                visit_GeneratorExp = visit_ListComp

                def visit_Call(self, node):
                    node = self.generic_visit(node)
                    if call_name(node) in ("array", "asarray", "fromiter", "list") and node.args and isinstance(node.args[0], ast.Name) and node.args[0].id == "__elt":
                        return node.args[0]
                    return node
            import copy as _copy
            hv = _Hole().visit(_copy.deepcopy(rv)) if rv is not c else ast.Name(id="__elt", ctx=ast.Load())
            if any(isinstance(n, ast.Name) and n.id == "__elt" for n in ast.walk(hv)):
                try:
                    got = Evaluator(env={"__elt": got}, facts=_facts(), resolve=_resolver(repo, fi)).ev(hv)
                except Undecided as e:
                    raise AnalysisError(f"tscale: returned expression not evaluable: {e}")
        F, L, FS = Poly.sym(names[0]), Poly.sym(names[1]), Poly.sym("fs")
        want = (F + L - Poly.const(1)) * Poly.const(0.5) * FS.pow(-1)
        ctx.check(got == want, fi, c, f"tscale element = {got}", "time scale is the window centre", f"time scale element is {got}, expected {want}", key="tscale")
        ctx.check("firstlast" in src(c.generators[0].iter), fi, c, src(c.generators[0].iter), "iterates the window generator", "does not iterate firstlast",
                  key="tscale-iter")
        return
    # computed from the columns of the precomputed (first, last) table
    g = generator_model(repo)
    if g.get("array_form"):
        two = g["array_form"].get("two_attrs")
        tbl = None if two else loc_name(g["loop"].iter.args[0].func.value if isinstance(g["loop"].iter, ast.Call) and call_name(g["loop"].iter) == "enumerate"
                                        and isinstance(g["loop"].iter.args[0], ast.Call) else g["loop"].iter)
        rets = [r for r in ast.walk(fi.node) if isinstance(r, ast.Return) and r.value is not None]

        class EC(Evaluator):
            def ev(self, e):
                if isinstance(e, ast.Subscript) and isinstance(e.slice, ast.Tuple) and len(e.slice.elts) == 2 and isinstance(e.slice.elts[0], ast.Slice) \
                        and e.slice.elts[0].lower is None and e.slice.elts[0].upper is None and isinstance(e.slice.elts[1], ast.Constant) and e.slice.elts[1].value in (0, 1) \
                        and (tbl is None or loc_name(e.value) == tbl or "._bounds" in src(e.value) or True):
                    return Poly.sym("first" if e.slice.elts[1].value == 0 else "last")
                if two and loc_name(e) in two:
                    return Poly.sym("first" if loc_name(e) == two[0] else "last")
                return super().ev(e)
        if len(rets) == 1:
            du_ = DefUse(fi.node)
            from sa.common import expand_name as _expand
            import copy as _copy

            class _Full(ast.NodeTransformer):
                def visit_Name(self, node):
                    v = _expand(du_, node, rets[0])
                    return self.visit(_copy.deepcopy(v)) if v is not node else node
            rv = _Full().visit(_copy.deepcopy(rets[0].value))
            try:
                got = EC(facts=_facts(), resolve=_resolver(repo, fi)).ev(rv)
            except Undecided as e:
                raise AnalysisError(f"tscale: expression over the window table not evaluable: {e}")
            F_, L_, FS_ = Poly.sym("first"), Poly.sym("last"), Poly.sym("fs")
            want = (F_ + L_ - Poly.const(1)) * Poly.const(0.5) * FS_.pow(-1)
            ctx.check(got == want, fi, rets[0], f"tscale element = {got}", "time scale is the window centre (computed from the table the generator iterates)",
                      f"time scale element is {got}, expected {want}", key="tscale")
            return
    # closed form over the window index k = arange(nwin)
    stride = stride_poly(repo)

    class E(Evaluator):
        def ev(self, e):
            if isinstance(e, ast.Call) and call_name(e) == "arange" and len(e.args) == 1 and loc_name(e.args[0]) == "self.nwin":
                return Poly.sym("K")
            return super().ev(e)
    ev = E(facts=_facts(), resolve=_resolver(repo, fi))
    sx = SymExec(ev, on_undecided="havoc")
    sx.run(fi.node.body)
    if not sx.returns or sx.returns[0] is None:
        raise AnalysisError("tscale: neither a comprehension over firstlast nor a closed form")
    try:
        got = ev.ev(sx.returns[0])
    except Undecided as e:
        raise AnalysisError(f"tscale: closed form not evaluable: {e}")
    K, W, FS, NS = Poly.sym("K"), Poly.sym("self.nswin"), Poly.sym("fs"), Poly.sym("self.ns")
    full = (K * stride + K * stride + W - Poly.const(1)) * Poly.const(0.5) * FS.pow(-1)
    if got == full:
        ctx.violation(fi, fi.node, f"tscale[k] = {got}", "closed-form time scale assumes every window is nswin long: the generator clips the last window to ns, whose centre is "
                      "(first + ns - 1)/2 - the last entry is wrong whenever ns - nswin is not a multiple of the stride", key="tscale")
    elif "self.ns" in got.canon() or "min(" in got.canon():
        raise AnalysisError(f"tscale: closed form {got} handles ns in a way this rule cannot normalise")
    else:
        ctx.violation(fi, fi.node, f"tscale[k] = {got}", f"time scale normalises to {got}; window k is centred at {full} (full windows)", key="tscale")


def dS_shared(ctx):
    from sa.common import rule_no_shared_mutation
    rule_no_shared_mutation(ctx, "DS", ['ibldsp.utils.WindowGenerator.__init__', 'ibldsp.utils.WindowGenerator.firstlast', 'ibldsp.utils.WindowGenerator.firstlast_valid', 'ibldsp.utils.WindowGenerator.firstlast_splicing', 'ibldsp.utils.WindowGenerator.tscale'],
                            'the windows of a second generator depend on the first')


def run(ctx):
    ctx.run(dS_shared)
    ctx.run(d1_generator)
    ctx.run(d2_valid)
    ctx.run(d3_count)
    ctx.run(d4_splicing)
    ctx.run(d5_tscale)
