"""C18 - spectral helpers equal their textbook definitions for every length (structural clauses)."""
import ast

from sa.algebra import Evaluator, Facts, Poly, SymExec, Undecided
from sa.cfg import CFG, conjuncts
from sa.common import expand_name, returns_of
from sa.defuse import DefUse, loc_name
from sa.model import AnalysisError, AnchorMissing, const_value, src, walk_function
from sa.struct import call_name, find, kwarg, norm

EXPLANATION = (
    "Decides structural necessary conditions of C18 with parity-split normal forms (n = 2m and n = 2m+1): (D1) every "
    "inverse real FFT in fourier.convolve / fshift receives the original length n explicitly (irfft(X) without n returns "
    "2*(len-1) samples, wrong for odd n) and both operands are zero-padded to that same length; (D2) the 'same' crop keeps "
    "nsx samples: first + last == nsw, first == (nsw-1)//2, last >= 1 for both parities; (D3) _freq_vector returns f for "
    "high-pass and 1 - f for low-pass with the same f (so lp + hp == 1), band-pass is the product of an hp and an lp "
    "vector on b[0:2] / b[2:4], the cosine threshold extrapolates f(b0) below and f(b1) above; (D4) half-spectrum lengths: "
    "len(freduce) + len(mirror in fexpand) == ns and two-sided fscale has ns entries, for both parities; (D5) element k of "
    "fscale is k / ns / si with k from arange(0, floor(ns/2)+1); ns_optim_fft picks by left-sided searchsorted on the sorted "
    "2^a 3^b table. Numerical equality with direct convolution / the FFT is NOT decided."
    ' (D2 as built) the un-padding slice keeps nsx + nsw samples and the transform is at least that long (argument of ns_optim_fft >= the slice bound); D4 / D5 evaluate take / arange counts under both parities instead of matching their spelling.'
    " (D5 as built) ns_optim_fft is accepted as a sorted 2^a 3^b table with a left search, or as an enumeration with one candidate per power of three (P times the smallest power of two reaching ceil(ns / P)) whose loop visits every P < 3 * ns; (D2) 'same' may use absolute bounds lo == (nsw-1)//2, hi - lo == nsx."
    ' (DS) cached frequency responses are not modified in place (also inside the memoised helper itself, on the entry of another key); the band-pass identity hp(b[0:2]) * lp(b[2:4]) is evaluated on value terms when it is not a literal product.'
    ' (D1 window form) a transform shorter than nsx + nsw - 1 is accepted when no wrapped sample reaches the returned window (ns >= nsx + nsw - 1 - first and ns >= first + nout), decided on a box of lengths for both modes.'
)
ASSUMPTIONS = [
    "numpy/scipy irfft(X, n) returns n samples; without n it returns 2*(len(X)-1) (model table)",
    "np.searchsorted default side='left' returns the first index with table[i] >= x",
    "lengths are positive integers",
]

MOD = "ibldsp.fourier"


def _facts(*ints):
    f = Facts()
    f.int_syms |= set(ints) | {"m", "ns", "nsx", "nsw"}
    return f


def _parities(sym):
    m = Poly.sym("m")
    return {"even": Poly.const(2) * m, "odd": Poly.const(2) * m + Poly.const(1)}


def _step_defs(sx, fi, names):
    """Execute the top-level assignments of fi that define (possibly by tuple assignment) one of `names`."""
    for s in fi.node.body:
        if isinstance(s, ast.Assign):
            tg = [n.id for t in s.targets for n in ast.walk(t) if isinstance(n, ast.Name)]
            plain = all(isinstance(t, (ast.Name, ast.Tuple)) for t in s.targets)
            # the named lengths, plus any scalar temporary computed from them (nfull = nsx + nsw)
            if tg and (all(t in names for t in tg) or (plain and not any(isinstance(n, ast.Call) and call_name(n) not in ("int", "ns_optim_fft", "len") for n in ast.walk(s.value))
                                                      and not any(isinstance(n, (ast.Subscript, ast.Attribute)) for n in ast.walk(s.value)))):
                sx.step(s)


def irfft_calls(repo, fi):
    out = []
    for c in find(fi.node, ast.Call):
        if call_name(c) == "irfft":
            out.append(c)
    return out


def _window_box(fi, fast_call, want_cases=False):
    """Evaluate, for small (nsx, nsw) and both modes, the argument A of ns_optim_fft and the returned window xw[..., first:first + nout] of convolve written as
    `first, nout = ...` per mode followed by one transform: -> ((nsx, nsw, mode, A, first) of the first case with A < nsx + nsw - 1 - first or A < first + nout | None, cases)
    or None when the function is not written this way."""
    from rules.C17 import _small_eval
    rets = [r for r in ast.walk(fi.node) if isinstance(r, ast.Return) and r.value is not None]
    win = None
    for r in rets:
        v = r.value
        if isinstance(v, ast.Subscript):
            sl = v.slice.elts[-1] if isinstance(v.slice, ast.Tuple) else v.slice
            if isinstance(sl, ast.Slice) and sl.lower is not None and sl.upper is not None and sl.step is None:
                win = (sl.lower, sl.upper)
    if win is None:
        return None
    n, bad, cases = 0, None, []
    for mode in ("full", "same"):
        for nsx in range(1, 14):
            for nsw in range(1, 14):
                env = {"nsx": nsx, "nsw": nsw}

                def run(stmts):
                    for st in stmts:
                        if isinstance(st, ast.Assign) and isinstance(st.value, ast.Call) and any(c is fast_call for c in ast.walk(st.value)):
                            return "stop"
                        if isinstance(st, ast.If):
                            t = src(st.test).replace(" ", "").replace('"', "'")
                            if t in ("mode=='full'", "mode=='same'"):
                                r_ = run(st.body if t == f"mode=='{mode}'" else st.orelse)
                                if r_:
                                    return r_
                                continue
                            if any(isinstance(x, ast.Name) and isinstance(x.ctx, ast.Store) and x.id in ("first", "nout", "ns", "nsx", "nsw") for b_ in st.body + st.orelse for x in ast.walk(b_)):
                                return "unknown"
                            continue   # a branch that does not touch the lengths (array module selection ..)
                        if isinstance(st, ast.Assign) and len(st.targets) == 1:
                            tg, v = st.targets[0], st.value
                            try:
                                if isinstance(tg, ast.Name):
                                    if isinstance(v, ast.Subscript) and src(v).endswith(".shape[-1]"):
                                        continue   # nsx / nsw themselves
                                    env[tg.id] = _small_eval(v, env)
                                elif isinstance(tg, ast.Tuple) and isinstance(v, ast.Tuple) and len(tg.elts) == len(v.elts):
                                    for a_, b_ in zip(tg.elts, v.elts):
                                        env[a_.id] = _small_eval(b_, env)
                            except Exception:
                                pass
                        elif isinstance(st, ast.Return):
                            return "returned"
                    return None
                res = run([s_ for s_ in fi.node.body if not (isinstance(s_, ast.Expr) and isinstance(s_.value, ast.Constant))])
                if res != "stop":
                    return None
                try:
                    A = _small_eval(fast_call.args[0], env)
                    first = _small_eval(win[0], env)
                    stop = _small_eval(win[1], env)
                except Exception:
                    return None
                n += 1
                cases.append((nsx, nsw, mode, A, first, stop))
                if bad is None and (A < nsx + nsw - 1 - first or A < stop):
                    bad = (nsx, nsw, mode, A, first)
    if want_cases:
        return cases
    return bad, n


def d1_irfft(ctx):
    ctx.rule("D1", "irfft in convolve/fshift is given the original length n; convolve pads both operands to that length")
    repo = ctx.repo
    for q in (MOD + ".convolve", MOD + ".fshift"):
        fi = repo.fn(q)
        du = DefUse(fi.node)
        calls = irfft_calls(repo, fi)
        if not calls:
            raise AnchorMissing(f"{q}: irfft call not found")
        for c in calls:
            n = kwarg(c, "n") or (c.args[1] if len(c.args) > 1 else None)
            ctx.check(n is not None, fi, c, c, "inverse real FFT is told the output length",
                      "irfft is called without n: for an odd original length it returns one sample less and the wrong values", key="irfft-n:" + q)
            if n is None:
                continue
            if q.endswith("convolve"):
                # padded length of both rfft inputs equals n
                ev = Evaluator(facts=_facts(), resolve=lambda e: repo.resolve_expr(fi, e))
                sx = SymExec(ev, on_undecided="havoc")
                _step_defs(sx, fi, ("nsx", "nsw", "ns"))
                nv = ev.ev(n)
                for r in [x for x in find(c, ast.Call) if call_name(x) == "rfft"]:
                    a = expand_name(du, r.args[0], c)
                    ln = None
                    n_r = kwarg(r, "n") or (r.args[1] if len(r.args) > 1 else None)
                    if n_r is not None:
                        ln = ev.ev(n_r)   # rfft(x, n) zero-pads (or truncates) its input to n samples (model)
                    elif isinstance(a, ast.Call) and call_name(a) == "concatenate":
                        parts = a.args[0].elts
                        tot = Poly.const(0)
                        for p in parts:
                            if isinstance(p, ast.Name):
                                tot = tot + ev.ev(ast.parse(f"{p.id}.shape[-1]", mode="eval").body)
                            elif isinstance(p, ast.Call) and call_name(p) == "zeros":
                                shp = p.args[0]
                                last = shp.elts[-1] if isinstance(shp, (ast.List, ast.Tuple)) else shp
                                tot = tot + ev.ev(last)
                            else:
                                tot = None
                                break
                        ln = tot
                    ctx.check(ln is not None and ln == nv, fi, r, f"len({src(r.args[0])}) = {ln} ; n = {nv}", "operand is zero-padded to the transform length",
                              f"operand `{src(r.args[0])}` has length {ln} but the inverse transform is asked for {nv} samples", key="pad:" + src(r.args[0]))
                ns_def = ev.env.get("ns")
                ctx.check(ns_def is not None and "ns_optim_fft" in ns_def.canon() and nv == ns_def, fi, c, f"ns = {ns_def}",
                          "transform length is the fast size of nsx + nsw (no circular wrap)", f"transform length {ns_def} is not ns_optim_fft(nsx + nsw)", key="ns")
                # the argument of ns_optim_fft >= nsx + nsw - 1
                for cc in find(fi.node, ast.Call):
                    if call_name(cc) == "ns_optim_fft":
                        arg = ev.ev(cc.args[0])
                        if "nsx" not in ev.env or "nsw" not in ev.env:
                            raise AnalysisError("convolve: operand lengths nsx / nsw not found")
                        d = (arg - (ev.env["nsx"] + ev.env["nsw"] - Poly.const(1))).const_value()
                        if d is None or d < 0:
                            # a transform shorter than the linear convolution is still exact on the RETURNED window [first, first + nout) when the wrapped tail
                            # (linear samples ns .. nsx + nsw - 2, folded onto 0 ..) stays below `first`:  ns >= nsx + nsw - 1 - first  and  ns >= first + nout
                            wbox = _window_box(fi, cc)
                            if wbox is not None:
                                bad_, n_ = wbox
                                ctx.check(bad_ is None, fi, cc, f"{src(cc)[:60]}: window-exact on {n_} (nsx, nsw, mode) cases",
                                          "the transform is long enough for the returned window: no wrapped sample reaches it",
                                          (f"transform length ns_optim_fft({bad_[3]}) for nsx={bad_[0]}, nsw={bad_[1]}, mode='{bad_[2]}' can be {bad_[3]}: the linear convolution has {bad_[0] + bad_[1] - 1} samples, "
                                           f"its last {bad_[0] + bad_[1] - 1 - bad_[3]} wrap onto samples 0.. and the returned window starts at {bad_[4]} - sample(s) of the tail are added to the "
                                           f"start of the output (needs at least nsx + nsw - 1 - first = {bad_[0] + bad_[1] - 1 - bad_[4]})") if bad_ else "", key="nowrap", name_free=True)
                                continue
                        ctx.check(d is not None and d >= 0, fi, cc, cc, "padded length >= nsx + nsw - 1 (linear, not circular, convolution)",
                                  f"padded length is the fast size of {arg}: shorter than nsx + nsw - 1, the convolution wraps around", key="nowrap")
            else:
                ev = Evaluator(facts=_facts(), resolve=lambda e: repo.resolve_expr(fi, e))
                ok = loc_name(n) == "ns"
                nsd = [d for d in du.defs if d.var == "ns" and d.kind == "assign"]
                ok = ok and bool(nsd) and "w.shape[axis]" in src(nsd[0].value)
                ctx.check(ok, fi, c, c, "n is the signal's own length along the shift axis", f"n=`{src(n)}` is not w.shape[axis]", key="n-is-len")


def d2_same_crop(ctx):
    ctx.rule("D2", "'same' crop: first + last == nsw, first == (nsw-1)//2, last >= 1, for nsw = 2m and nsw = 2m+1")
    repo = ctx.repo
    fi = repo.fn(MOD + ".convolve")
    cfg = CFG(fi.node)
    fd = [s for s in walk_function(fi.node) if isinstance(s, ast.Assign) and loc_name(s.targets[0]) == "first"]
    ld = [s for s in walk_function(fi.node) if isinstance(s, ast.Assign) and loc_name(s.targets[0]) == "last"]
    if not fd or not ld:
        return _same_crop_absolute(ctx, repo, fi, cfg)
    m = Poly.sym("m")
    for par, nsw in _parities("nsw").items():
        ev = Evaluator(env={"nsw": nsw}, facts=_facts(), resolve=lambda e: repo.resolve_expr(fi, e))
        ev.hints = ("nonneg",)
        try:
            f = ev.ev(fd[0].value)
            ev.env["first"] = f   # `last` may be written in terms of `first`
            l = ev.ev(ld[0].value)
        except Undecided as e:
            raise AnalysisError(f"convolve: crop bound not evaluable: {e}")
        want_first = m - Poly.const(1) if par == "even" else m
        ctx.check(f + l == nsw, fi, fd[0], f"[{par}] first={f}, last={l}", "the crop removes exactly nsw samples: output has the length of x",
                  f"[{par} nsw] first + last = {f + l} != nsw = {nsw}: 'same' output has the wrong length", key=f"crop-sum:{par}")
        ctx.check(f == want_first, fi, fd[0], f"[{par}] first={f}", "the crop is centred like numpy's 'same' ((nsw-1)//2 leading samples dropped)",
                  f"[{par} nsw] first = {f}, expected {want_first}: output is shifted by one sample", key=f"crop-first:{par}")
        lc = (l - Poly.const(1))
        nonneg = all(c >= 0 for c in lc.t.values()) and lc.symbols() <= {"m"}
        ctx.check(nonneg, fi, ld[0], f"[{par}] last={l}", "last >= 1, so the slice bound -last is never -0", f"[{par} nsw] last = {l} can be 0: xw[..., first:-0] is empty", key=f"crop-last:{par}")
    # the slice is xw[..., first:-last]
    rets = [r for r in returns_of(fi.node) if r.value is not None and isinstance(r.value, ast.Subscript)]
    okr = False
    for r in rets:
        sl = r.value.slice
        el = sl.elts if isinstance(sl, ast.Tuple) else [sl]
        s_ = el[-1]
        gs = []
        for t, pol in cfg.guards(cfg.node_for(r)):
            gs += [src(t)] if pol else []
        if isinstance(s_, ast.Slice) and loc_name(s_.lower) == "first" and isinstance(s_.upper, ast.UnaryOp) and loc_name(s_.upper.operand) == "last" and any("same" in g for g in gs):
            okr = True
    ctx.check(okr, fi, fi.node, "xw[..., first:-last] under mode == 'same'", "'same' returns the centred crop", "'same' mode no longer returns xw[..., first:-last]", key="crop-use")
    # padding removal keeps nsx + nsw samples before the crop
    rm = [s for s in walk_function(fi.node) if isinstance(s, ast.Assign) and loc_name(s.targets[0]) == "xw" and isinstance(s.value, ast.Subscript)]
    okp = False
    for s in rm:
        sl = s.value.slice
        el = sl.elts if isinstance(sl, ast.Tuple) else [sl]
        if isinstance(el[-1], ast.Slice) and el[-1].lower is None and el[-1].upper is not None:
            ev = Evaluator(facts=_facts())
            sx0 = SymExec(ev, on_undecided="havoc")
            _step_defs(sx0, fi, ())
            okp = ev.ev(el[-1].upper) == Poly.sym("nsx") + Poly.sym("nsw")
    ctx.check(okp, fi, rm[0] if rm else fi.node, rm[0] if rm else "xw[..., :nsx+nsw]", "padding is cut back to nsx + nsw samples before cropping", "padding removal does not keep nsx + nsw samples (the crop bounds assume it)",
              key="unpad")
    # ... and the transform is long enough for that slice to really deliver nsx + nsw samples: ns = ns_optim_fft(arg) >= arg (model), so arg >= bound is
    # needed; with arg = bound - 1 the buffer is one sample short whenever bound - 1 is itself of the form 2^a 3^b
    du = DefUse(fi.node)
    for s in rm:
        sl = s.value.slice
        el = sl.elts if isinstance(sl, ast.Tuple) else [sl]
        if not (isinstance(el[-1], ast.Slice) and el[-1].lower is None and el[-1].upper is not None):
            continue
        ev = Evaluator(facts=_facts(), resolve=lambda e: repo.resolve_expr(fi, e))
        sx = SymExec(ev, on_undecided="havoc")
        _step_defs(sx, fi, ("nsx", "nsw"))
        bound = ev.ev(el[-1].upper)
        opt = [c for c in find(fi.node, ast.Call) if call_name(c) == "ns_optim_fft"]
        if not opt:
            raise AnalysisError("convolve: ns_optim_fft call not found")
        arg = ev.ev(opt[0].args[0])
        d = (arg - bound).const_value()
        ctx.check(d is not None and d >= 0, fi, s, f"xw[..., :{bound}] of a transform of ns_optim_fft({arg}) samples", "the transform is at least as long as the un-padding slice assumes",
                  f"the un-padding slice keeps `{src(el[-1].upper)}` = {bound} samples but the transform has only ns_optim_fft({arg}) >= {arg} samples: when {arg} is itself a fast size "
                  f"(2^a 3^b) the buffer is shorter than the slice assumes, 'full' comes back one sample short and the end-relative 'same' crop [first:-last] drops the last sample",
                  key="unpad-fits")


def _same_crop_absolute(ctx, repo, fi, cfg):
    """'same' written with absolute bounds on the last axis, xw[..., lo:hi]: lo == (nsw - 1) // 2 and hi - lo == nsx for both parities of nsw;
    'full' returns the first nsx + nsw samples; the buffer is long enough for both (ns_optim_fft(n) >= n)."""
    du = DefUse(fi.node)
    rets = [r for r in returns_of(fi.node) if r.value is not None]
    by_mode = {}
    for r in rets:
        gs = []
        for t, pol in cfg.guards(cfg.node_for(r)):
            gs.append((src(t), pol))
        mode = next((m_ for m_ in ("same", "full") if any(m_ in g and pol for g, pol in gs)), None)
        if mode:
            by_mode[mode] = r
    if "same" not in by_mode:
        # one return for both modes, xw[..., first:first + nout], the bounds assigned per mode before the transform: decided on a box of lengths
        opt = [c for c in find(fi.node, ast.Call) if call_name(c) == "ns_optim_fft"]
        cases = _window_box(fi, opt[0], want_cases=True) if opt else None
        if not cases:
            raise AnchorMissing("convolve: return under mode == 'same' not found")
        bad_same = next((c for c in cases if c[2] == "same" and (c[4] != (c[1] - 1) // 2 or c[5] - c[4] != c[0])), None)
        bad_full = next((c for c in cases if c[2] == "full" and (c[4] != 0 or c[5] != c[0] + c[1])), None)
        ctx.check(bad_same is None, fi, fi.node, f"'same' window on {sum(1 for c in cases if c[2] == 'same')} (nsx, nsw) cases", "'same' returns nsx samples starting at (nsw - 1) // 2 (numpy's centring)",
                  f"'same' returns samples {bad_same[4]}:{bad_same[5]} for nsx={bad_same[0]}, nsw={bad_same[1]}; expected {(bad_same[1] - 1) // 2}:{(bad_same[1] - 1) // 2 + bad_same[0]}" if bad_same else "",
                  key="crop-same", name_free=True)
        ctx.check(bad_full is None, fi, fi.node, f"'full' window on {sum(1 for c in cases if c[2] == 'full')} (nsx, nsw) cases", "'full' returns the first nsx + nsw samples",
                  f"'full' returns samples {bad_full[4]}:{bad_full[5]} for nsx={bad_full[0]}, nsw={bad_full[1]}; expected 0:{bad_full[0] + bad_full[1]}" if bad_full else "", key="crop-full", name_free=True)
        return

    def last_axis_slice(r):
        v = expand_name(du, r.value, r) if isinstance(r.value, ast.Name) else r.value
        if not isinstance(v, ast.Subscript):
            return None, None
        sl = v.slice
        el = sl.elts if isinstance(sl, ast.Tuple) else [sl]
        return (el[-1] if isinstance(el[-1], ast.Slice) else None), v
    ssl, sv = last_axis_slice(by_mode["same"])
    if ssl is None or ssl.step is not None:
        raise AnalysisError("convolve: 'same' does not return a slice of the last axis")
    if isinstance(ssl.upper, ast.UnaryOp) and isinstance(ssl.upper.op, ast.USub):
        raise AnalysisError("convolve: end-relative 'same' crop without first/last locals")
    m = Poly.sym("m")
    for par, nsw in _parities("nsw").items():
        ev = Evaluator(env={"nsw": nsw}, facts=_facts(), resolve=lambda e: repo.resolve_expr(fi, e))
        ev.hints = ("nonneg",)
        sx = SymExec(ev, on_undecided="havoc")
        for st in walk_function(fi.node):
            if isinstance(st, ast.Assign) and isinstance(st.targets[0], ast.Name) and st.targets[0].id not in ("nsw", "nsx", "ns") \
                    and not any(isinstance(n, (ast.Subscript, ast.Attribute)) for n in ast.walk(st.value)):
                try:
                    sx.step(st)
                except Undecided:
                    pass
        try:
            lo = ev.ev(ssl.lower) if ssl.lower is not None else Poly.const(0)
            hi = ev.ev(ssl.upper)
        except Undecided as e:
            raise AnalysisError(f"convolve: 'same' bounds not evaluable: {e}")
        want_first = m - Poly.const(1) if par == "even" else m
        ctx.check(lo == want_first, fi, by_mode["same"], f"[{par}] lo={lo}", "the crop is centred like numpy's 'same' ((nsw-1)//2 leading samples dropped)",
                  f"[{par} nsw] 'same' starts at {lo}, expected {want_first}: output is shifted", key=f"crop-first:{par}", name_free=True)
        ctx.check(hi - lo == Poly.sym("nsx"), fi, by_mode["same"], f"[{par}] hi-lo={hi - lo}", "'same' has the length of x",
                  f"[{par} nsw] 'same' keeps {hi - lo} samples, expected nsx", key=f"crop-sum:{par}", name_free=True)
        # hi <= nsx + nsw  (the linear convolution ends there; beyond it the buffer holds padding)
        slack = (Poly.sym("nsx") + nsw - hi)
        okfit = all(c >= 0 for c in slack.t.values())
        ctx.check(okfit, fi, by_mode["same"], f"[{par}] nsx + nsw - hi = {slack}", "the crop stays inside the linear convolution", f"[{par} nsw] the crop reaches {hi}, past nsx + nsw", key=f"crop-last:{par}")
    if "full" in by_mode:
        fsl, fv = last_axis_slice(by_mode["full"])
        okf = fsl is not None and fsl.lower is None and fsl.upper is not None
        if okf:
            ev_s = Evaluator(facts=_facts())
            _step_defs(SymExec(ev_s, on_undecided="havoc"), fi, ())
            okf = ev_s.ev(fsl.upper) == Poly.sym("nsx") + Poly.sym("nsw")
            ev = Evaluator(facts=_facts(), resolve=lambda e: repo.resolve_expr(fi, e))
            sx0 = SymExec(ev, on_undecided="havoc")
            _step_defs(sx0, fi, ("nsx", "nsw"))
            bound = ev.ev(fsl.upper)
            opt = [c for c in find(fi.node, ast.Call) if call_name(c) == "ns_optim_fft"]
            if not opt:
                raise AnalysisError("convolve: ns_optim_fft call not found")
            arg = ev.ev(opt[0].args[0])
            d = (arg - bound).const_value()
            ctx.check(d is not None and d >= 0, fi, by_mode["full"], f"xw[..., :{bound}] of a transform of ns_optim_fft({arg}) samples",
                      "the transform is at least as long as the slice assumes",
                      f"'full' keeps {bound} samples but the transform has only ns_optim_fft({arg}) >= {arg} samples", key="unpad-fits")
        ctx.check(okf, fi, by_mode["full"], by_mode["full"], "'full' returns the nsx + nsw samples of the linear convolution", "'full' does not return xw[..., :nsx + nsw]", key="unpad")
    ctx.ok(fi, by_mode["same"], by_mode["same"], "'same' returns absolute bounds on the last axis", key="crop-use")


def _bp_by_terms(repo, ff):
    """The band-pass branch (`typ == 'bp'`), in _freq_filter or in a private helper it calls, evaluated on value terms: the response must be the product of
    the 'hp' response on b[0:2] and the 'lp' response on b[2:4] (copies / in-place products included)."""
    from sa.arrterm import TermExec, show
    cands = [ff] + [repo.fn(q) for c, q in repo.calls_in(ff, include_nested=False) if q and repo.has_fn(q) and q.rsplit(".", 1)[-1].startswith("_")]
    for f in cands:
        for st in walk_function(f.node):
            if isinstance(st, ast.If) and isinstance(st.test, ast.Compare) and loc_name(st.test.left) == "typ" and const_value(st.test.comparators[0]) == (True, "bp") \
                    and isinstance(st.test.ops[0], ast.Eq):
                tx = TermExec(f.params)
                try:
                    tx.run(st.body)
                except Undecided as e:
                    raise AnalysisError(f"band-pass branch of {f.qualname} not evaluable: {e}")
                t = tx.returned[0] if tx.returned else tx.env.get("filc")
                if t is None:
                    raise AnalysisError(f"band-pass branch of {f.qualname}: no response computed")

                def part(x):
                    """(corner slice, kind) of a response call"""
                    if not (isinstance(x, tuple) and x[0] == "call"):
                        return None
                    sl = [a for a in x[2:] if isinstance(a, tuple) and a[0] == "slice" and a[1] == ("p", "b")]
                    kd = [a[1] for a in x[2:] if isinstance(a, tuple) and a[0] == "c" and a[1] in ("hp", "lp")] + \
                         [a[2][1] for a in x[2:] if isinstance(a, tuple) and a[0] == "kw" and a[1] == "typ" and isinstance(a[2], tuple) and a[2][0] == "c"]
                    return ((sl[0][2], sl[0][3]), kd[0]) if sl and kd else None
                ok = isinstance(t, tuple) and t[0] == "mul" and sorted(filter(None, [part(t[1]), part(t[2])])) == sorted([((0, 2), "hp"), ((2, 4), "lp")])
                return ok, show(t)[:160]
    raise AnalysisError("band-pass branch (typ == 'bp') not found in _freq_filter or its helpers")


def d3_filters(ctx):
    ctx.rule("D3", "hp -> f, lp -> 1 - f (same f); bp = hp(b[0:2]) * lp(b[2:4]); cosine threshold extrapolates f(b0) below, f(b1) above")
    repo = ctx.repo
    fi = repo.fn(MOD + "._freq_vector")
    cfg = CFG(fi.node)
    du = DefUse(fi.node)
    got = {}
    for r in returns_of(fi.node):
        gs = " ".join(src(t) for t, pol in cfg.guards(cfg.node_for(r)) if pol)
        gneg = " ".join(src(t) for t, pol in cfg.guards(cfg.node_for(r)) if not pol)
        kind = "hp" if "'hp'" in gs and "'lp'" not in gs else "lp" if "'lp'" in gs else None
        ev = Evaluator(env={"filc": Poly.sym("F")}, resolve=lambda e: repo.resolve_expr(fi, e))
        try:
            got[kind] = (ev.ev(r.value), r)
        except Undecided:
            got[kind] = (None, r)
    F = Poly.sym("F")
    ctx.check("hp" in got and got["hp"][0] == F, fi, got.get("hp", (None, fi.node))[1], f"hp -> {got.get('hp', (None,))[0]}", "high-pass response is the cosine ramp f", "high-pass response is not f",
              key="hp")
    ctx.check("lp" in got and got["lp"][0] == Poly.const(1) - F, fi, got.get("lp", (None, fi.node))[1], f"lp -> {got.get('lp', (None,))[0]}", "low-pass response is 1 - f: lp + hp == 1",
              f"low-pass response is {got.get('lp', (None,))[0]}, not 1 - f: low-pass plus high-pass is no longer the identity", key="lp")
    fd = [d for d in du.defs if d.var == "filc" and d.kind == "assign"]
    okf = len(fd) == 1 and isinstance(fd[0].value, ast.Call) and isinstance(fd[0].value.func, ast.Call) and call_name(fd[0].value.func) == "fcn_cosine" \
        and loc_name(fd[0].value.func.args[0]) == "b" and loc_name(fd[0].value.args[0]) == "f"
    ctx.check(okf, fi, fd[0].stmt if fd else fi.node, fd[0].stmt if fd else "filc", "f = fcn_cosine(b)(f) once, shared by both responses", "the ramp is not the single fcn_cosine(b)(f)", key="ramp")
    ff = repo.fn(MOD + "._freq_filter")
    prods = [b for b in find(ff.node, ast.BinOp, nested=False) if isinstance(b.op, ast.Mult) and all(isinstance(x, ast.Call) and call_name(x) == "_freq_vector" for x in (b.left, b.right))]
    okb = False
    if prods:
        sig = []
        for x in (prods[0].left, prods[0].right):
            t = kwarg(x, "typ")
            a1 = x.args[1]
            key_ = src(a1)
            if isinstance(a1, ast.Subscript) and isinstance(a1.slice, ast.Slice) and a1.slice.step is None and loc_name(a1.value) == "b":
                lo_ = const_value(a1.slice.lower)[1] if a1.slice.lower is not None else 0
                hi_ = const_value(a1.slice.upper)[1] if a1.slice.upper is not None else None
                key_ = f"b[{lo_}:{hi_}]"          # b[:2] is b[0:2]
            sig.append((key_, t.value if isinstance(t, ast.Constant) else None))
        okb = sorted(sig) == sorted([("b[0:2]", "hp"), ("b[2:4]", "lp")]) or sorted(sig) == sorted([("b[0:2]", "hp"), ("b[2:None]", "lp")])
    if not prods:
        okb, shown = _bp_by_terms(repo, ff)
        ctx.check(okb, ff, ff.node, shown, "band-pass = high-pass on b[0:2] times low-pass on b[2:4]", f"band-pass evaluates to `{shown}`: not hp(b[0:2]) * lp(b[2:4])", key="bp", name_free=True)
    else:
        ctx.check(okb, ff, prods[0] if prods else ff.node, prods[0] if prods else "bp", "band-pass = high-pass on b[0:2] times low-pass on b[2:4]",
                  f"band-pass is `{src(prods[0]) if prods else '?'}`: not hp(b[0:2]) * lp(b[2:4])", key="bp")
    # spectrum multiplied by the expanded response of the same length
    mul = [c for c in find(ff.node, ast.Call, nested=False) if call_name(c) == "fexpand"]
    okx = bool(mul) and len(mul[0].args) >= 2 and loc_name(mul[0].args[1]) == "ns"
    ctx.check(okx, ff, mul[0] if mul else ff.node, mul[0] if mul else "fexpand", "one-sided response is expanded to the signal length", "response is not expanded to ns", key="expand")
    fe = repo.fn("ibldsp.utils._fcn_extrap")
    pairs = []
    for st in walk_function(fe.node):
        if isinstance(st, ast.Assign) and isinstance(st.targets[0], ast.Subscript) and loc_name(st.targets[0].value) == "y":
            cmp_ = find(st.targets[0].slice, ast.Compare)
            if cmp_:
                pairs.append((type(cmp_[0].ops[0]).__name__, src(cmp_[0].comparators[0]), src(st.value)))
    ctx.check(sorted(pairs) == sorted([("Lt", "bounds[0]", "f(bounds[0])"), ("Gt", "bounds[1]", "f(bounds[1])")]), fe, fe.node, f"{pairs}",
              "flat extrapolation: f(b0) below the lower bound, f(b1) above the upper", f"extrapolation is {pairs}: the threshold is not flat/monotone outside its bounds", key="extrap")
    fc = repo.functions.get("ibldsp.utils.fcn_cosine._cos")
    if fc is not None:
        r = returns_of(fc.node)[0]

        class E(Evaluator):
            def ev(self, e):
                if isinstance(e, ast.Call) and call_name(e) == "cos":
                    inner = super().ev(e.args[0])
                    return Poly.sym(f"cos[{inner.canon()}]")
                if isinstance(e, ast.Attribute) and e.attr == "pi":
                    return Poly.sym("PI")
                return super().ev(e)
        p = E().ev(r.value)
        arg = "PI*bounds['0']^-1"  # placeholder, compared structurally below
        s_ = p.canon()
        okc = s_.startswith("1/2 + -1/2*cos[") and "div(" in s_ and "x" in s_
        ctx.check(okc, fc, r, f"_cos -> {s_[:120]}", "ramp is (1 - cos(pi * (x - b0)/(b1 - b0))) / 2", f"ramp normalises to {s_[:120]}", key="cos")


def _len_eval(repo, fi, ns):
    """Evaluator in which the length of the array argument along the working axis (x.shape[axis], x.shape[-1], siz[axis] before it is
    overwritten) is the parity-split symbol `ns`."""
    class ES(Evaluator):
        def ev(self, e, _ns=ns):
            if isinstance(e, ast.Subscript) and src(e) in ("siz[axis]", "x.shape[axis]", "x.shape[-1]", "list(x.shape)[axis]"):
                return _ns
            return super().ev(e)
    ev = ES(env={"ns": ns}, facts=_facts(), resolve=lambda e: repo.resolve_expr(fi, e))
    ev.hints = ("nonneg",)
    return ev


def _arange_count(repo, fi, du, ar: ast.Call, ns):
    """(start, count) of np.arange(a, b) / np.arange(b) with names followed to their definitions; a bound that is a list cell overwritten in the
    function (siz[axis] = ...) is replaced by the stored value."""
    ev = _len_eval(repo, fi, ns)
    a = ar.args[0] if len(ar.args) >= 2 else ast.Constant(value=0)
    b = ar.args[1] if len(ar.args) >= 2 else ar.args[0]
    if len(ar.args) == 3 and const_value(ar.args[2]) == (True, -1) and not ar.keywords:
        # arange(a, b, -1) holds a, a-1, .., b+1: the values of arange(b + 1, a + 1), in reverse order
        a, b = (ast.BinOp(left=ar.args[1], op=ast.Add(), right=ast.Constant(value=1)), ast.BinOp(left=ar.args[0], op=ast.Add(), right=ast.Constant(value=1)))
    elif len(ar.args) > 2 or ar.keywords and any(k.arg == "step" for k in ar.keywords):
        raise AnalysisError(f"{fi.qualname}: arange with a step")

    def resolve(e):
        import copy as _copy

        class _X(ast.NodeTransformer):
            def visit_Name(self, node):
                v = expand_name(du, node, ar)
                if v is node or isinstance(v, ast.Subscript):
                    return node
                return self.visit(_copy.deepcopy(v))

            def visit_Subscript(self, node):
                return node        # a list cell (siz[axis]) is resolved as a whole below
        if isinstance(e, ast.BinOp):
            e = _X().visit(_copy.deepcopy(e))
        e = expand_name(du, e, ar)
        if isinstance(e, ast.Subscript) and loc_name(e.value) is not None and not isinstance(e.slice, ast.Constant):
            st = [s_ for s_ in walk_function(fi.node) if isinstance(s_, ast.Assign) and isinstance(s_.targets[0], ast.Subscript) and src(s_.targets[0]) == src(e)]
            if st:
                return st[-1].value
        return e
    try:
        av, bv = ev.ev(resolve(a)), ev.ev(resolve(b))
    except Undecided as ex:
        raise AnalysisError(f"{fi.qualname}: arange bounds not evaluable: {ex}")
    return av, bv - av


def d4_half_spectrum(ctx):
    ctx.rule("D4", "len(freduce(ns)) + len(mirror in fexpand) == ns; len(two-sided fscale) == ns; both parities")
    repo = ctx.repo
    fr = repo.fn(MOD + ".freduce")
    fx = repo.fn(MOD + ".fexpand")
    fs = repo.fn(MOD + ".fscale")
    dur, dux, dus = DefUse(fr.node), DefUse(fx.node), DefUse(fs.node)

    def take_arange(fi, du):
        for c in find(fi.node, ast.Call):
            if call_name(c) == "take" and len(c.args) >= 2:
                idx = expand_name(du, c.args[1], c)
                if isinstance(idx, ast.Call) and call_name(idx) == "arange":
                    return c, idx
        raise AnchorMissing(f"{fi.qualname}: np.take(x, np.arange(...)) not found")
    tr, ar_r = take_arange(fr, dur)
    tx, ar_x = take_arange(fx, dux)
    m = Poly.sym("m")
    for par, ns in _parities("ns").items():
        s0, red = _arange_count(repo, fr, dur, ar_r, ns)
        ctx.check(s0 == Poly.const(0) and red == m + Poly.const(1), fr, tr, f"[{par}] freduce takes bins {s0} .. +{red}", "positive-frequency half has floor(ns/2)+1 bins starting at DC",
                  f"[{par} ns] freduce keeps {red} bins from bin {s0}, expected m + 1 from bin 0", key=f"freduce:{par}")
        s1, mirror = _arange_count(repo, fx, dux, ar_x, ns)
        ctx.check(s1 == Poly.const(1) and red + mirror == ns, fx, tx, f"[{par}] {red} + {mirror} bins (mirror from bin {s1})", "reduce followed by expand restores ns bins (DC not mirrored)",
                  f"[{par} ns] freduce keeps {red} bins and fexpand mirrors {mirror} bins from bin {s1}: {red + mirror} != ns = {ns} or DC is mirrored", key=f"fexpand:{par}")
    cj = [c for c in find(fx.node, ast.Call) if call_name(c) == "conj"]
    fl = [c for c in find(fx.node, ast.Call) if call_name(c) in ("flip", "flipud")]
    reversed_take = len(ar_x.args) == 3 and const_value(ar_x.args[2]) == (True, -1)      # bins taken in descending order: already reversed
    ctx.check(bool(cj) and (bool(fl) != reversed_take), fx, fx.node, "conj(flip(...))", "mirror is the reversed complex conjugate",
              "mirror is not conj(flip(.))" if not reversed_take else "bins are taken in descending order AND flipped: the mirror is not reversed", key="mirror")
    # fscale two-sided: concatenate((fsc, -fsc[a:0:-1]))
    fsc = [s_ for s_ in walk_function(fs.node) if isinstance(s_, ast.Assign) and loc_name(s_.targets[0]) == "fsc"]
    if not fsc:
        raise AnchorMissing("fscale: one-sided vector not found")
    ars = [c for c in find(fsc[0].value, ast.Call) if call_name(c) == "arange"]
    if not ars:
        raise AnchorMissing("fscale: arange not found")
    neg = None
    for sb in find(fs.node, ast.Subscript):
        if loc_name(sb.value) == "fsc":
            sl = sb.slice
            if isinstance(sl, ast.Call) and call_name(sl) == "slice" and len(sl.args) == 3:
                neg = (sb, sl.args[0], sl.args[1], sl.args[2])
            elif isinstance(sl, ast.Slice) and sl.lower is not None and sl.upper is not None and sl.step is not None:
                neg = (sb, sl.lower, sl.upper, sl.step)
    if neg is None:
        raise AnchorMissing("fscale: mirrored slice of the one-sided vector not found")
    for par, ns in _parities("ns").items():
        _, L = _arange_count(repo, fs, dus, ars[0], ns)
        ev = _len_eval(repo, fs, ns)
        start, stop, step = (ev.ev(a) for a in neg[1:])
        okstep = stop == Poly.const(0) and step == Poly.const(-1)
        # fsc[-k:0:-1] on length L has L - k elements (k >= 1)
        k = -start
        kc = k.const_value()
        cnt = L - k
        ctx.check(okstep and kc is not None and kc >= 1 and L + cnt == ns, fs, neg[0], f"[{par}] {L} + {cnt} entries", "two-sided scale has ns entries",
                  f"[{par} ns] two-sided frequency scale has {L + cnt} entries, expected {ns}", key=f"fscale-len:{par}")


def _module_value(tree, name, depth=0):
    """The expression a module-level name is bound to (once), with the module-level names inside it substituted (tuple assignments from one call are kept as the call
    indexed by position: a, b = f(..) -> f(..)[0], f(..)[1])."""
    import copy
    binds = []
    for st in tree.body:
        if isinstance(st, ast.Assign):
            for t in st.targets:
                if isinstance(t, ast.Name) and t.id == name:
                    binds.append(st.value)
                elif isinstance(t, ast.Tuple):
                    for i, e in enumerate(t.elts):
                        if isinstance(e, ast.Name) and e.id == name:
                            binds.append(st.value.elts[i] if isinstance(st.value, ast.Tuple) and len(st.value.elts) == len(t.elts)
                                         else ast.Subscript(value=st.value, slice=ast.Constant(value=i), ctx=ast.Load()))
    if len(binds) != 1 or depth > 4:
        return None
    b0 = binds[0]
    if isinstance(b0, ast.Call) and isinstance(b0.func, ast.Name) and not b0.args and not b0.keywords:
        # NAME = builder(): the table is what the module-level builder returns (its single return, locals substituted)
        fdef = [st for st in tree.body if isinstance(st, ast.FunctionDef) and st.name == b0.func.id]
        if len(fdef) == 1:
            rets_ = [r for r in ast.walk(fdef[0]) if isinstance(r, ast.Return) and r.value is not None]
            if len(rets_) == 1:
                from sa.common import expand_deep as _ed
                binds = [_ed(DefUse(fdef[0]), rets_[0].value, rets_[0])]

    class X(ast.NodeTransformer):
        def visit_Name(self, node):
            if isinstance(node.ctx, ast.Load) and node.id != name:
                v = _module_value(tree, node.id, depth + 1)
                if v is not None:
                    return v
            return node
    return X().visit(copy.deepcopy(binds[0]))


def d5_fscale(ctx):
    ctx.rule("D5", "fscale[k] == k / ns / si, k in arange(0, floor(ns/2)+1); ns_optim_fft uses left searchsorted on the sorted 2^a3^b table")
    repo = ctx.repo
    fs = repo.fn(MOD + ".fscale")
    dus = DefUse(fs.node)
    fsc = [s for s in walk_function(fs.node) if isinstance(s, ast.Assign) and loc_name(s.targets[0]) == "fsc"]
    if not fsc:
        raise AnchorMissing("fscale: one-sided frequency vector not found")

    class E(Evaluator):
        def ev(self, e):
            if isinstance(e, ast.Call) and call_name(e) == "arange":
                return Poly.sym("K")
            return super().ev(e)
    p = E(facts=_facts()).ev(fsc[0].value)
    ctx.check(p == Poly.sym("K") * Poly.sym("ns").pow(-1) * Poly.sym("si").pow(-1), fs, fsc[0], f"fsc = {p}", "bin k has frequency k / (ns * si)", f"frequency of bin k is {p}", key="fscale")
    ar = [c for c in find(fsc[0].value, ast.Call) if call_name(c) == "arange"][0]
    ok = True
    det = []
    for par, ns in _parities("ns").items():
        s0, cnt = _arange_count(repo, fs, dus, ar, ns)
        ok = ok and s0 == Poly.const(0) and cnt == Poly.sym("m") + Poly.const(1)
        det.append(f"[{par}] {s0} .. +{cnt}")
    ctx.check(ok, fs, ar, ar, "k runs 0 .. floor(ns/2)", f"`{src(ar)}` is not arange(0, floor(ns/2)+1): {'; '.join(det)}", key="fscale-range")
    fo = repo.fn(MOD + ".ns_optim_fft")
    ss = [c for c in find(fo.node, ast.Call) if call_name(c) == "searchsorted"]
    if not ss:
        return _fast_size_enumeration(ctx, repo, fo)
    module_tbl = None
    side = kwarg(ss[0], "side") if ss else None
    oks = bool(ss) and (side is None or const_value(side) == (True, "left"))
    ctx.check(oks, fo, ss[0] if ss else fo.node, ss[0] if ss else "searchsorted", "first table entry >= ns is returned (an exact 2^a3^b size maps to itself)",
              "searchsorted(side='right') returns the next larger size for an exact 2^a 3^b length", key="searchsorted")
    if ss:
        # the table searched and the table indexed are the same expression
        duo = DefUse(fo.node)
        tbl = expand_name(duo, ss[0].args[0], ss[0]) if ss[0].args else None
        picked = [sb for sb in find(fo.node, ast.Subscript) if any(n is ss[0] for n in ast.walk(sb.slice))]
        same = bool(picked) and tbl is not None and norm(expand_name(duo, picked[0].value, picked[0])) == norm(tbl)
        if tbl is not None:
            # a table computed once at import: module-level names inside it are replaced by their module-level definitions
            import copy as _copy

            class _MV(ast.NodeTransformer):
                def visit_Name(self, node):
                    if isinstance(node.ctx, ast.Load):
                        v = _module_value(fo.module.tree, node.id)
                        if v is not None:
                            return v
                    return node
            tbl2 = _MV().visit(_copy.deepcopy(tbl))
            if norm(tbl2) != norm(tbl):
                module_tbl = tbl2
                tbl = tbl2
        ctx.check(same, fo, ss[0], ss[0], "the size is picked from the table that was searched", "the table searched and the table indexed differ", key="same-table")
        srt = tbl is not None and isinstance(tbl, ast.Call) and call_name(tbl) in ("unique", "sort")
        ctx.check(srt, fo, fo.node, "np.unique(...)", "table is sorted ascending", "table is not sorted before the search", key="sorted")
    scope = [fo.node] + ([module_tbl] if module_tbl is not None else [])
    if module_tbl is not None:
        # a table built by a module-level builder function: its body is part of what defines the sizes
        used = {n.id for st_ in fo.module.tree.body if isinstance(st_, ast.Assign) for n in ast.walk(st_.value) if isinstance(n, ast.Call) and isinstance(n.func, ast.Name) for n in [n.func]}
        scope += [st_ for st_ in fo.module.tree.body if isinstance(st_, ast.FunctionDef) and st_.name in used and st_.name.startswith("_") and "fft" in st_.name.lower()]
    bases = sorted({const_value(b.left)[1] for sc_ in scope for b in find(sc_, ast.BinOp) if isinstance(b.op, ast.Pow) and const_value(b.left)[0]})
    ctx.check(bases == [2, 3], fo, fo.node, f"bases {bases}", "sizes are 2^a 3^b", f"sizes are built from {bases}", key="bases")


def _pow2ceil_of(e):
    """X when `e` is 1 << (X - 1).bit_length() [max(X - 1, 0) allowed] - the smallest power of two >= X - else None"""
    if isinstance(e, ast.BinOp) and isinstance(e.op, ast.LShift) and const_value(e.left) == (True, 1):
        return _bitlen_arg(e.right)
    return None


def _bitlen_arg(e):
    """X when `e` is (X - 1).bit_length() or max(X - 1, 0).bit_length()"""
    if isinstance(e, ast.Call) and call_name(e) == "bit_length" and isinstance(e.func, ast.Attribute) and not e.args:
        r = e.func.value
        if isinstance(r, ast.Call) and call_name(r) == "max" and len(r.args) == 2:
            r = r.args[0] if const_value(r.args[1]) == (True, 0) else (r.args[1] if const_value(r.args[0]) == (True, 0) else r)
        if isinstance(r, ast.BinOp) and isinstance(r.op, ast.Sub) and const_value(r.right) == (True, 1):
            return r.left
    return None


def _fast_size_enumeration(ctx, repo, fo):
    """ns_optim_fft without a table: one candidate per power of three P - P times the smallest power of two reaching ceil(ns / P) - and the
    minimum of the candidates.  The minimum over ALL 2^a 3^b >= ns is among them as soon as every P with P / 3 < ns is visited (a larger P has
    P / 3 >= ns, itself a candidate and smaller)."""
    loops = [s_ for s_ in fo.node.body if isinstance(s_, ast.While)]
    if len(loops) != 1:
        raise AnalysisError("ns_optim_fft: neither a sorted table with searchsorted nor a single enumeration loop")
    lp = loops[0]
    pre = fo.node.body[: fo.node.body.index(lp)]
    # the power-of-three cursor: multiplied by 3 in the loop
    cur = None
    for s_ in lp.body:
        if isinstance(s_, ast.AugAssign) and isinstance(s_.op, ast.Mult) and const_value(s_.value) == (True, 3) and isinstance(s_.target, ast.Name):
            cur = s_.target.id
        elif isinstance(s_, ast.Assign) and isinstance(s_.targets[0], ast.Name) and isinstance(s_.value, ast.BinOp) and isinstance(s_.value.op, ast.Mult) \
                and {loc_name(s_.value.left), loc_name(s_.value.right)} >= {s_.targets[0].id} and (const_value(s_.value.left) == (True, 3) or const_value(s_.value.right) == (True, 3)):
            cur = s_.targets[0].id
    if cur is None:
        raise AnalysisError("ns_optim_fft: enumeration loop without a cursor multiplied by 3")
    init = [s_ for s_ in pre if isinstance(s_, ast.Assign) and loc_name(s_.targets[0]) == cur]
    ok0 = bool(init) and const_value(init[-1].value) in ((True, 1), (True, 3))
    ctx.check(ok0, fo, init[-1] if init else lp, init[-1] if init else cur, "the powers of three are visited from the start", f"`{cur}` does not start at 1 or 3", key="p3-start")
    # accumulator: acc = min(acc, candidate)
    acc = None
    cand = None
    for s_ in lp.body:
        if isinstance(s_, ast.Assign) and isinstance(s_.targets[0], ast.Name) and isinstance(s_.value, ast.Call) and call_name(s_.value) == "min" and len(s_.value.args) == 2:
            a0, a1 = s_.value.args
            if loc_name(a0) == s_.targets[0].id:
                acc, cand = s_.targets[0].id, a1
            elif loc_name(a1) == s_.targets[0].id:
                acc, cand = s_.targets[0].id, a0
    if acc is None:
        raise AnalysisError("ns_optim_fft: enumeration loop without `best = min(best, candidate)`")
    duo = DefUse(fo.node)
    cand = expand_name(duo, cand, lp.body[0]) if isinstance(cand, ast.Name) else cand
    ev = Evaluator(facts=_facts())
    ev.facts.int_syms |= {"ns", cur}
    # candidate = cur << bitlen(ceil(ns / cur) - 1)   (or cur * pow2ceil(ceil(ns / cur)))
    x = None
    if isinstance(cand, ast.BinOp) and isinstance(cand.op, ast.LShift) and loc_name(cand.left) == cur:
        x = _bitlen_arg(cand.right)
    elif isinstance(cand, ast.BinOp) and isinstance(cand.op, ast.Mult):
        for u, v in ((cand.left, cand.right), (cand.right, cand.left)):
            if loc_name(u) == cur and _pow2ceil_of(v) is not None:
                x = _pow2ceil_of(v)
    if x is None:
        raise AnalysisError(f"ns_optim_fft: candidate `{src(cand)[:70]}` is not <power of three> times the smallest power of two reaching the rest")
    try:
        xq = ev.ev(x)
        want = ev.ev(ast.parse(f"-(-ns // {cur})", mode="eval").body)
    except Undecided as e:
        raise AnalysisError(f"ns_optim_fft: `{src(x)}` not evaluable: {e}")
    ctx.check(xq == want, fo, lp, f"power of two reaches {xq}", "each power of three is completed by the smallest power of two that reaches ceil(ns / P)",
              f"the power of two completing P reaches {xq}, not ceil(ns / P) = {want}", key="p2-rest")
    # the accumulator starts from the pure power of two (P = 1)
    a_init = [s_ for s_ in pre if isinstance(s_, ast.Assign) and loc_name(s_.targets[0]) == acc]
    x0 = _pow2ceil_of(a_init[-1].value) if a_init else None
    ok_acc = x0 is not None and loc_name(x0) == "ns" or (a_init and const_value(init[-1].value) == (True, 1) if init else False)
    ctx.check(bool(ok_acc), fo, a_init[-1] if a_init else lp, a_init[-1] if a_init else acc, "the pure power of two is a candidate", f"`{acc}` does not start at the next power of two", key="p2-start")
    # loop bound: every P with P / 3 < ns, i.e. P < 3 * ns
    t = lp.test
    okb = False
    detail = src(t)
    if isinstance(t, ast.Compare) and len(t.ops) == 1 and isinstance(t.ops[0], (ast.Lt, ast.LtE)):
        try:
            l, r = ev.ev(t.left), ev.ev(t.comparators[0])
            P, N = Poly.sym(cur), Poly.sym("ns")
            if l == P:
                d = r - Poly.const(3) * N
                c = d.const_value()
                k = r.coeff("ns") if len(r.t) == 1 else None
                okb = (c is not None and c >= 0) or (k is not None and k >= 3 and len(r.symbols()) == 1)
                detail = f"{cur} {'<' if isinstance(t.ops[0], ast.Lt) else '<='} {r}"
            else:
                # P // 3 < ns
                lq = ev.ev(ast.parse(f"{cur} // 3", mode="eval").body)
                okb = l == lq and r == N
        except Undecided:
            okb = False
    ctx.check(okb, fo, lp, f"while {src(t)}", "every power of three P with P / 3 < ns is visited: the smallest 2^a 3^b >= ns is among the candidates",
              f"the loop stops at `{detail}`: the powers of three in [ns, 3 * ns) are never candidates, yet the first power of three >= ns needs no factor 2 and may be the "
              "smallest fast size (ns in 3, 9, 25..27, 73..81, ...): a larger size is returned and the result is not the documented next 2^a 3^b",
              key="p3-bound", name_free=True)
    rets = [r_ for r_ in ast.walk(fo.node) if isinstance(r_, ast.Return) and r_.value is not None]
    ctx.check(bool(rets) and all(loc_name(r_.value) == acc or (isinstance(r_.value, ast.Call) and call_name(r_.value) == "int" and loc_name(r_.value.args[0]) == acc) for r_ in rets),
              fo, rets[0] if rets else fo.node, rets[0] if rets else "return", "the minimum over the candidates is returned", "something other than the minimum is returned", key="returns-min")


def d6_purity(ctx):
    ctx.rule("D6", "spectral helpers do not modify their arguments in place (results must not depend on earlier calls)")
    repo = ctx.repo
    from sa.common import param_mutations
    n = 0
    for q in ("convolve", "ns_optim_fft", "fscale", "freduce", "fexpand", "bp", "lp", "hp", "_freq_filter", "_freq_vector", "dft", "dft2"):
        fi = repo.fn(f"{MOD}.{q}")
        params = [p for p in fi.params]
        muts = param_mutations(repo, fi, params)
        n += 1
        if not muts:
            ctx.ok(fi, fi.node, f"{q}: no in-place operation on an argument or a view/alias of it", "arguments untouched", key="purity:" + q)
        for st, tgt, p in muts:
            ctx.violation(fi, st, st, f"`{src(st)[:60]}` modifies in place an array that may be the caller's `{p}` (np.asarray / atleast_1d / views return the same buffer for an ndarray "
                          "argument): the caller's settings are rescaled on every call, so a second call with the same array - or with slices of it - filters with different corners "
                          "(lp + hp is no longer the identity, bp no longer hp o lp)", key=f"purity:{q}:{p}")


def dS_shared(ctx):
    from sa.common import rule_no_shared_mutation
    rule_no_shared_mutation(ctx, "DS", [MOD + "._freq_filter", MOD + ".lp", MOD + ".hp", MOD + ".bp", MOD + ".convolve", MOD + ".fscale", MOD + ".ns_optim_fft", MOD + ".fexpand", MOD + ".freduce"],
                            "the response used by a later filter call is the one an earlier call modified (lp + hp is no longer the identity, bp no longer hp * lp)")


def run(ctx):
    ctx.run(dS_shared)
    ctx.run(d1_irfft)
    ctx.run(d2_same_crop)
    ctx.run(d3_filters)
    ctx.run(d4_half_spectrum)
    ctx.run(d5_fscale)
    ctx.run(d6_purity)
