"""C18 - spectral helpers equal their textbook definitions for every length (structural clauses)."""
import ast

from sa.algebra import Evaluator, Facts, Poly, SymExec, Undecided
from sa.cfg import CFG, conjuncts
from sa.common import expand_name, returns_of
from sa.defuse import DefUse, loc_name
from sa.model import AnalysisError, AnchorMissing, const_value, src, walk_function
from sa.struct import call_name, find, kwarg, norm

EXPLANATION = (
    "Decides structural necessary conditions of C18 with parity-split normal forms (n = 2m and n = 2m+1): (D1) every "
    "inverse real FFT in fourier.convolve / fshift receives the original length n explicitly (irfft(X) without n returns "
    "2*(len-1) samples, wrong for odd n) and both operands are zero-padded to that same length; (D2) the 'same' crop keeps "
    "nsx samples: first + last == nsw, first == (nsw-1)//2, last >= 1 for both parities; (D3) _freq_vector returns f for "
    "high-pass and 1 - f for low-pass with the same f (so lp + hp == 1), band-pass is the product of an hp and an lp "
    "vector on b[0:2] / b[2:4], the cosine threshold extrapolates f(b0) below and f(b1) above; (D4) half-spectrum lengths: "
    "len(freduce) + len(mirror in fexpand) == ns and two-sided fscale has ns entries, for both parities; (D5) element k of "
    "fscale is k / ns / si with k from arange(0, floor(ns/2)+1); ns_optim_fft picks by left-sided searchsorted on the sorted "
    "2^a 3^b table. Numerical equality with direct convolution / the FFT is NOT decided."
    ' (D2 as built) the un-padding slice keeps nsx + nsw samples and the transform is at least that long (argument of ns_optim_fft >= the slice bound); D4 / D5 evaluate take / arange counts under both parities instead of matching their spelling.'
)
ASSUMPTIONS = [
    "numpy/scipy irfft(X, n) returns n samples; without n it returns 2*(len(X)-1) (model table)",
    "np.searchsorted default side='left' returns the first index with table[i] >= x",
    "lengths are positive integers",
]

MOD = "ibldsp.fourier"


def _facts(*ints):
    f = Facts()
    f.int_syms |= set(ints) | {"m", "ns", "nsx", "nsw"}
    return f


def _parities(sym):
    m = Poly.sym("m")
    return {"even": Poly.const(2) * m, "odd": Poly.const(2) * m + Poly.const(1)}


def _step_defs(sx, fi, names):
    """Execute the top-level assignments of fi that define (possibly by tuple assignment) one of `names`."""
    for s in fi.node.body:
        if isinstance(s, ast.Assign):
            tg = [n.id for t in s.targets for n in ast.walk(t) if isinstance(n, ast.Name)]
            plain = all(isinstance(t, (ast.Name, ast.Tuple)) for t in s.targets)
            # the named lengths, plus any scalar temporary computed from them (nfull = nsx + nsw)
            if tg and (all(t in names for t in tg) or (plain and not any(isinstance(n, ast.Call) and call_name(n) not in ("int", "ns_optim_fft", "len") for n in ast.walk(s.value))
                                                      and not any(isinstance(n, (ast.Subscript, ast.Attribute)) for n in ast.walk(s.value)))):
                sx.step(s)


def irfft_calls(repo, fi):
    out = []
    for c in find(fi.node, ast.Call):
        if call_name(c) == "irfft":
            out.append(c)
    return out


def d1_irfft(ctx):
    ctx.rule("D1", "irfft in convolve/fshift is given the original length n; convolve pads both operands to that length")
    repo = ctx.repo
    for q in (MOD + ".convolve", MOD + ".fshift"):
        fi = repo.fn(q)
        du = DefUse(fi.node)
        calls = irfft_calls(repo, fi)
        if not calls:
            raise AnchorMissing(f"{q}: irfft call not found")
        for c in calls:
            n = kwarg(c, "n") or (c.args[1] if len(c.args) > 1 else None)
            ctx.check(n is not None, fi, c, c, "inverse real FFT is told the output length",
                      "irfft is called without n: for an odd original length it returns one sample less and the wrong values", key="irfft-n:" + q)
            if n is None:
                continue
            if q.endswith("convolve"):
                # padded length of both rfft inputs equals n
                ev = Evaluator(facts=_facts(), resolve=lambda e: repo.resolve_expr(fi, e))
                sx = SymExec(ev, on_undecided="havoc")
                _step_defs(sx, fi, ("nsx", "nsw", "ns"))
                nv = ev.ev(n)
                for r in [x for x in find(c, ast.Call) if call_name(x) == "rfft"]:
                    a = expand_name(du, r.args[0], c)
                    ln = None
                    n_r = kwarg(r, "n") or (r.args[1] if len(r.args) > 1 else None)
                    if n_r is not None:
                        ln = ev.ev(n_r)   # rfft(x, n) zero-pads (or truncates) its input to n samples (model)
                    elif isinstance(a, ast.Call) and call_name(a) == "concatenate":
                        parts = a.args[0].elts
                        tot = Poly.const(0)
                        for p in parts:
                            if isinstance(p, ast.Name):
                                tot = tot + ev.ev(ast.parse(f"{p.id}.shape[-1]", mode="eval").body)
                            elif isinstance(p, ast.Call) and call_name(p) == "zeros":
                                shp = p.args[0]
                                last = shp.elts[-1] if isinstance(shp, (ast.List, ast.Tuple)) else shp
                                tot = tot + ev.ev(last)
                            else:
                                tot = None
                                break
                        ln = tot
                    ctx.check(ln is not None and ln == nv, fi, r, f"len({src(r.args[0])}) = {ln} ; n = {nv}", "operand is zero-padded to the transform length",
                              f"operand `{src(r.args[0])}` has length {ln} but the inverse transform is asked for {nv} samples", key="pad:" + src(r.args[0]))
                ns_def = ev.env.get("ns")
                ctx.check(ns_def is not None and "ns_optim_fft" in ns_def.canon() and nv == ns_def, fi, c, f"ns = {ns_def}",
                          "transform length is the fast size of nsx + nsw (no circular wrap)", f"transform length {ns_def} is not ns_optim_fft(nsx + nsw)", key="ns")
                # the argument of ns_optim_fft >= nsx + nsw - 1
                for cc in find(fi.node, ast.Call):
                    if call_name(cc) == "ns_optim_fft":
                        arg = ev.ev(cc.args[0])
                        if "nsx" not in ev.env or "nsw" not in ev.env:
                            raise AnalysisError("convolve: operand lengths nsx / nsw not found")
                        d = (arg - (ev.env["nsx"] + ev.env["nsw"] - Poly.const(1))).const_value()
                        ctx.check(d is not None and d >= 0, fi, cc, cc, "padded length >= nsx + nsw - 1 (linear, not circular, convolution)",
                                  f"padded length is the fast size of {arg}: shorter than nsx + nsw - 1, the convolution wraps around", key="nowrap")
            else:
                ev = Evaluator(facts=_facts(), resolve=lambda e: repo.resolve_expr(fi, e))
                ok = loc_name(n) == "ns"
                nsd = [d for d in du.defs if d.var == "ns" and d.kind == "assign"]
                ok = ok and bool(nsd) and "w.shape[axis]" in src(nsd[0].value)
                ctx.check(ok, fi, c, c, "n is the signal's own length along the shift axis", f"n=`{src(n)}` is not w.shape[axis]", key="n-is-len")


def d2_same_crop(ctx):
    ctx.rule("D2", "'same' crop: first + last == nsw, first == (nsw-1)//2, last >= 1, for nsw = 2m and nsw = 2m+1")
    repo = ctx.repo
    fi = repo.fn(MOD + ".convolve")
    cfg = CFG(fi.node)
    fd = [s for s in walk_function(fi.node) if isinstance(s, ast.Assign) and loc_name(s.targets[0]) == "first"]
    ld = [s for s in walk_function(fi.node) if isinstance(s, ast.Assign) and loc_name(s.targets[0]) == "last"]
    if not fd or not ld:
        raise AnchorMissing("convolve: first/last crop bounds not found")
    m = Poly.sym("m")
    for par, nsw in _parities("nsw").items():
        ev = Evaluator(env={"nsw": nsw}, facts=_facts(), resolve=lambda e: repo.resolve_expr(fi, e))
        ev.hints = ("nonneg",)
        try:
            f = ev.ev(fd[0].value)
            ev.env["first"] = f   # `last` may be written in terms of `first`
            l = ev.ev(ld[0].value)
        except Undecided as e:
            raise AnalysisError(f"convolve: crop bound not evaluable: {e}")
        want_first = m - Poly.const(1) if par == "even" else m
        ctx.check(f + l == nsw, fi, fd[0], f"[{par}] first={f}, last={l}", "the crop removes exactly nsw samples: output has the length of x",
                  f"[{par} nsw] first + last = {f + l} != nsw = {nsw}: 'same' output has the wrong length", key=f"crop-sum:{par}")
        ctx.check(f == want_first, fi, fd[0], f"[{par}] first={f}", "the crop is centred like numpy's 'same' ((nsw-1)//2 leading samples dropped)",
                  f"[{par} nsw] first = {f}, expected {want_first}: output is shifted by one sample", key=f"crop-first:{par}")
        lc = (l - Poly.const(1))
        nonneg = all(c >= 0 for c in lc.t.values()) and lc.symbols() <= {"m"}
        ctx.check(nonneg, fi, ld[0], f"[{par}] last={l}", "last >= 1, so the slice bound -last is never -0", f"[{par} nsw] last = {l} can be 0: xw[..., first:-0] is empty", key=f"crop-last:{par}")
    # the slice is xw[..., first:-last]
    rets = [r for r in returns_of(fi.node) if r.value is not None and isinstance(r.value, ast.Subscript)]
    okr = False
    for r in rets:
        sl = r.value.slice
        el = sl.elts if isinstance(sl, ast.Tuple) else [sl]
        s_ = el[-1]
        gs = []
        for t, pol in cfg.guards(cfg.node_for(r)):
            gs += [src(t)] if pol else []
        if isinstance(s_, ast.Slice) and loc_name(s_.lower) == "first" and isinstance(s_.upper, ast.UnaryOp) and loc_name(s_.upper.operand) == "last" and any("same" in g for g in gs):
            okr = True
    ctx.check(okr, fi, fi.node, "xw[..., first:-last] under mode == 'same'", "'same' returns the centred crop", "'same' mode no longer returns xw[..., first:-last]", key="crop-use")
    # padding removal keeps nsx + nsw samples before the crop
    rm = [s for s in walk_function(fi.node) if isinstance(s, ast.Assign) and loc_name(s.targets[0]) == "xw" and isinstance(s.value, ast.Subscript)]
    okp = False
    for s in rm:
        sl = s.value.slice
        el = sl.elts if isinstance(sl, ast.Tuple) else [sl]
        if isinstance(el[-1], ast.Slice) and el[-1].lower is None and el[-1].upper is not None:
            ev = Evaluator(facts=_facts())
            sx0 = SymExec(ev, on_undecided="havoc")
            _step_defs(sx0, fi, ())
            okp = ev.ev(el[-1].upper) == Poly.sym("nsx") + Poly.sym("nsw")
    ctx.check(okp, fi, rm[0] if rm else fi.node, rm[0] if rm else "xw[..., :nsx+nsw]", "padding is cut back to nsx + nsw samples before cropping", "padding removal does not keep nsx + nsw samples (the crop bounds assume it)",
              key="unpad")
    # ... and the transform is long enough for that slice to really deliver nsx + nsw samples: ns = ns_optim_fft(arg) >= arg (model), so arg >= bound is
    # needed; with arg = bound - 1 the buffer is one sample short whenever bound - 1 is itself of the form 2^a 3^b
    du = DefUse(fi.node)
    for s in rm:
        sl = s.value.slice
        el = sl.elts if isinstance(sl, ast.Tuple) else [sl]
        if not (isinstance(el[-1], ast.Slice) and el[-1].lower is None and el[-1].upper is not None):
            continue
        ev = Evaluator(facts=_facts(), resolve=lambda e: repo.resolve_expr(fi, e))
        sx = SymExec(ev, on_undecided="havoc")
        _step_defs(sx, fi, ("nsx", "nsw"))
        bound = ev.ev(el[-1].upper)
        opt = [c for c in find(fi.node, ast.Call) if call_name(c) == "ns_optim_fft"]
        if not opt:
            raise AnalysisError("convolve: ns_optim_fft call not found")
        arg = ev.ev(opt[0].args[0])
        d = (arg - bound).const_value()
        ctx.check(d is not None and d >= 0, fi, s, f"xw[..., :{bound}] of a transform of ns_optim_fft({arg}) samples", "the transform is at least as long as the un-padding slice assumes",
                  f"the un-padding slice keeps `{src(el[-1].upper)}` = {bound} samples but the transform has only ns_optim_fft({arg}) >= {arg} samples: when {arg} is itself a fast size "
                  f"(2^a 3^b) the buffer is shorter than the slice assumes, 'full' comes back one sample short and the end-relative 'same' crop [first:-last] drops the last sample",
                  key="unpad-fits")


def d3_filters(ctx):
    ctx.rule("D3", "hp -> f, lp -> 1 - f (same f); bp = hp(b[0:2]) * lp(b[2:4]); cosine threshold extrapolates f(b0) below, f(b1) above")
    repo = ctx.repo
    fi = repo.fn(MOD + "._freq_vector")
    cfg = CFG(fi.node)
    du = DefUse(fi.node)
    got = {}
    for r in returns_of(fi.node):
        gs = " ".join(src(t) for t, pol in cfg.guards(cfg.node_for(r)) if pol)
        gneg = " ".join(src(t) for t, pol in cfg.guards(cfg.node_for(r)) if not pol)
        kind = "hp" if "'hp'" in gs and "'lp'" not in gs else "lp" if "'lp'" in gs else None
        ev = Evaluator(env={"filc": Poly.sym("F")}, resolve=lambda e: repo.resolve_expr(fi, e))
        try:
            got[kind] = (ev.ev(r.value), r)
        except Undecided:
            got[kind] = (None, r)
    F = Poly.sym("F")
    ctx.check("hp" in got and got["hp"][0] == F, fi, got.get("hp", (None, fi.node))[1], f"hp -> {got.get('hp', (None,))[0]}", "high-pass response is the cosine ramp f", "high-pass response is not f",
              key="hp")
    ctx.check("lp" in got and got["lp"][0] == Poly.const(1) - F, fi, got.get("lp", (None, fi.node))[1], f"lp -> {got.get('lp', (None,))[0]}", "low-pass response is 1 - f: lp + hp == 1",
              f"low-pass response is {got.get('lp', (None,))[0]}, not 1 - f: low-pass plus high-pass is no longer the identity", key="lp")
    fd = [d for d in du.defs if d.var == "filc" and d.kind == "assign"]
    okf = len(fd) == 1 and isinstance(fd[0].value, ast.Call) and isinstance(fd[0].value.func, ast.Call) and call_name(fd[0].value.func) == "fcn_cosine" \
        and loc_name(fd[0].value.func.args[0]) == "b" and loc_name(fd[0].value.args[0]) == "f"
    ctx.check(okf, fi, fd[0].stmt if fd else fi.node, fd[0].stmt if fd else "filc", "f = fcn_cosine(b)(f) once, shared by both responses", "the ramp is not the single fcn_cosine(b)(f)", key="ramp")
    ff = repo.fn(MOD + "._freq_filter")
    prods = [b for b in find(ff.node, ast.BinOp, nested=False) if isinstance(b.op, ast.Mult) and all(isinstance(x, ast.Call) and call_name(x) == "_freq_vector" for x in (b.left, b.right))]
    okb = False
    if prods:
        sig = []
        for x in (prods[0].left, prods[0].right):
            t = kwarg(x, "typ")
            sig.append((src(x.args[1]), t.value if isinstance(t, ast.Constant) else None))
        okb = sorted(sig) == sorted([("b[0:2]", "hp"), ("b[2:4]", "lp")])
    ctx.check(okb, ff, prods[0] if prods else ff.node, prods[0] if prods else "bp", "band-pass = high-pass on b[0:2] times low-pass on b[2:4]",
              f"band-pass is `{src(prods[0]) if prods else '?'}`: not hp(b[0:2]) * lp(b[2:4])", key="bp")
    # spectrum multiplied by the expanded response of the same length
    mul = [c for c in find(ff.node, ast.Call, nested=False) if call_name(c) == "fexpand"]
    okx = bool(mul) and len(mul[0].args) >= 2 and loc_name(mul[0].args[1]) == "ns"
    ctx.check(okx, ff, mul[0] if mul else ff.node, mul[0] if mul else "fexpand", "one-sided response is expanded to the signal length", "response is not expanded to ns", key="expand")
    fe = repo.fn("ibldsp.utils._fcn_extrap")
    pairs = []
    for st in walk_function(fe.node):
        if isinstance(st, ast.Assign) and isinstance(st.targets[0], ast.Subscript) and loc_name(st.targets[0].value) == "y":
            cmp_ = find(st.targets[0].slice, ast.Compare)
            if cmp_:
                pairs.append((type(cmp_[0].ops[0]).__name__, src(cmp_[0].comparators[0]), src(st.value)))
    ctx.check(sorted(pairs) == sorted([("Lt", "bounds[0]", "f(bounds[0])"), ("Gt", "bounds[1]", "f(bounds[1])")]), fe, fe.node, f"{pairs}",
              "flat extrapolation: f(b0) below the lower bound, f(b1) above the upper", f"extrapolation is {pairs}: the threshold is not flat/monotone outside its bounds", key="extrap")
    fc = repo.functions.get("ibldsp.utils.fcn_cosine._cos")
    if fc is not None:
        r = returns_of(fc.node)[0]

        class E(Evaluator):
            def ev(self, e):
                if isinstance(e, ast.Call) and call_name(e) == "cos":
                    inner = super().ev(e.args[0])
                    return Poly.sym(f"cos[{inner.canon()}]")
                if isinstance(e, ast.Attribute) and e.attr == "pi":
                    return Poly.sym("PI")
                return super().ev(e)
        p = E().ev(r.value)
        arg = "PI*bounds['0']^-1"  # placeholder, compared structurally below
        s_ = p.canon()
        okc = s_.startswith("1/2 + -1/2*cos[") and "div(" in s_ and "x" in s_
        ctx.check(okc, fc, r, f"_cos -> {s_[:120]}", "ramp is (1 - cos(pi * (x - b0)/(b1 - b0))) / 2", f"ramp normalises to {s_[:120]}", key="cos")


def _len_eval(repo, fi, ns):
    """Evaluator in which the length of the array argument along the working axis (x.shape[axis], x.shape[-1], siz[axis] before it is
    overwritten) is the parity-split symbol `ns`."""
    class ES(Evaluator):
        def ev(self, e, _ns=ns):
            if isinstance(e, ast.Subscript) and src(e) in ("siz[axis]", "x.shape[axis]", "x.shape[-1]", "list(x.shape)[axis]"):
                return _ns
            return super().ev(e)
    ev = ES(env={"ns": ns}, facts=_facts(), resolve=lambda e: repo.resolve_expr(fi, e))
    ev.hints = ("nonneg",)
    return ev


def _arange_count(repo, fi, du, ar: ast.Call, ns):
    """(start, count) of np.arange(a, b) / np.arange(b) with names followed to their definitions; a bound that is a list cell overwritten in the
    function (siz[axis] = ...) is replaced by the stored value."""
    ev = _len_eval(repo, fi, ns)
    a = ar.args[0] if len(ar.args) >= 2 else ast.Constant(value=0)
    b = ar.args[1] if len(ar.args) >= 2 else ar.args[0]
    if len(ar.args) > 2 or ar.keywords and any(k.arg == "step" for k in ar.keywords):
        raise AnalysisError(f"{fi.qualname}: arange with a step")

    def resolve(e):
        e = expand_name(du, e, ar)
        if isinstance(e, ast.Subscript) and loc_name(e.value) is not None and not isinstance(e.slice, ast.Constant):
            st = [s_ for s_ in walk_function(fi.node) if isinstance(s_, ast.Assign) and isinstance(s_.targets[0], ast.Subscript) and src(s_.targets[0]) == src(e)]
            if st:
                return st[-1].value
        return e
    try:
        av, bv = ev.ev(resolve(a)), ev.ev(resolve(b))
    except Undecided as ex:
        raise AnalysisError(f"{fi.qualname}: arange bounds not evaluable: {ex}")
    return av, bv - av


def d4_half_spectrum(ctx):
    ctx.rule("D4", "len(freduce(ns)) + len(mirror in fexpand) == ns; len(two-sided fscale) == ns; both parities")
    repo = ctx.repo
    fr = repo.fn(MOD + ".freduce")
    fx = repo.fn(MOD + ".fexpand")
    fs = repo.fn(MOD + ".fscale")
    dur, dux, dus = DefUse(fr.node), DefUse(fx.node), DefUse(fs.node)

    def take_arange(fi, du):
        for c in find(fi.node, ast.Call):
            if call_name(c) == "take" and len(c.args) >= 2:
                idx = expand_name(du, c.args[1], c)
                if isinstance(idx, ast.Call) and call_name(idx) == "arange":
                    return c, idx
        raise AnchorMissing(f"{fi.qualname}: np.take(x, np.arange(...)) not found")
    tr, ar_r = take_arange(fr, dur)
    tx, ar_x = take_arange(fx, dux)
    m = Poly.sym("m")
    for par, ns in _parities("ns").items():
        s0, red = _arange_count(repo, fr, dur, ar_r, ns)
        ctx.check(s0 == Poly.const(0) and red == m + Poly.const(1), fr, tr, f"[{par}] freduce takes bins {s0} .. +{red}", "positive-frequency half has floor(ns/2)+1 bins starting at DC",
                  f"[{par} ns] freduce keeps {red} bins from bin {s0}, expected m + 1 from bin 0", key=f"freduce:{par}")
        s1, mirror = _arange_count(repo, fx, dux, ar_x, ns)
        ctx.check(s1 == Poly.const(1) and red + mirror == ns, fx, tx, f"[{par}] {red} + {mirror} bins (mirror from bin {s1})", "reduce followed by expand restores ns bins (DC not mirrored)",
                  f"[{par} ns] freduce keeps {red} bins and fexpand mirrors {mirror} bins from bin {s1}: {red + mirror} != ns = {ns} or DC is mirrored", key=f"fexpand:{par}")
    cj = [c for c in find(fx.node, ast.Call) if call_name(c) == "conj"]
    fl = [c for c in find(fx.node, ast.Call) if call_name(c) in ("flip", "flipud")]
    ctx.check(bool(cj) and bool(fl), fx, fx.node, "conj(flip(...))", "mirror is the reversed complex conjugate", "mirror is not conj(flip(.))", key="mirror")
    # fscale two-sided: concatenate((fsc, -fsc[a:0:-1]))
    fsc = [s_ for s_ in walk_function(fs.node) if isinstance(s_, ast.Assign) and loc_name(s_.targets[0]) == "fsc"]
    if not fsc:
        raise AnchorMissing("fscale: one-sided vector not found")
    ars = [c for c in find(fsc[0].value, ast.Call) if call_name(c) == "arange"]
    if not ars:
        raise AnchorMissing("fscale: arange not found")
    neg = None
    for sb in find(fs.node, ast.Subscript):
        if loc_name(sb.value) == "fsc":
            sl = sb.slice
            if isinstance(sl, ast.Call) and call_name(sl) == "slice" and len(sl.args) == 3:
                neg = (sb, sl.args[0], sl.args[1], sl.args[2])
            elif isinstance(sl, ast.Slice) and sl.lower is not None and sl.upper is not None and sl.step is not None:
                neg = (sb, sl.lower, sl.upper, sl.step)
    if neg is None:
        raise AnchorMissing("fscale: mirrored slice of the one-sided vector not found")
    for par, ns in _parities("ns").items():
        _, L = _arange_count(repo, fs, dus, ars[0], ns)
        ev = _len_eval(repo, fs, ns)
        start, stop, step = (ev.ev(a) for a in neg[1:])
        okstep = stop == Poly.const(0) and step == Poly.const(-1)
        # fsc[-k:0:-1] on length L has L - k elements (k >= 1)
        k = -start
        kc = k.const_value()
        cnt = L - k
        ctx.check(okstep and kc is not None and kc >= 1 and L + cnt == ns, fs, neg[0], f"[{par}] {L} + {cnt} entries", "two-sided scale has ns entries",
                  f"[{par} ns] two-sided frequency scale has {L + cnt} entries, expected {ns}", key=f"fscale-len:{par}")


def d5_fscale(ctx):
    ctx.rule("D5", "fscale[k] == k / ns / si, k in arange(0, floor(ns/2)+1); ns_optim_fft uses left searchsorted on the sorted 2^a3^b table")
    repo = ctx.repo
    fs = repo.fn(MOD + ".fscale")
    dus = DefUse(fs.node)
    fsc = [s for s in walk_function(fs.node) if isinstance(s, ast.Assign) and loc_name(s.targets[0]) == "fsc"]
    if not fsc:
        raise AnchorMissing("fscale: one-sided frequency vector not found")

    class E(Evaluator):
        def ev(self, e):
            if isinstance(e, ast.Call) and call_name(e) == "arange":
                return Poly.sym("K")
            return super().ev(e)
    p = E(facts=_facts()).ev(fsc[0].value)
    ctx.check(p == Poly.sym("K") * Poly.sym("ns").pow(-1) * Poly.sym("si").pow(-1), fs, fsc[0], f"fsc = {p}", "bin k has frequency k / (ns * si)", f"frequency of bin k is {p}", key="fscale")
    ar = [c for c in find(fsc[0].value, ast.Call) if call_name(c) == "arange"][0]
    ok = True
    det = []
    for par, ns in _parities("ns").items():
        s0, cnt = _arange_count(repo, fs, dus, ar, ns)
        ok = ok and s0 == Poly.const(0) and cnt == Poly.sym("m") + Poly.const(1)
        det.append(f"[{par}] {s0} .. +{cnt}")
    ctx.check(ok, fs, ar, ar, "k runs 0 .. floor(ns/2)", f"`{src(ar)}` is not arange(0, floor(ns/2)+1): {'; '.join(det)}", key="fscale-range")
    fo = repo.fn(MOD + ".ns_optim_fft")
    ss = [c for c in find(fo.node, ast.Call) if call_name(c) == "searchsorted"]
    side = kwarg(ss[0], "side") if ss else None
    oks = bool(ss) and (side is None or const_value(side) == (True, "left"))
    ctx.check(oks, fo, ss[0] if ss else fo.node, ss[0] if ss else "searchsorted", "first table entry >= ns is returned (an exact 2^a3^b size maps to itself)",
              "searchsorted(side='right') returns the next larger size for an exact 2^a 3^b length", key="searchsorted")
    if ss:
        # the table searched and the table indexed are the same expression
        duo = DefUse(fo.node)
        tbl = expand_name(duo, ss[0].args[0], ss[0]) if ss[0].args else None
        picked = [sb for sb in find(fo.node, ast.Subscript) if any(n is ss[0] for n in ast.walk(sb.slice))]
        same = bool(picked) and tbl is not None and norm(expand_name(duo, picked[0].value, picked[0])) == norm(tbl)
        ctx.check(same, fo, ss[0], ss[0], "the size is picked from the table that was searched", "the table searched and the table indexed differ", key="same-table")
        srt = tbl is not None and isinstance(tbl, ast.Call) and call_name(tbl) in ("unique", "sort")
        ctx.check(srt, fo, fo.node, "np.unique(...)", "table is sorted ascending", "table is not sorted before the search", key="sorted")
    bases = sorted({const_value(b.left)[1] for b in find(fo.node, ast.BinOp) if isinstance(b.op, ast.Pow) and const_value(b.left)[0]})
    ctx.check(bases == [2, 3], fo, fo.node, f"bases {bases}", "sizes are 2^a 3^b", f"sizes are built from {bases}", key="bases")


def d6_purity(ctx):
    ctx.rule("D6", "spectral helpers do not modify their arguments in place (results must not depend on earlier calls)")
    repo = ctx.repo
    from sa.common import param_mutations
    n = 0
    for q in ("convolve", "ns_optim_fft", "fscale", "freduce", "fexpand", "bp", "lp", "hp", "_freq_filter", "_freq_vector", "dft", "dft2"):
        fi = repo.fn(f"{MOD}.{q}")
        params = [p for p in fi.params]
        muts = param_mutations(repo, fi, params)
        n += 1
        if not muts:
            ctx.ok(fi, fi.node, f"{q}: no in-place operation on an argument or a view/alias of it", "arguments untouched", key="purity:" + q)
        for st, tgt, p in muts:
            ctx.violation(fi, st, st, f"`{src(st)[:60]}` modifies in place an array that may be the caller's `{p}` (np.asarray / atleast_1d / views return the same buffer for an ndarray "
                          "argument): the caller's settings are rescaled on every call, so a second call with the same array - or with slices of it - filters with different corners "
                          "(lp + hp is no longer the identity, bp no longer hp o lp)", key=f"purity:{q}:{p}")


def run(ctx):
    ctx.run(d1_irfft)
    ctx.run(d2_same_crop)
    ctx.run(d3_filters)
    ctx.run(d4_half_spectrum)
    ctx.run(d5_fscale)
    ctx.run(d6_purity)
